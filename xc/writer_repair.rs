//@ append: src/rtps/writer.rs
// Executable contract of the reliable writer's answers on the wire (C04: repair.answer / repair.send /
// gap.cover / gap.before / hist.first / hist.last as seen in HEARTBEATs) — bounded stand-in for the glue no
// deductive unit reaches (process_writer_command, Writer::handle_ack_nack, handle_repair_data_send,
// handle_heartbeat_tick, send_message_to_readers, matched_reader_update) and witness search for the units
// repair_decision / gap_builder / reader_proxy.  The real Writer sends over 127.0.0.1 UDP to sockets bound
// by the test; every datagram is read back and parsed with Message::read_from_buffer.
// Oracle, written from the property statement:
//   answer : every sequence number 1..=last that a matched reader requests in an ACKNACK is answered at
//            that reader's socket by a DATA with that number and exactly the bytes written for it, or by a
//            GAP whose [gap_start, gap_list.base) + gap_list members cover it
//   data   : any DATA, at any socket, at any time carries a written number with exactly its bytes, and a
//            sample written for one particular reader shows up only at that reader's socket
//   gap    : a GAP is addressed to the reader whose socket it arrives at and covers only written numbers
//            that are not (retrievable and relevant for that reader); relevant = written for everybody or
//            for this reader, and - for a Volatile writer - written after the reader was matched
//   hb     : every HEARTBEAT carries first == lowest retrievable number (last+1 if none), last == number
//            of samples written
//   keep   : cache cleaning removes a sample that a matched reliable reader has not acknowledged only if
//            the History depth or a finite max_samples forces it out (at least that many newer samples)
// Bound: History in {KeepLast(1), KeepLast(2), KeepAll}, ResourceLimits QoS absent, and KeepAll with
//   max_samples = LENGTH_UNLIMITED; durability unspecified / Volatile; reader A
//   (reliable, the requester) matched before the first or after the last write; reader B absent /
//   best-effort / reliable acknowledging base 1 or last+1; n in 0..=3 samples, each written for everybody,
//   for A or for B (all 3^n assignments) through process_writer_command (push mode); then B's ACKNACK and
//   A's first ACKNACK (base a0 in 1..=n+1, nothing requested; only if matched early), cache cleaning,
//   A matched now if late, A's ACKNACK (base a1 in a0..=n+1, every request set within {a1..=n+1}), the
//   repair step repeated as the timed event would (handle_repair_data_send while repair_mode), a
//   HEARTBEAT tick.  One fixed family of scenarios runs the repair through the real timer
//   (handle_timed_event).  Acknowledgment bases never move backwards.  xc_repair_source_timestamps: the
//   same with every sample written with no source timestamp / the same one as the previous stamped write /
//   one a second earlier (all patterns), n in 1..=3, History KeepLast(1) / KeepAll, B absent.
//   xc_repair_options_orders: n in 1..=2, every assignment to {everybody, A, B}, with / without a source
//   timestamp and a related sample identity on every write, the WriteOptions built through the real
//   WriteOptionsBuilder in every order of the setters in use; xc_write_options_builder_orders: the builder
//   alone, every subset and order of its three setters.
//   A reader matched late by a non-Volatile writer that requests a still retrievable sample written for
//   the other reader is part of the sweep (former finding F11, repaired by 2d0b53a).
#[cfg(test)]
mod verif_xc_writer_repair {
  use std::{
    collections::BTreeSet,
    net::UdpSocket,
    rc::Rc,
    sync::{Arc, Mutex},
  };

  use bytes::Bytes;

  use super::*;
  use crate::{
    dds::{statusevents::sync_status_channel, with_key::datawriter::WriteOptionsBuilder},
    structure::rpc::SampleIdentity,
    messages::submessages::{
      elements::serialized_payload::SerializedPayload,
      submessages::{AckNack, WriterSubmessage},
    },
    rtps::SubmessageBody,
    structure::{guid::EntityKind, sequence_number::SequenceNumberSet},
    RepresentationIdentifier,
  };

  const A: usize = 0;
  const B: usize = 1;

  #[derive(Clone, Copy, Debug, PartialEq, Eq)]
  enum Hist {
    KeepLast(i32),
    KeepAll,
  }
  #[derive(Clone, Copy, Debug, PartialEq, Eq)]
  enum To {
    All,
    A,
    B,
  }
  #[derive(Clone, Copy, Debug, PartialEq, Eq)]
  enum BKind {
    Absent,
    BestEffort,
    Reliable { ack: i64 }, // acknowledges this base (requests nothing)
  }
  #[derive(Clone, Debug)]
  struct Case {
    history: Hist,
    max_samples: Option<i32>, // ResourceLimits QoS of the writer (None: absent; -1: LENGTH_UNLIMITED)
    volatile: bool,
    b: BKind,
    to: Vec<To>,      // to[i-1]: whom sample i is written for
    a_late: bool,     // A is matched after the last write (and after cleaning)
    a_ack0: i64,      // base of A's first ACKNACK (early A only)
    a_base: i64,      // base of A's requesting ACKNACK
    a_req: Vec<i64>,  // numbers it requests
    timed: bool,      // run the repair through the real timer
    stamps: Vec<St>,  // source timestamps of the writes (empty: none)
    related: bool,    // every write carries a related sample identity
    order: usize,     // which order of the WriteOptionsBuilder setters in use
  }
  impl Case {
    fn n(&self) -> i64 {
      self.to.len() as i64
    }
  }

  struct Env(String); // the environment (loopback UDP, wall clock) misbehaved: not a statement about the code

  struct Harness {
    udp: Rc<UDPSender>,
    socks: [UdpSocket; 2],
    locs: [Locator; 2],
    status_sender: StatusChannelSender<DataWriterStatus>,
    participant_status_sender: StatusChannelSender<DomainParticipantStatusEvent>,
    _keep: Vec<Box<dyn std::any::Any>>,
    mark: u64,
  }

  // what arrived at the two sockets during one step
  #[derive(Default)]
  struct Seen {
    data: [BTreeSet<i64>; 2],
    gap: [BTreeSet<i64>; 2],
    heartbeats: u64,
  }

  impl Harness {
    fn new() -> Result<Self, Env> {
      let (status_sender, sr) = sync_status_channel::<DataWriterStatus>(4).unwrap();
      let (participant_status_sender, pr) =
        sync_status_channel::<DomainParticipantStatusEvent>(16).unwrap();
      let mk = || -> Result<(UdpSocket, Locator), Env> {
        let s = UdpSocket::bind("127.0.0.1:0").map_err(|e| Env(format!("bind 127.0.0.1: {e}")))?;
        s.set_read_timeout(Some(std::time::Duration::from_secs(2)))
          .map_err(|e| Env(format!("set_read_timeout: {e}")))?;
        let l = Locator::from(s.local_addr().map_err(|e| Env(format!("local_addr: {e}")))?);
        Ok((s, l))
      };
      let (sa, la) = mk()?;
      let (sb, lb) = mk()?;
      let udp = UDPSender::new(0).map_err(|e| Env(format!("UDPSender::new: {e}")))?;
      let mut h = Harness {
        udp: Rc::new(udp),
        socks: [sa, sb],
        locs: [la, lb],
        status_sender,
        participant_status_sender,
        _keep: vec![Box::new(sr), Box::new(pr)],
        mark: 0,
      };
      // self test of the environment, independent of the code under test
      h.drain(A)?;
      h.drain(B)?;
      Ok(h)
    }

    // everything that arrived at socket z so far: a marker datagram is sent through the same sending
    // socket and the receive queue is read up to it
    fn drain(&mut self, z: usize) -> Result<Vec<Vec<u8>>, Env> {
      self.mark += 1;
      let mut marker = b"XCMARK".to_vec();
      marker.extend_from_slice(&self.mark.to_le_bytes());
      self.udp.send_to_locator(&marker, &self.locs[z]);
      let mut out = vec![];
      let mut buf = [0u8; 4096];
      loop {
        match self.socks[z].recv_from(&mut buf) {
          Ok((len, _)) => {
            if buf[..len].starts_with(b"XCMARK") {
              if buf[..len] == marker[..] {
                return Ok(out);
              }
            } else {
              out.push(buf[..len].to_vec());
            }
          }
          Err(e) => return Err(Env(format!("loopback UDP: marker datagram did not arrive: {e}"))),
        }
      }
    }

    fn writer(&self, c: &Case) -> (Writer, mio_channel::SyncSender<WriterCommand>) {
      let (cmd_sender, writer_command_receiver) = mio_channel::sync_channel::<WriterCommand>(4);
      let mut qos = QosPolicies::builder().reliable(Duration::from_secs(1));
      qos = match c.history {
        Hist::KeepLast(d) => qos.history(History::KeepLast { depth: d }),
        Hist::KeepAll => qos.history(History::KeepAll),
      };
      if c.volatile {
        qos = qos.durability(policy::Durability::Volatile);
      }
      if let Some(m) = c.max_samples {
        qos = qos.resource_limits(policy::ResourceLimits {
          max_samples: m,
          max_instances: -1,
          max_samples_per_instance: -1,
        });
      }
      let ing = WriterIngredients {
        guid: writer_guid(),
        writer_command_receiver,
        writer_command_receiver_waker: Arc::new(Mutex::new(None)),
        topic_name: "verif_xc_repair".to_string(),
        like_stateless: false,
        qos_policies: qos.build(),
        status_sender: self.status_sender.clone(),
        security_plugins: None,
      };
      let timer = mio_extras::timer::Builder::default()
        .tick_duration(std::time::Duration::from_millis(1))
        .capacity(64)
        .num_slots(64)
        .build();
      let w = Writer::new(
        ing,
        Rc::clone(&self.udp),
        timer,
        self.participant_status_sender.clone(),
      );
      (w, cmd_sender)
    }
  }

  fn sn(i: i64) -> SequenceNumber {
    SequenceNumber::new(i)
  }
  fn writer_guid() -> GUID {
    GUID::new(
      GuidPrefix::new(b"xcRepairWrtr"),
      EntityId::new([0, 0, 7], EntityKind::WRITER_WITH_KEY_USER_DEFINED),
    )
  }
  fn reader_guid(z: usize) -> GUID {
    GUID::new(
      GuidPrefix::new(if z == A { b"xcRepReaderA" } else { b"xcRepReaderB" }),
      EntityId::new([0, 0, 1 + z as u8], EntityKind::READER_WITH_KEY_USER_DEFINED),
    )
  }
  fn name(z: usize) -> &'static str {
    if z == A { "A" } else { "B" }
  }
  // the bytes written for sample i (a multiple of 4 long: submessages are padded to 32 bit on the wire
  // and the parser cannot tell padding from payload)
  fn value(i: i64) -> Vec<u8> {
    let mut v = vec![i as u8, 0xC3, (i * 11 + 5) as u8, 0x3C];
    for k in 0..4 * (i % 3) {
      v.push((0x40 + i + k) as u8);
    }
    v
  }
  // ... and as they must appear in a DATA submessage: encapsulation header CDR_LE, options 0, value
  fn wire_bytes(i: i64) -> Vec<u8> {
    let mut v = vec![0x00, 0x01, 0x00, 0x00];
    v.extend(value(i));
    v
  }
  // the application-supplied source timestamp of a write: none, the same as the previous stamped write's
  // (the first one: a fixed instant), or one second earlier than that
  #[derive(Clone, Copy, Debug, PartialEq, Eq)]
  enum St {
    NoStamp,
    Same,
    Earlier,
  }
  // stamps[i-1] describes sample i; samples beyond the list carry no source timestamp
  fn source_timestamp(stamps: &[St], i: i64) -> Option<Timestamp> {
    let mut cur: u64 = 1_000_000u64 << 32; // Timestamp ticks: 10^6 s after the epoch
    let mut out = None;
    for st in stamps.iter().take(i as usize) {
      out = match st {
        St::NoStamp => None,
        St::Same => Some(cur),
        St::Earlier => {
          cur -= 1u64 << 32;
          Some(cur)
        }
      };
    }
    if (i as usize) > stamps.len() { None } else { out.map(Timestamp::from_ticks) }
  }
  fn stamp_patterns(len: usize) -> Vec<Vec<St>> {
    let mut v: Vec<Vec<St>> = vec![vec![]];
    for _ in 0..len {
      v = v
        .into_iter()
        .flat_map(|p| {
          [St::NoStamp, St::Same, St::Earlier].into_iter().map(move |s| {
            let mut q = p.clone();
            q.push(s);
            q
          })
        })
        .collect();
    }
    v
  }
  // the WriteOptions of a write, built through the real builder: the setters in use are applied in the
  // order-th of all their orders (what the options must say is known from the scenario, not from here)
  #[derive(Clone, Copy, Debug)]
  enum Setter {
    Single(GUID),
    Stamp(Timestamp),
    Related(SampleIdentity),
  }
  fn orders(k: usize) -> Vec<Vec<usize>> {
    if k == 0 {
      return vec![vec![]];
    }
    let mut out = vec![];
    for p in orders(k - 1) {
      for pos in 0..=p.len() {
        let mut q = p.clone();
        q.insert(pos, k - 1);
        out.push(q);
      }
    }
    out
  }
  fn build_options(setters: &[Setter], order: usize) -> WriteOptions {
    let perms = orders(setters.len());
    let mut b = WriteOptionsBuilder::new();
    for k in &perms[order % perms.len()] {
      b = match setters[*k] {
        Setter::Single(g) => b.to_single_reader(g),
        Setter::Stamp(ts) => b.source_timestamp(ts),
        Setter::Related(si) => b.related_sample_identity(si),
      };
    }
    b.build()
  }
  fn related_identity(i: i64) -> SampleIdentity {
    SampleIdentity { writer_guid: reader_guid(B), sequence_number: sn(100 + i) }
  }
  fn options(c: &Case, i: i64) -> WriteOptions {
    let mut setters = vec![];
    match c.to[(i - 1) as usize] {
      To::All => {}
      To::A => setters.push(Setter::Single(reader_guid(A))),
      To::B => setters.push(Setter::Single(reader_guid(B))),
    }
    if let Some(ts) = source_timestamp(&c.stamps, i) {
      setters.push(Setter::Stamp(ts));
    }
    if c.related {
      setters.push(Setter::Related(related_identity(i)));
    }
    build_options(&setters, c.order)
  }
  fn acknack(z: usize, base: i64, req: &[i64], count: i32) -> AckSubmessage {
    let mut set = SequenceNumberSet::new_empty(sn(base));
    if let Some(hi) = req.iter().max() {
      set = SequenceNumberSet::new(sn(base), (hi - base + 1) as u32);
      for r in req {
        set.test_insert(sn(*r));
      }
    }
    AckSubmessage::AckNack(AckNack {
      reader_id: reader_guid(z).entity_id,
      writer_id: writer_guid().entity_id,
      reader_sn_state: set,
      count,
    })
  }

  // the scenario as the oracle sees it
  struct Model {
    written: i64,
    joined_at: [Option<i64>; 2], // how many samples had been written when the reader was matched
  }
  impl Model {
    fn relevant(&self, c: &Case, s: i64, z: usize) -> bool {
      let for_z = match c.to[(s - 1) as usize] {
        To::All => true,
        To::A => z == A,
        To::B => z == B,
      };
      let before_match = self.joined_at[z].map_or(true, |k| s <= k);
      for_z && !(c.volatile && before_match)
    }
  }

  fn retrievable(w: &Writer, s: i64) -> bool {
    w.history_buffer.get_by_sn(sn(s)).map_or(false, |cc| cc.sequence_number == sn(s))
  }

  // every datagram, whenever and wherever it arrives, against the oracle
  fn check_datagram(c: &Case, step: &str, z: usize, raw: &[u8], w: &Writer, m: &Model, seen: &mut Seen) {
    let msg = match Message::read_from_buffer(&Bytes::copy_from_slice(raw)) {
      Ok(msg) => msg,
      Err(e) => panic!(
        "XC-WITNESS label=repair.send {:?} step={}: datagram at reader {}'s socket does not parse as an RTPS message ({}): {:02x?}",
        c, step, name(z), e, raw
      ),
    };
    if msg.header.guid_prefix != writer_guid().prefix {
      return; // not from the writer under test
    }
    for sub in &msg.submessages {
      match &sub.body {
        SubmessageBody::Writer(WriterSubmessage::Data(d, _)) => {
          let s = i64::from(d.writer_sn);
          assert!(
            1 <= s && s <= m.written,
            "XC-WITNESS label=repair.send {:?} step={}: DATA with sequence number {} at reader {}'s socket, written so far 1..={}",
            c, step, s, name(z), m.written
          );
          let got = d.serialized_payload.as_ref().map(|b| b.to_vec());
          assert!(
            got == Some(wire_bytes(s)),
            "XC-WITNESS label=repair.answer {:?} step={}: DATA {} at reader {}'s socket carries {:02x?}, the bytes written for {} are {:02x?}",
            c, step, s, name(z), got, s, wire_bytes(s)
          );
          let to = c.to[(s - 1) as usize];
          assert!(
            to == To::All || (to == To::A && z == A) || (to == To::B && z == B),
            "XC-WITNESS label=repair.send {:?} step={}: sample {} was written for reader {:?} only but its DATA was transmitted to reader {}'s socket",
            c, step, s, to, name(z)
          );
          seen.data[z].insert(s);
        }
        SubmessageBody::Writer(WriterSubmessage::DataFrag(d, _)) => {
          let s = i64::from(d.writer_sn);
          let to = if 1 <= s && s <= m.written { c.to[(s - 1) as usize] } else { To::All };
          assert!(
            to == To::All || (to == To::A && z == A) || (to == To::B && z == B),
            "XC-WITNESS label=repair.send {:?} step={}: sample {} was written for reader {:?} only but a DATAFRAG of it was transmitted to reader {}'s socket",
            c, step, s, to, name(z)
          );
        }
        SubmessageBody::Writer(WriterSubmessage::Gap(g, _)) => {
          assert!(
            g.reader_id == reader_guid(z).entity_id,
            "XC-WITNESS label=gap.cover {:?} step={}: GAP at reader {}'s socket is addressed to entity {:?}",
            c, step, name(z), g.reader_id
          );
          let mut covered: BTreeSet<i64> = (i64::from(g.gap_start)..i64::from(g.gap_list.base())).collect();
          covered.extend(g.gap_list.iter().map(i64::from));
          for s in &covered {
            assert!(
              1 <= *s && *s <= m.written,
              "XC-WITNESS label=gap.cover {:?} step={}: GAP (start {:?}, base {:?}, list {:?}) to reader {} covers {}, which is not a written number (1..={})",
              c, step, g.gap_start, g.gap_list.base(), g.gap_list.iter().collect::<Vec<_>>(), name(z), s, m.written
            );
            assert!(
              !(retrievable(w, *s) && m.relevant(c, *s, z)),
              "XC-WITNESS label=gap.cover {:?} step={}: GAP (start {:?}, base {:?}, list {:?}) to reader {} covers sample {}, which is retrievable and relevant for that reader",
              c, step, g.gap_start, g.gap_list.base(), g.gap_list.iter().collect::<Vec<_>>(), name(z), s
            );
          }
          seen.gap[z].extend(covered);
        }
        SubmessageBody::Writer(WriterSubmessage::Heartbeat(hb, _)) => {
          let lowest = (1..=m.written).find(|s| retrievable(w, *s)).unwrap_or(m.written + 1);
          assert!(
            i64::from(hb.last_sn) == m.written,
            "XC-WITNESS label=hist.last {:?} step={}: HEARTBEAT at reader {}'s socket advertises last = {:?}, highest written number is {}",
            c, step, name(z), hb.last_sn, m.written
          );
          assert!(
            i64::from(hb.first_sn) == lowest,
            "XC-WITNESS label=hist.first {:?} step={}: HEARTBEAT at reader {}'s socket advertises first = {:?}, lowest retrievable number is {}",
            c, step, name(z), hb.first_sn, lowest
          );
          seen.heartbeats += 1;
        }
        _ => {}
      }
    }
  }

  fn collect(h: &mut Harness, c: &Case, step: &str, w: &Writer, m: &Model) -> Result<Seen, Env> {
    let mut seen = Seen::default();
    for z in [A, B] {
      for raw in h.drain(z)? {
        check_datagram(c, step, z, &raw, w, m, &mut seen);
      }
    }
    Ok(seen)
  }

  fn match_reader(h: &Harness, w: &mut Writer, m: &mut Model, z: usize, reliable: bool) {
    let qos = if reliable {
      QosPolicies::builder().reliable(Duration::from_secs(1)).build()
    } else {
      QosPolicies::builder().best_effort().build()
    };
    let mut rp = RtpsReaderProxy::new(reader_guid(z), qos, false);
    rp.unicast_locator_list = vec![h.locs[z].clone()];
    w.matched_reader_update(&rp);
    m.joined_at[z] = Some(m.written);
  }

  #[derive(Default)]
  struct Stats {
    cases: u64,
    answered_by_data: u64,
    answered_by_gap: u64,
    heartbeats: u64,
    single_reader_gaps: u64,
  }

  // Ok(false): the wall clock stepped back while writing, redo
  fn run_case(h: &mut Harness, c: &Case, st: &mut Stats) -> Result<bool, Env> {
    let n = c.n();
    let (mut w, cmd) = h.writer(c);
    let mut m = Model { written: 0, joined_at: [None, None] };
    match c.b {
      BKind::Absent => {}
      BKind::BestEffort => match_reader(h, &mut w, &mut m, B, false),
      BKind::Reliable { .. } => match_reader(h, &mut w, &mut m, B, true),
    }
    if !c.a_late {
      match_reader(h, &mut w, &mut m, A, true);
    }
    // write, in push mode
    let mut last_wall = Timestamp::ZERO;
    for i in 1..=n {
      // assumption valid.hist.clock: the wall clock readings the writer keys its history by strictly increase;
      // wait for a tick and bracket the write with two readings
      let mut before = Timestamp::now();
      while before <= last_wall {
        std::hint::spin_loop();
        before = Timestamp::now();
      }
      let sent = cmd.send(WriterCommand::DDSData {
        ddsdata: DDSData::new(SerializedPayload::new(RepresentationIdentifier::CDR_LE, value(i))),
        write_options: options(c, i),
        sequence_number: sn(i),
      });
      assert!(sent.is_ok(), "test harness: command channel closed");
      w.process_writer_command();
      let after = Timestamp::now();
      last_wall = std::cmp::max(after, before);
      m.written = i;
      if after < before {
        return Ok(false); // the wall clock was seen stepping back
      }
      for s in 1..=i {
        assert!(
          retrievable(&w, s),
          "XC-WITNESS label=hist.insert {:?} step=write: after writing {} samples get_by_sn({}) returns {:?} instead of sample {}, although nothing was cleaned yet",
          c, i, s, w.history_buffer.get_by_sn(sn(s)).map(|cc| cc.sequence_number), s
        );
      }
      collect(h, c, "write", &w, &m)?;
    }
    // acknowledgments so far, then cleaning
    if let BKind::Reliable { ack } = c.b {
      w.handle_ack_nack(reader_guid(B).prefix, &acknack(B, ack, &[], 1));
    }
    if !c.a_late {
      w.handle_ack_nack(reader_guid(A).prefix, &acknack(A, c.a_ack0, &[], 1));
    }
    collect(h, c, "acknowledge", &w, &m)?;
    let before: Vec<i64> = (1..=n).filter(|s| retrievable(&w, *s)).collect();
    w.handle_cache_cleaning();
    // finite limits that may force a still needed sample out: History depth, max_samples (32 built in if absent)
    let mut forcing: Vec<usize> = vec![];
    if let Hist::KeepLast(d) = c.history {
      forcing.push(d as usize);
    }
    match c.max_samples {
      None => forcing.push(32),
      Some(m) if m >= 0 => forcing.push(m as usize),
      Some(_) => {}
    }
    for s in &before {
      let needed = (!c.a_late && *s >= c.a_ack0) || matches!(c.b, BKind::Reliable { ack } if *s >= ack);
      let newer = before.iter().filter(|t| *t > s).count();
      assert!(
        !needed || retrievable(&w, *s) || forcing.iter().any(|l| newer >= *l),
        "XC-WITNESS label=hist.keep {:?} step=clean: sample {} is still unacknowledged by a matched reliable reader but cache cleaning removed it, although only {} newer samples were retained (before {:?}) and the finite History depth / resource limits are {:?}",
        c, s, newer, before, forcing
      );
    }
    if c.a_late {
      match_reader(h, &mut w, &mut m, A, true);
    }

    // A's request and the repair
    w.nack_response_delay = std::time::Duration::from_millis(0);
    w.handle_ack_nack(reader_guid(A).prefix, &acknack(A, c.a_base, &c.a_req, 2));
    let in_repair = |w: &mut Writer| w.lookup_reader_proxy_mut(reader_guid(A)).map_or(false, |rp| rp.repair_mode);
    if c.timed {
      // through the timer, as the event loop does
      let t0 = std::time::Instant::now();
      while in_repair(&mut w) {
        std::thread::sleep(std::time::Duration::from_millis(3));
        w.handle_timed_event();
        assert!(
          t0.elapsed() < std::time::Duration::from_secs(20),
          "XC-WITNESS label=repair.idle {:?}: repair mode of reader A still on after 20 s of timed events",
          c
        );
      }
    } else if in_repair(&mut w) {
      // SendRepairData fires, and is rescheduled while the proxy stays in repair mode
      let mut rounds = 0;
      loop {
        w.handle_repair_data_send(reader_guid(A));
        rounds += 1;
        if !in_repair(&mut w) {
          break;
        }
        assert!(
          rounds <= 2 * n + 4,
          "XC-WITNESS label=repair.idle {:?}: repair mode of reader A still on after {} repair steps for at most {} requested numbers",
          c, rounds, n
        );
      }
    }
    let seen = collect(h, c, "repair", &w, &m)?;
    for s in &c.a_req {
      if *s < 1 || *s > n {
        continue; // never advertised
      }
      let by_data = seen.data[A].contains(s);
      let by_gap = seen.gap[A].contains(s);
      assert!(
        by_data || by_gap,
        "XC-WITNESS label=repair.answer {:?}: reader A requested {} (written for {:?}, {}) and got neither its DATA nor a GAP covering it; DATA received {:?}, GAPs cover {:?}",
        c, s, c.to[(*s - 1) as usize], if retrievable(&w, *s) { "retrievable" } else { "no longer retrievable" }, seen.data[A], seen.gap[A]
      );
      if by_data { st.answered_by_data += 1; } else { st.answered_by_gap += 1; }
      if c.to[(*s - 1) as usize] == To::B && retrievable(&w, *s) {
        st.single_reader_gaps += 1;
      }
    }
    // HEARTBEAT
    w.handle_heartbeat_tick(false);
    let seen = collect(h, c, "heartbeat", &w, &m)?;
    st.heartbeats += seen.heartbeats;
    st.cases += 1;
    Ok(true)
  }

  fn run(h: &mut Harness, c: &Case, st: &mut Stats) -> Result<(), Env> {
    for _ in 0..5 {
      if run_case(h, c, st)? {
        return Ok(());
      }
    }
    eprintln!("XC-NOTE wall clock kept stepping back, case skipped: {:?}", c);
    Ok(())
  }

  fn assignments(n: usize) -> Vec<Vec<To>> {
    let mut v: Vec<Vec<To>> = vec![vec![]];
    for _ in 0..n {
      let mut next = vec![];
      for p in &v {
        for t in [To::All, To::A, To::B] {
          let mut q = p.clone();
          q.push(t);
          next.push(q);
        }
      }
      v = next;
    }
    v
  }

  fn subsets(lo: i64, hi: i64) -> Vec<Vec<i64>> {
    let items: Vec<i64> = (lo..=hi).collect();
    (0..(1u32 << items.len()))
      .map(|mask| items.iter().enumerate().filter(|(k, _)| mask & (1 << k) != 0).map(|(_, s)| *s).collect())
      .collect()
  }

  fn sweep(h: &mut Harness, history: Hist, max_samples: Option<i32>, st: &mut Stats) -> Result<(), Env> {
    for volatile in [false, true] {
      for n in 0..=3i64 {
        let mut bs = vec![BKind::Absent, BKind::BestEffort, BKind::Reliable { ack: 1 }];
        if n > 0 {
          bs.push(BKind::Reliable { ack: n + 1 });
        }
        for b in bs {
          for to in assignments(n as usize) {
            for a_late in [false, true] {
              let ack0s: Vec<i64> = if a_late { vec![1] } else { (1..=n + 1).collect() };
              for a_ack0 in ack0s {
                for a_base in a_ack0..=n + 1 {
                  for a_req in subsets(a_base, n + 1) {
                    let c = Case { history, max_samples, volatile, b, to: to.clone(), a_late, a_ack0, a_base, a_req, timed: false, stamps: vec![], related: false, order: 0 };
                    run(h, &c, st)?;
                  }
                }
              }
            }
          }
        }
      }
    }
    Ok(())
  }

  fn report(what: &str, r: Result<(), Env>, st: &Stats, min_cases: u64) {
    match r {
      Err(Env(e)) => {
        // no verdict about the code: the test environment cannot carry the experiment
        eprintln!("XC-NOTE {}: environment failure, nothing checked: {}", what, e);
      }
      Ok(()) => {
        assert!(
          st.cases > min_cases && st.answered_by_data > min_cases / 4 && st.answered_by_gap > min_cases / 8
            && st.single_reader_gaps > min_cases / 100 && st.heartbeats > min_cases / 4,
          "vacuity guard ({}): {} scenarios, {} requests answered by DATA, {} by GAP ({} of them for a retrievable sample of the other reader), {} HEARTBEATs",
          what, st.cases, st.answered_by_data, st.answered_by_gap, st.single_reader_gaps, st.heartbeats
        );
        eprintln!(
          "XC-NOTE {}: {} scenarios, {} requests answered by DATA, {} by GAP ({} for a retrievable sample of the other reader), {} HEARTBEATs",
          what, st.cases, st.answered_by_data, st.answered_by_gap, st.single_reader_gaps, st.heartbeats
        );
      }
    }
  }

  fn sweep_test(history: Hist, max_samples: Option<i32>, what: &str) {
    let mut st = Stats::default();
    let r = Harness::new().and_then(|mut h| sweep(&mut h, history, max_samples, &mut st));
    report(what, r, &st, 20_000);
  }

  #[test]
  fn xc_repair_keep_last_1() {
    sweep_test(Hist::KeepLast(1), None, "KeepLast(1)");
  }
  #[test]
  fn xc_repair_keep_last_2() {
    sweep_test(Hist::KeepLast(2), None, "KeepLast(2)");
  }
  #[test]
  fn xc_repair_keep_all() {
    sweep_test(Hist::KeepAll, None, "KeepAll");
  }
  #[test]
  fn xc_repair_keep_all_unlimited() {
    sweep_test(Hist::KeepAll, Some(-1), "KeepAll, max_samples unlimited");
  }

  // application-supplied source timestamps must not matter for what is retained, advertised and answered
  #[test]
  fn xc_repair_source_timestamps() {
    let mut st = Stats::default();
    let r = Harness::new().and_then(|mut h| {
      for history in [Hist::KeepLast(1), Hist::KeepAll] {
        for n in 1..=3i64 {
          for stamps in stamp_patterns(n as usize) {
            for (a_late, a_ack0) in [(false, 1), (false, n), (true, 1)] {
              for a_req in subsets(a_ack0, n) {
                let c = Case {
                  history, max_samples: None, volatile: false, b: BKind::Absent, to: vec![To::All; n as usize],
                  a_late, a_ack0, a_base: a_ack0, a_req, timed: false, stamps: stamps.clone(),
                  related: false, order: 0,
                };
                run(&mut h, &c, &mut st)?;
              }
            }
          }
        }
      }
      Ok(())
    });
    match r {
      Err(Env(e)) => eprintln!("XC-NOTE source timestamps: environment failure, nothing checked: {}", e),
      Ok(()) => assert!(
        st.cases > 800 && st.answered_by_data > 400 && st.heartbeats > 800,
        "vacuity guard (source timestamps): {} scenarios, {} requests answered by DATA, {} HEARTBEATs",
        st.cases, st.answered_by_data, st.heartbeats
      ),
    }
  }

  // samples written for one particular reader, the WriteOptions built in every order of the setters in use
  #[test]
  fn xc_repair_options_orders() {
    let mut st = Stats::default();
    let r = Harness::new().and_then(|mut h| {
      for n in 1..=2i64 {
        for to in assignments(n as usize) {
          for b in [BKind::BestEffort, BKind::Reliable { ack: 1 }] {
            for stamped in [false, true] {
              for related in [false, true] {
                for order in 0..6 {
                  for a_req in subsets(1, n) {
                    let c = Case {
                      history: Hist::KeepAll, max_samples: None, volatile: false, b, to: to.clone(),
                      a_late: false, a_ack0: 1, a_base: 1, a_req, timed: false,
                      stamps: if stamped { vec![St::Same; n as usize] } else { vec![] },
                      related, order,
                    };
                    run(&mut h, &c, &mut st)?;
                  }
                }
              }
            }
          }
        }
      }
      Ok(())
    });
    match r {
      Err(Env(e)) => eprintln!("XC-NOTE options orders: environment failure, nothing checked: {}", e),
      Ok(()) => assert!(
        st.cases > 1_900 && st.answered_by_data > 1_000 && st.single_reader_gaps > 300,
        "vacuity guard (options orders): {} scenarios, {} requests answered by DATA, {} by a GAP for a retrievable sample of the other reader",
        st.cases, st.answered_by_data, st.single_reader_gaps
      ),
    }
  }

  // the WriteOptionsBuilder alone: every subset of its three setters in every order
  #[test]
  fn xc_write_options_builder_orders() {
    let g = reader_guid(A);
    let ts = Timestamp::from_ticks(77u64 << 32);
    let si = related_identity(1);
    let mut cases = 0u64;
    for mask in 0u32..8 {
      let mut setters = vec![];
      if mask & 1 != 0 { setters.push(Setter::Single(g)); }
      if mask & 2 != 0 { setters.push(Setter::Stamp(ts)); }
      if mask & 4 != 0 { setters.push(Setter::Related(si)); }
      let perms = orders(setters.len());
      for (order, perm) in perms.iter().enumerate() {
        let wo = build_options(&setters, order);
        let want = (
          if mask & 1 != 0 { Some(g) } else { None },
          if mask & 2 != 0 { Some(ts) } else { None },
          if mask & 4 != 0 { Some(si) } else { None },
        );
        let got = (wo.to_single_reader(), wo.source_timestamp(), wo.related_sample_identity());
        assert!(
          got == want,
          "XC-WITNESS label=push.options.order setters applied in the order {:?}: build() carries (to_single_reader, source_timestamp, related_sample_identity) = {:?}, set were {:?}",
          perm.iter().map(|k| setters[*k]).collect::<Vec<_>>(), got, want
        );
        cases += 1;
      }
    }
    assert!(cases == 16, "vacuity guard: {} builder orders", cases);
  }

  // the same oracle with the repair driven by the real timer (nack_response_delay 0, tick 1 ms)
  #[test]
  fn xc_repair_timed_event_path() {
    let mut st = Stats::default();
    let r = Harness::new().and_then(|mut h| {
      for (history, to, a_late, a_base, a_req) in [
        (Hist::KeepAll, vec![To::All, To::B, To::All], false, 1, vec![1, 2, 3]),
        (Hist::KeepAll, vec![To::A, To::All], false, 1, vec![1, 2]),
        (Hist::KeepLast(1), vec![To::All, To::All, To::A], true, 1, vec![1, 2, 3]),
        (Hist::KeepLast(2), vec![To::All, To::All, To::All], true, 1, vec![1, 3]),
        (Hist::KeepLast(1), vec![To::B, To::All], false, 2, vec![2]),
        (Hist::KeepAll, vec![To::All], false, 1, vec![]),
      ] {
        for b in [BKind::Absent, BKind::Reliable { ack: to.len() as i64 + 1 }] {
          let c = Case { history, max_samples: None, volatile: false, b, to: to.clone(), a_late, a_ack0: 1, a_base, a_req: a_req.clone(), timed: true, stamps: vec![], related: false, order: 0 };
          run(&mut h, &c, &mut st)?;
        }
      }
      Ok(())
    });
    match r {
      Err(Env(e)) => eprintln!("XC-NOTE timed: environment failure, nothing checked: {}", e),
      Ok(()) => assert!(
        st.cases >= 12 && st.answered_by_data >= 10 && st.answered_by_gap >= 4,
        "vacuity guard (timed): {} scenarios, {} requests answered by DATA, {} by GAP",
        st.cases, st.answered_by_data, st.answered_by_gap
      ),
    }
  }

  // the GAP builders directly: all sets of irrelevant numbers within 1..=8, all bounds 1..=9
  #[test]
  fn xc_gap_builders_direct() {
    let covered_by = |msg: &Message, what: &str| -> Vec<BTreeSet<i64>> {
      msg
        .submessages
        .iter()
        .filter_map(|sub| match &sub.body {
          SubmessageBody::Writer(WriterSubmessage::Gap(g, _)) => {
            assert!(
              g.reader_id == reader_guid(B).entity_id && g.writer_id == writer_guid().entity_id,
              "XC-WITNESS label=gap.cover {}: GAP is addressed to reader entity {:?} from writer entity {:?}",
              what, g.reader_id, g.writer_id
            );
            let mut c: BTreeSet<i64> = (i64::from(g.gap_start)..i64::from(g.gap_list.base())).collect();
            c.extend(g.gap_list.iter().map(i64::from));
            Some(c)
          }
          _ => None,
        })
        .collect()
    };
    let mut cases = 0u64;
    for mask in 0u32..256 {
      let set: BTreeSet<i64> = (1..=8).filter(|k| mask & (1 << (k - 1)) != 0).collect();
      let irrelevant: BTreeSet<SequenceNumber> = set.iter().map(|k| sn(*k)).collect();
      let msg = MessageBuilder::new()
        .gap_msg(&irrelevant, writer_guid().entity_id, Endianness::LittleEndian, reader_guid(B))
        .add_header_and_build(writer_guid().prefix);
      let gaps = covered_by(&msg, &format!("gap_msg({:?})", set));
      if set.is_empty() {
        assert!(
          gaps.is_empty(),
          "XC-WITNESS label=gap.empty gap_msg({{}}): a GAP covering {:?} was built for an empty set",
          gaps
        );
      } else {
        assert!(
          gaps.len() == 1 && gaps[0] == set,
          "XC-WITNESS label=gap.cover gap_msg({:?}): the GAP submessages built cover {:?}, the irrelevant numbers are {:?}",
          set, gaps, set
        );
      }
      cases += 1;
    }
    for b in 1..=9i64 {
      let msg = MessageBuilder::new()
        .gap_msg_before(sn(b), writer_guid().entity_id, Endianness::LittleEndian, reader_guid(B))
        .add_header_and_build(writer_guid().prefix);
      let gaps = covered_by(&msg, &format!("gap_msg_before({})", b));
      let want: BTreeSet<i64> = (1..b).collect();
      assert!(
        gaps.len() == 1 && gaps[0] == want,
        "XC-WITNESS label=gap.before gap_msg_before({}): the GAP submessages built cover {:?}, required exactly 1..{}",
        b, gaps, b
      );
      cases += 1;
    }
    assert!(cases == 265, "vacuity guard: {} cases", cases);
  }
}
