//@ append: src/discovery/sedp_messages.rs
// Executable contract of discovery-data (de)serialisation (C15) — BOUNDED STAND-IN / witness search for
// the whole discovery messages (String, Vec<Locator>, parameter maps, speedy-derive), which neither
// the Verus PID-pairing unit nor the Kani per-type round trips reach.  Everything runs on the REAL
// PlCdrSerialize / PlCdrDeserialize impls and the real ParameterList framing.
// Oracle (from the property statement and RTPS 2.5; PIDs / wire layouts below are copied from the
// specification tables 9.13-9.15 and 9.4.2.11, not from the crate's constants):
//   plcdr.<type>.roundtrip   from_pl_cdr_bytes(to_pl_cdr_bytes(x, rep), rep) == x, compared field-wise
//                            (reception time stamps excluded), both PL_CDR_LE and PL_CDR_BE
//   plcdr.<type>.frame       the bytes are a well-formed RTPS ParameterList (9.4.2.11): (pid, length,
//                            value) triples, every length a multiple of 4, PID_SENTINEL exactly at the end
//   plcdr.<type>.wire        every field travels under the PID and in the CDR layout RTPS prescribes
//                            (own second encoder); nothing else is on the wire; only a parameter whose
//                            value is the RTPS default may be left out
//   plcdr.<type>.reserialize to_bytes(from_bytes(b)) == b for every b produced above
//   plcdr.<type>.unknown     a parameter the implementation does not know, inserted at EVERY position
//                            (before the first, between any two, before the sentinel, and at all
//                            positions at once), is skipped: the decoded value equals the original.
//                            PIDs: 0x3fff (unassigned), 0x002c PID_USER_DATA / 0x0073 / 0x0075 (defined
//                            by RTPS / XTypes, not implemented here), 0x0000 PID_PAD, vendor-specific
//                            0x8000 / 0x8007 / 0xbfff; value lengths 0, 4, 8, 12 filled with bytes that
//                            look like a sentinel in either byte order.  RTPS 9.4.2.11 requires every
//                            parameter length to be a multiple of 4, so other lengths are not valid
//                            framing and are not enumerated.
//                            Must-understand bit (0x4000, RTPS 9.6.2.2.1: a receiver that does not
//                            understand such a parameter must not use the data): the property statement
//                            says "skipped", RTPS says "discard"; for 0x4014 (PID_DOMAIN_TAG, unknown
//                            here), 0x7fff and 0xc001 the oracle therefore accepts BOTH outcomes — Err, or
//                            Ok with exactly the original value — and rejects only a changed value.
//   plcdr.<type>.default     each parameter removed from the wire form, one PID at a time: an optional
//                            one decodes to the RTPS default (expects_inline_qos false, locator lists
//                            empty, manual liveliness count 0, every other optional field / QoS policy
//                            absent = None; the lease-duration default {100 s} is applied by DiscoveryDB,
//                            see xc/discovery_defaults.rs), every other field unchanged; a parameter
//                            without a default (GUIDs, topic / type name, protocol version, vendor id,
//                            builtin endpoint set) gives Err, never an invented value
//   plcdr.pmd.*              ParticipantMessageData travels as plain CDR (CDR_LE / CDR_BE): layout
//                            12 + 4 + 4 + n bytes (RTPS 9.6.2.1), round trip, re-serialisation
// Bound: 2 byte orders.  Per type a vector of dimensions (one per field) with 2..13 variants each;
//   Option fields {None, Some(boundary values)}, QoS policies {None, every kind x Duration INFINITE /
//   ZERO / an asymmetric bit pattern, i32::MAX, -1 = LENGTH_UNLIMITED, ...}, locator lists of length
//   0, 1, 2 (UDPv4, UDPv6, other kind, invalid), strings "" / ASCII / multi-byte UTF-8 of 0..=5 bytes.
//   Enumerated: (1) the FULL present/absent product inside each dimension group, twice (present = first
//   / = last representative), the other groups at "all absent" and at "all present" —
//   SpdpDiscoveredParticipantData: one group (2 x 3^4 x 2^3 = 1296 combinations); DiscoveredTopicData: one
//   group (2^12); DiscoveredReaderData / DiscoveredWriterData: group A = proxy / key / content-filter
//   fields incl. list lengths, group B = the 10 QoS policies (2^10); (2) ALL PAIRS of dimensions over ALL
//   their variants on both baselines; (3) all-absent / all-first / all-last.  Unknown-parameter and
//   default clauses run on the three baselines plus every single-dimension variation of "all present".
//   The DDS-RPC extension fields (service_instance_name, related_*_key, topic_aliases) are enumerated in
//   separate tests.  Security-feature fields are not enumerated (default features).
#[cfg(test)]
mod verif_xc_discovery_roundtrip {
  use std::{
    collections::{BTreeMap, BTreeSet},
    fmt::Debug,
    net::{Ipv4Addr, Ipv6Addr, SocketAddrV4, SocketAddrV6},
  };

  use super::*;
  use crate::{
    dds::qos::policy::PresentationAccessScope,
    discovery::{
      builtin_endpoint::{BuiltinEndpointQos, BuiltinEndpointSet},
      spdp_participant_data::{Participant_GUID, SpdpDiscoveredParticipantData},
    },
    messages::{protocol_version::ProtocolVersion, vendor_id::VendorId},
    serialization::{deserialize_from_cdr_with_rep_id, to_writer_with_rep_id},
    structure::{
      duration::Duration,
      guid::{EntityId, EntityKind},
    },
  };

  type Rep = RepresentationIdentifier;
  const REPS: [(Rep, bool, &str); 2] = [(Rep::PL_CDR_LE, false, "PL_CDR_LE"), (Rep::PL_CDR_BE, true, "PL_CDR_BE")];

  fn hex(b: &[u8]) -> String {
    b.iter().map(|x| format!("{:02x}", x)).collect::<Vec<_>>().join(" ")
  }
  fn r4(n: usize) -> usize {
    (n + 3) / 4 * 4
  }

  // ------------------------------------------------------------------ own CDR encoder (oracle side)
  fn e16(v: u16, be: bool) -> [u8; 2] {
    if be { v.to_be_bytes() } else { v.to_le_bytes() }
  }
  fn e32(v: u32, be: bool) -> Vec<u8> {
    if be { v.to_be_bytes().to_vec() } else { v.to_le_bytes().to_vec() }
  }
  fn ei32(v: i32, be: bool) -> Vec<u8> {
    e32(v as u32, be)
  }
  // Duration_t (RTPS 9.3.2): long seconds, unsigned long fraction
  fn edur(t: i64, be: bool) -> Vec<u8> {
    let mut v = ei32((t >> 32) as i32, be);
    v.extend(e32(t as u32, be));
    v
  }
  // CDR string: length incl. NUL, characters, NUL
  fn estr(s: &str, be: bool) -> Vec<u8> {
    let mut v = e32(s.len() as u32 + 1, be);
    v.extend(s.as_bytes());
    v.push(0);
    v
  }
  fn pad4(v: &mut Vec<u8>) {
    while v.len() % 4 != 0 {
      v.push(0);
    }
  }

  // ------------------------------------------------------------------ own ParameterList walker (RTPS 9.4.2.11)
  type Raw = Vec<(u16, Vec<u8>)>;
  fn split(b: &[u8], be: bool) -> Result<Raw, String> {
    let mut v = vec![];
    let mut pos = 0;
    loop {
      if pos + 4 > b.len() {
        return Err(format!("byte {}: no room for a parameter header and no PID_SENTINEL seen", pos));
      }
      let rd = |i: usize| if be { u16::from_be_bytes([b[i], b[i + 1]]) } else { u16::from_le_bytes([b[i], b[i + 1]]) };
      let (pid, len) = (rd(pos), rd(pos + 2) as usize);
      pos += 4;
      if pid == 0x0001 {
        return if pos == b.len() { Ok(v) } else { Err(format!("{} bytes follow PID_SENTINEL", b.len() - pos)) };
      }
      if len % 4 != 0 {
        return Err(format!("parameter 0x{:04x} at byte {} has length {} (not a multiple of 4)", pid, pos - 4, len));
      }
      if pos + len > b.len() {
        return Err(format!("parameter 0x{:04x} at byte {} announces {} bytes, {} follow", pid, pos - 4, len, b.len() - pos));
      }
      v.push((pid, b[pos..pos + len].to_vec()));
      pos += len;
    }
  }
  fn join(raw: &Raw, be: bool) -> Vec<u8> {
    let mut b = vec![];
    for (pid, val) in raw {
      b.extend(e16(*pid, be));
      b.extend(e16(val.len() as u16, be));
      b.extend(val);
    }
    b.extend(e16(0x0001, be));
    b.extend(e16(0, be));
    b
  }

  // a parameter RTPS prescribes for a value: the significant bytes and the padded length
  #[derive(Clone, Debug)]
  struct P {
    pid: u16,
    sig: Vec<u8>,
    total: usize,
    may_omit: bool, // the value is the RTPS default of that parameter
  }
  fn p(pid: u16, sig: Vec<u8>) -> P {
    let total = r4(sig.len());
    P { pid, sig, total, may_omit: false }
  }

  // what removing every parameter with one PID from the wire form must decode to
  enum Without<T> {
    Value(T),  // optional parameter: the RTPS default in that field, the rest unchanged
    Reject,    // no default in RTPS: Err
  }

  // ------------------------------------------------------------------ subject description
  #[derive(Clone, Copy)]
  struct Dim {
    name: &'static str,
    n: usize,     // variants 0..n; 0 = absent / minimal
    p: usize,     // size of the present/absent domain: 1 mandatory scalar, 2 Option, 3 list (len 0,1,2)
    group: u8,
  }
  fn dim(name: &'static str, n: usize, p: usize, group: u8) -> Dim {
    Dim { name, n, p, group }
  }

  trait Subject: Sized + Clone + Debug {
    const NAME: &'static str;
    fn dims() -> Vec<Dim>;
    fn build(ix: &[usize]) -> Self;
    fn ser(&self, rep: Rep) -> Result<Vec<u8>, String>;
    fn de(b: &[u8], rep: Rep) -> Result<Self, String>;
    fn diff(&self, got: &Self) -> Vec<String>; // names of the fields that differ
    fn expected(&self, be: bool) -> Vec<P>;
    fn without(&self, pid: u16) -> Without<Self>;
  }

  fn presence_variant(d: &Dim, k: usize, pass: usize) -> usize {
    if k == 0 || pass == 0 { k } else { d.n - k }
  }

  fn baselines(dims: &[Dim]) -> Vec<Vec<usize>> {
    vec![
      dims.iter().map(|_| 0).collect(),
      dims.iter().map(|d| std::cmp::min(1, d.n - 1)).collect(),
      dims.iter().map(|d| d.n - 1).collect(),
    ]
  }

  fn cases(dims: &[Dim]) -> BTreeSet<Vec<usize>> {
    let mut out: BTreeSet<Vec<usize>> = BTreeSet::new();
    let bases = baselines(dims);
    for b in &bases {
      out.insert(b.clone());
    }
    // (1) full present/absent product inside each group
    // ... and (group 255) over ALL Option-like dimensions of all groups at once
    let mut groups: BTreeSet<u8> = dims.iter().map(|d| d.group).collect();
    groups.insert(255);
    for g in groups {
      let members: Vec<usize> = (0..dims.len()).filter(|i| if g == 255 { dims[*i].p == 2 } else { dims[*i].group == g }).collect();
      for base in &bases[0..2] {
        for pass in 0..2 {
          let mut k = vec![0usize; members.len()];
          loop {
            let mut ix = base.clone();
            for (m, i) in members.iter().enumerate() {
              ix[*i] = presence_variant(&dims[*i], k[m], pass);
            }
            out.insert(ix);
            let mut c = 0;
            while c < members.len() {
              k[c] += 1;
              if k[c] < dims[members[c]].p { break; }
              k[c] = 0;
              c += 1;
            }
            if c == members.len() { break; }
          }
        }
      }
    }
    // (2) all pairs of dimensions over all variants
    for i in 0..dims.len() {
      for j in (i + 1)..dims.len() {
        for a in 0..dims[i].n {
          for b in 0..dims[j].n {
            for base in &bases[0..2] {
              let mut ix = base.clone();
              ix[i] = a;
              ix[j] = b;
              out.insert(ix);
            }
          }
        }
      }
    }
    out
  }

  // baselines + every single-dimension variation of "all present"
  fn singles(dims: &[Dim]) -> BTreeSet<Vec<usize>> {
    let mut out: BTreeSet<Vec<usize>> = baselines(dims).into_iter().collect();
    let b1 = baselines(dims)[1].clone();
    for i in 0..dims.len() {
      for a in 0..dims[i].n {
        let mut ix = b1.clone();
        ix[i] = a;
        out.insert(ix);
      }
    }
    out
  }

  fn ix_name(dims: &[Dim], ix: &[usize]) -> String {
    // variant index per dimension, in the order of Subject::dims()
    let _ = dims.iter().map(|d| d.name).count();
    format!("{:?}", ix).replace(' ', "")
  }

  // ------------------------------------------------------------------ the clauses
  fn check_wire<S: Subject>(x: &S, raw: &Raw, be: bool, ctx: &str, val: &str) {
    let exp = x.expected(be);
    let mut by_pid: BTreeMap<u16, Vec<&Vec<u8>>> = BTreeMap::new();
    for (pid, val) in raw {
      by_pid.entry(*pid).or_default().push(val);
    }
    let mut exp_by_pid: BTreeMap<u16, Vec<&P>> = BTreeMap::new();
    for e in &exp {
      exp_by_pid.entry(e.pid).or_default().push(e);
    }
    for (pid, vals) in &by_pid {
      assert!(exp_by_pid.contains_key(pid),
        "XC-WITNESS label=plcdr.{}.wire {}: parameter 0x{:04x} (value {}) is on the wire, RTPS prescribes none with that PID for this value (PIDs expected: {:04x?}) ;; {}",
        S::NAME, ctx, pid, hex(vals[0]), exp_by_pid.keys().collect::<Vec<_>>(), val);
    }
    for (pid, es) in &exp_by_pid {
      let got: Vec<&Vec<u8>> = by_pid.get(pid).cloned().unwrap_or_default();
      if got.is_empty() && es.iter().all(|e| e.may_omit) {
        continue;
      }
      assert!(got.len() == es.len(),
        "XC-WITNESS label=plcdr.{}.wire {}: {} parameter(s) with PID 0x{:04x} on the wire, the value needs {} (expected value bytes {:?}) ;; {}",
        S::NAME, ctx, got.len(), pid, es.len(), es.iter().map(|e| hex(&e.sig)).collect::<Vec<_>>(), val);
      for (k, (g, e)) in got.iter().zip(es.iter()).enumerate() {
        assert!(g.len() == e.total && g[..e.sig.len()] == e.sig[..],
          "XC-WITNESS label=plcdr.{}.wire {}: parameter 0x{:04x} #{} carries [{}], RTPS layout of the field is [{}] padded to {} bytes ;; {}",
          S::NAME, ctx, pid, k, hex(g), hex(&e.sig), e.total, val);
      }
    }
  }

  fn same<S: Subject>(clause: &str, x: &S, got: &S, ctx: &str, bytes: &[u8]) {
    let d = x.diff(got);
    assert!(d.is_empty(),
      "XC-WITNESS label=plcdr.{}.{} {}: field(s) differ: {} ;; whole value expected {:?} ; decoded {:?} ; bytes = {}",
      S::NAME, clause, ctx, d.join(" | "), x, got, hex(bytes));
  }

  // clauses roundtrip / frame / wire / reserialize for one value; returns the wire forms
  fn check_value<S: Subject>(x: &S, name: &str) -> Vec<Vec<u8>> {
    let mut out = vec![];
    for (rep, be, rname) in REPS {
      let ctx = format!("encoding={} case={}", rname, name);
      let val = format!("value = {:?}", x);
      let bytes = match x.ser(rep) {
        Ok(b) => b,
        Err(e) => panic!("XC-WITNESS label=plcdr.{}.roundtrip {}: serialisation failed: {} ;; {}", S::NAME, ctx, e, val),
      };
      let raw = match split(&bytes, be) {
        Ok(r) => r,
        Err(e) => panic!("XC-WITNESS label=plcdr.{}.frame {}: not a well-formed ParameterList: {} ; bytes = {} ;; {}", S::NAME, ctx, e, hex(&bytes), val),
      };
      check_wire(x, &raw, be, &ctx, &val);
      let got = match S::de(&bytes, rep) {
        Ok(g) => g,
        Err(e) => panic!("XC-WITNESS label=plcdr.{}.roundtrip {}: the bytes the implementation wrote do not decode: {} ; bytes = {} ;; {}", S::NAME, ctx, e, hex(&bytes), val),
      };
      same("roundtrip", x, &got, &ctx, &bytes);
      let again = got.ser(rep).unwrap_or_default();
      assert!(again == bytes,
        "XC-WITNESS label=plcdr.{}.reserialize {}: re-serialising the decoded value gives different bytes: first = {} ; again = {} ;; {}",
        S::NAME, ctx, hex(&bytes), hex(&again), val);
      out.push(bytes);
    }
    out
  }

  fn run_roundtrip<S: Subject>(min_cases: usize) {
    let dims = S::dims();
    let cs = cases(&dims);
    let mut lens = BTreeSet::new();
    for ix in &cs {
      let x = S::build(ix);
      for b in check_value(&x, &ix_name(&dims, ix)) {
        lens.insert(b.len());
      }
    }
    println!("plcdr.{}.roundtrip: {} values x 2 encodings, {} distinct wire lengths", S::NAME, cs.len(), lens.len());
    assert!(cs.len() >= min_cases, "vacuity guard: only {} {} values enumerated", cs.len(), S::NAME);
    assert!(lens.len() > 5, "vacuity guard: only {} distinct wire lengths for {}", lens.len(), S::NAME);
  }

  // the wire form of x as a list of (pid, value), by the own walker
  fn wire_of<S: Subject>(x: &S, rep: Rep, be: bool, rname: &str, name: &str) -> Raw {
    let bytes = match x.ser(rep) {
      Ok(b) => b,
      Err(e) => panic!("XC-WITNESS label=plcdr.{}.roundtrip encoding={} case={}: serialisation failed: {} ;; value = {:?}", S::NAME, rname, name, e, x),
    };
    match split(&bytes, be) {
      Ok(r) => r,
      Err(e) => panic!("XC-WITNESS label=plcdr.{}.frame encoding={} case={}: not a well-formed ParameterList: {} ; bytes = {} ;; value = {:?}", S::NAME, rname, name, e, hex(&bytes), x),
    }
  }

  const SKIP_PIDS: [u16; 8] = [0x3fff, 0x002c, 0x0073, 0x0075, 0x0000, 0x8000, 0x8007, 0xbfff];
  const MUST_UNDERSTAND_PIDS: [u16; 3] = [0x4014, 0x7fff, 0xc001];
  const UNKNOWN_LENS: [usize; 4] = [0, 4, 8, 12];

  // bytes that look like a sentinel header in either byte order
  fn decoy(len: usize) -> Vec<u8> {
    [0x01u8, 0x00, 0x00, 0x00, 0x00, 0x01, 0x00, 0x00, 0x01, 0x00, 0x01, 0x00][..len].to_vec()
  }

  // returns (cases, how many must-understand insertions were skipped, how many rejected)
  fn run_unknown<S: Subject>() -> (usize, usize, usize) {
    let dims = S::dims();
    let (mut n, mut mu_skipped, mut mu_rejected) = (0, 0, 0);
    for ix in singles(&dims) {
      let x = S::build(&ix);
      // all lengths / PIDs on the baselines, a rotating choice on the single-dimension variations
      let full = baselines(&dims).contains(&ix);
      for (rep, be, rname) in REPS {
        let raw = wire_of(&x, rep, be, rname, &ix_name(&dims, &ix));
        let mut variants: Vec<(u16, usize)> = vec![];
        for (a, pid) in SKIP_PIDS.iter().chain(MUST_UNDERSTAND_PIDS.iter()).enumerate() {
          for (b, len) in UNKNOWN_LENS.iter().enumerate() {
            if full || (a + b + n) % 7 == 0 {
              variants.push((*pid, *len));
            }
          }
        }
        for (pid, len) in variants {
          let mu = MUST_UNDERSTAND_PIDS.contains(&pid);
          // positions 0..=len: before the first .. before the sentinel; position len+1: everywhere at once
          for pos in 0..=raw.len() + 1 {
            let mut r2: Raw = vec![];
            for (k, prm) in raw.iter().enumerate() {
              if k == pos || pos == raw.len() + 1 { r2.push((pid, decoy(len))); }
              r2.push(prm.clone());
            }
            if pos >= raw.len() { r2.push((pid, decoy(len))); }
            let b2 = join(&r2, be);
            let ctx = format!("encoding={} unknown_pid=0x{:04x} unknown_len={} position={} case={}",
              rname, pid, len, if pos == raw.len() + 1 { "every".to_string() } else { format!("{}/{}", pos, raw.len()) }, ix_name(&dims, &ix));
            n += 1;
            match S::de(&b2, rep) {
              Ok(got) => {
                same("unknown", &x, &got, &ctx, &b2);
                if mu { mu_skipped += 1; }
              }
              Err(e) => {
                assert!(mu, "XC-WITNESS label=plcdr.{}.unknown {}: a parameter list with an unknown parameter is rejected instead of skipping it: {} ; bytes = {} ;; value = {:?}", S::NAME, ctx, e, hex(&b2), x);
                mu_rejected += 1;
              }
            }
          }
        }
      }
    }
    assert!(n > 1000, "vacuity guard: only {} unknown-parameter cases for {}", n, S::NAME);
    println!("plcdr.{}.unknown: {} cases; must-understand unknown PIDs: skipped {} times, rejected {} times", S::NAME, n, mu_skipped, mu_rejected);
    (n, mu_skipped, mu_rejected)
  }

  fn run_default<S: Subject>(only_pid: Option<u16>) -> usize {
    let dims = S::dims();
    let mut n = 0;
    let mut removed_pids = BTreeSet::new();
    for ix in singles(&dims) {
      let x = S::build(&ix);
      for (rep, be, rname) in REPS {
        let raw = wire_of(&x, rep, be, rname, &ix_name(&dims, &ix));
        let pids: BTreeSet<u16> = raw.iter().map(|q| q.0).collect();
        for pid in pids {
          // PID_OWNERSHIP_STRENGTH is judged in tests of its own (xc_plcdr_*_default_ownership_strength)
          if only_pid.map_or(pid == 0x0006, |o| o != pid) { continue; }
          let r2: Raw = raw.iter().filter(|q| q.0 != pid).cloned().collect();
          let b2 = join(&r2, be);
          let ctx = format!("encoding={} removed_pid=0x{:04x} case={}", rname, pid, ix_name(&dims, &ix));
          let got = S::de(&b2, rep);
          match x.without(pid) {
            Without::Reject => {
              assert!(got.is_err(), "XC-WITNESS label=plcdr.{}.default {}: RTPS defines no default for this parameter, yet the list without it decodes to {:?} ; bytes = {} ;; original = {:?}", S::NAME, ctx, got, hex(&b2), x);
            }
            Without::Value(want) => match got {
              Ok(g) => same("default", &want, &g, &ctx, &b2),
              Err(e) => panic!("XC-WITNESS label=plcdr.{}.default {}: an optional parameter is absent and the list is rejected: {} ; bytes = {} ;; original = {:?}", S::NAME, ctx, e, hex(&b2), x),
            },
          }
          removed_pids.insert(pid);
          n += 1;
        }
      }
    }
    println!("plcdr.{}.default: {} cases, parameters removed: {:04x?}", S::NAME, n, removed_pids);
    assert!(n > if only_pid.is_some() { 3 } else { 100 }, "vacuity guard: only {} default cases for {} ({:04x?})", n, S::NAME, removed_pids);
    n
  }

  // ------------------------------------------------------------------ representative values
  const T_INF: i64 = 0x7fff_ffff_ffff_ffff; // Duration INFINITE {0x7fffffff, 0xffffffff}
  const T_ASYM: i64 = 0x0102_0304_8506_0708; // every byte different
  const T_100S: i64 = 100 << 32;
  const DURS: [i64; 3] = [T_INF, 0, T_ASYM];
  fn dur(t: i64) -> Duration {
    let d = Duration::from_ticks(t);
    if t == T_INF { assert!(d == Duration::INFINITE); }
    if t == 0 { assert!(d == Duration::ZERO); }
    d
  }
  fn ticks(d: Duration) -> i64 {
    d.to_ticks()
  }

  const STRS: [&str; 12] = ["", "a", "ab", "abc", "abcd", "abcde", "\u{e9}", "a\u{e9}", "\u{65e5}", "\u{65e5}a", "ab\u{65e5}", "\u{1f600}"];

  const GUID_RAW: [[u8; 16]; 3] = [
    [0x01, 0x02, 0x03, 0x04, 0x05, 0x06, 0x07, 0x08, 0x09, 0x0a, 0x0b, 0x0c, 0x21, 0x22, 0x23, 0x07],
    [0xf1, 0xf2, 0xf3, 0xf4, 0xf5, 0xf6, 0xf7, 0xf8, 0xf9, 0xfa, 0xfb, 0xfc, 0x00, 0x01, 0x00, 0xc1],
    [0xff, 0xee, 0xdd, 0xcc, 0xbb, 0xaa, 0x99, 0x88, 0x77, 0x66, 0x55, 0x44, 0x33, 0x22, 0x11, 0x02],
  ];
  fn guid(i: usize) -> GUID {
    let r = GUID_RAW[i];
    GUID::new(GuidPrefix::new(&r[..12]), EntityId::new([r[12], r[13], r[14]], EntityKind::from(r[15])))
  }
  // GUID_t on the wire: 12 + 3 + 1 octets, no byte order
  fn eguid(g: &GUID) -> Vec<u8> {
    let mut v = g.prefix.bytes.to_vec();
    v.extend(g.entity_id.entity_key);
    v.push(u8::from(g.entity_id.entity_kind));
    v
  }

  fn locs() -> [Locator; 4] {
    [
      Locator::UdpV4(SocketAddrV4::new(Ipv4Addr::new(127, 0, 0, 1), 7400)),
      Locator::UdpV6(SocketAddrV6::new(Ipv6Addr::new(0xfe80, 1, 2, 3, 4, 5, 6, 0x0708), 65535, 0, 0)),
      Locator::Other { kind: 0x0100_0004, port: 0xfffe_fdfc, address: [0xa0, 0xa1, 0xa2, 0xa3, 0xa4, 0xa5, 0xa6, 0xa7, 0xa8, 0xa9, 0xaa, 0xab, 0xac, 0xad, 0xae, 0xaf] },
      Locator::Invalid,
    ]
  }
  // variants: [], [v4], [v4, v6], [other, invalid]
  fn loc_list(v: usize) -> Vec<Locator> {
    let l = locs();
    match v {
      0 => vec![],
      1 => vec![l[0]],
      2 => vec![l[0], l[1]],
      _ => vec![l[2], l[3]],
    }
  }
  // Locator_t (RTPS 9.3.2): long kind, unsigned long port, octet[16] address; LOCATOR_KIND_INVALID -1,
  // UDPv4 1 (address in the last 4 octets), UDPv6 2
  fn eloc(l: &Locator, be: bool) -> Vec<u8> {
    let (kind, port, addr): (i32, u32, [u8; 16]) = match l {
      Locator::Invalid => (-1, 0, [0; 16]),
      Locator::Reserved => (0, 0, [0; 16]),
      Locator::UdpV4(s) => {
        let mut a = [0u8; 16];
        a[12..].copy_from_slice(&s.ip().octets());
        (1, s.port() as u32, a)
      }
      Locator::UdpV6(s) => (2, s.port() as u32, s.ip().octets()),
      Locator::Other { kind, port, address } => (*kind, *port, *address),
    };
    let mut v = ei32(kind, be);
    v.extend(e32(port, be));
    v.extend(addr);
    v
  }
  fn plocs(pid: u16, l: &[Locator], be: bool) -> Vec<P> {
    l.iter().map(|x| p(pid, eloc(x, be))).collect()
  }

  // ------------------------------------------------------------------ QoS policies: 12 dimensions
  const QOS_NAMES: [&str; 12] = ["durability", "presentation", "deadline", "latency_budget", "ownership", "liveliness",
    "time_based_filter", "reliability", "destination_order", "lifespan", "history", "resource_limits"];
  const QOS_N: [usize; 12] = [5, 13, 4, 4, 6, 10, 4, 5, 3, 4, 5, 4];
  // which of the 12 a reader / writer announcement carries (RTPS figure 8.30: no history, no resource limits)
  const ENDPOINT_QOS: [usize; 10] = [0, 1, 2, 3, 4, 5, 6, 7, 8, 9];
  const TOPIC_QOS: [usize; 11] = [0, 1, 2, 3, 4, 5, 7, 8, 9, 10, 11];

  fn qos_dims(which: &[usize], group: u8) -> Vec<Dim> {
    which.iter().map(|k| dim(QOS_NAMES[*k], QOS_N[*k], 2, group)).collect()
  }

  // v[k] = variant of policy k (0 = not specified)
  fn qos_build(which: &[usize], ix: &[usize]) -> QosPolicies {
    let mut v = [0usize; 12];
    for (k, i) in which.iter().zip(ix) {
      v[*k] = *i;
    }
    let mut q = QosPolicies::qos_none();
    if v[0] > 0 {
      q.durability = Some([Durability::Volatile, Durability::TransientLocal, Durability::Transient, Durability::Persistent][v[0] - 1]);
    }
    if v[1] > 0 {
      let k = v[1] - 1;
      q.presentation = Some(Presentation {
        access_scope: [PresentationAccessScope::Instance, PresentationAccessScope::Topic, PresentationAccessScope::Group][k % 3],
        coherent_access: (k / 3) % 2 == 1,
        ordered_access: k / 6 == 1,
      });
    }
    if v[2] > 0 { q.deadline = Some(Deadline(dur(DURS[v[2] - 1]))); }
    if v[3] > 0 { q.latency_budget = Some(LatencyBudget { duration: dur(DURS[v[3] - 1]) }); }
    if v[4] > 0 {
      q.ownership = Some(match v[4] {
        1 => Ownership::Shared,
        k => Ownership::Exclusive { strength: [0, i32::MAX, -1, 0x0102_0384][k - 2] },
      });
    }
    if v[5] > 0 {
      let lease_duration = dur(DURS[(v[5] - 1) / 3]);
      q.liveliness = Some(match (v[5] - 1) % 3 {
        0 => Liveliness::Automatic { lease_duration },
        1 => Liveliness::ManualByParticipant { lease_duration },
        _ => Liveliness::ManualByTopic { lease_duration },
      });
    }
    if v[6] > 0 { q.time_based_filter = Some(TimeBasedFilter { minimum_separation: dur([0, T_INF, T_ASYM][v[6] - 1]) }); }
    if v[7] > 0 {
      q.reliability = Some(match v[7] {
        1 => Reliability::BestEffort,
        k => Reliability::Reliable { max_blocking_time: dur([0, T_INF, T_ASYM][k - 2]) },
      });
    }
    if v[8] > 0 { q.destination_order = Some([DestinationOrder::ByReceptionTimestamp, DestinationOrder::BySourceTimeStamp][v[8] - 1]); }
    if v[9] > 0 { q.lifespan = Some(Lifespan { duration: dur(DURS[v[9] - 1]) }); }
    if v[10] > 0 {
      q.history = Some(match v[10] {
        1 => History::KeepAll,
        k => History::KeepLast { depth: [1, i32::MAX, 0x0102_0384][k - 2] },
      });
    }
    if v[11] > 0 {
      // -1 = LENGTH_UNLIMITED
      let (a, b, c) = [(-1, -1, -1), (i32::MAX, i32::MAX, i32::MAX), (1, 0x0102_0384, 3)][v[11] - 1];
      q.resource_limits = Some(ResourceLimits { max_samples: a, max_instances: b, max_samples_per_instance: c });
    }
    q
  }

  // RTPS 2.5 table 9.13 / 9.15 PIDs and DDS 1.4 IDL enumerator values
  fn qos_expected(q: &QosPolicies, be: bool) -> Vec<P> {
    let mut v = vec![];
    if let Some(d) = q.durability {
      v.push(p(0x001d, e32(match d { Durability::Volatile => 0, Durability::TransientLocal => 1, Durability::Transient => 2, Durability::Persistent => 3 }, be)));
    }
    if let Some(pr) = q.presentation {
      let mut b = e32(match pr.access_scope { PresentationAccessScope::Instance => 0, PresentationAccessScope::Topic => 1, PresentationAccessScope::Group => 2 }, be);
      b.push(pr.coherent_access as u8);
      b.push(pr.ordered_access as u8);
      v.push(p(0x0021, b));
    }
    if let Some(d) = q.deadline { v.push(p(0x0023, edur(ticks(d.0), be))); }
    if let Some(l) = q.latency_budget { v.push(p(0x0027, edur(ticks(l.duration), be))); }
    match q.ownership {
      Some(Ownership::Shared) => v.push(p(0x001f, e32(0, be))),
      Some(Ownership::Exclusive { strength }) => {
        v.push(p(0x001f, e32(1, be)));
        let mut s = p(0x0006, ei32(strength, be));
        s.may_omit = strength == 0;
        v.push(s);
      }
      None => (),
    }
    if let Some(l) = q.liveliness {
      let (k, d) = match l {
        Liveliness::Automatic { lease_duration } => (0, lease_duration),
        Liveliness::ManualByParticipant { lease_duration } => (1, lease_duration),
        Liveliness::ManualByTopic { lease_duration } => (2, lease_duration),
      };
      let mut b = e32(k, be);
      b.extend(edur(ticks(d), be));
      v.push(p(0x001b, b));
    }
    if let Some(t) = q.time_based_filter { v.push(p(0x0004, edur(ticks(t.minimum_separation), be))); }
    match q.reliability {
      // BEST_EFFORT = 1, RELIABLE = 2 (RTPS 9.6.3.? ReliabilityQosPolicy); max_blocking_time is
      // meaningless for best effort: only the kind is compared, 12 bytes in total
      Some(Reliability::BestEffort) => v.push(P { pid: 0x001a, sig: e32(1, be), total: 12, may_omit: false }),
      Some(Reliability::Reliable { max_blocking_time }) => {
        let mut b = e32(2, be);
        b.extend(edur(ticks(max_blocking_time), be));
        v.push(p(0x001a, b));
      }
      None => (),
    }
    if let Some(d) = q.destination_order {
      v.push(p(0x0025, e32(match d { DestinationOrder::ByReceptionTimestamp => 0, DestinationOrder::BySourceTimeStamp => 1 }, be)));
    }
    if let Some(l) = q.lifespan { v.push(p(0x002b, edur(ticks(l.duration), be))); }
    match q.history {
      // KEEP_LAST = 0, KEEP_ALL = 1; depth is meaningless for KEEP_ALL
      Some(History::KeepAll) => v.push(P { pid: 0x0040, sig: e32(1, be), total: 8, may_omit: false }),
      Some(History::KeepLast { depth }) => {
        let mut b = e32(0, be);
        b.extend(ei32(depth, be));
        v.push(p(0x0040, b));
      }
      None => (),
    }
    if let Some(r) = q.resource_limits {
      let mut b = ei32(r.max_samples, be);
      b.extend(ei32(r.max_instances, be));
      b.extend(ei32(r.max_samples_per_instance, be));
      v.push(p(0x0041, b));
    }
    v
  }

  // the QoS after the parameter `pid` was removed from the wire; None = not a QoS parameter
  fn qos_without(q: &QosPolicies, pid: u16) -> Option<QosPolicies> {
    let mut q = q.clone();
    match pid {
      0x001d => q.durability = None,
      0x0021 => q.presentation = None,
      0x0023 => q.deadline = None,
      0x0027 => q.latency_budget = None,
      0x001f => q.ownership = None, // a strength alone specifies no ownership kind
      // RTPS table 9.13: PID_OWNERSHIP_STRENGTH default 0 — the kind parameter is still there
      0x0006 => {
        if let Some(Ownership::Exclusive { .. }) = q.ownership { q.ownership = Some(Ownership::Exclusive { strength: 0 }); }
      }
      0x001b => q.liveliness = None,
      0x0004 => q.time_based_filter = None,
      0x001a => q.reliability = None,
      0x0025 => q.destination_order = None,
      0x002b => q.lifespan = None,
      0x0040 => q.history = None,
      0x0041 => q.resource_limits = None,
      _ => return None,
    }
    Some(q)
  }

  macro_rules! cmp_fields {
    ($a:expr, $b:expr, $out:ident, $($f:ident).+) => {
      if $a.$($f).+ != $b.$($f).+ {
        $out.push(format!("{}: expected {:?}, decoded {:?}", stringify!($($f).+).replace(' ', ""), $a.$($f).+, $b.$($f).+));
      }
    };
  }

  // ------------------------------------------------------------------ SpdpDiscoveredParticipantData
  const BES: [u32; 2] = [0x0000_0c3f, 0x8102_0384];
  const BEQ: [u32; 2] = [1, 0x8102_0384];
  const LEASES: [i64; 4] = [T_100S, T_INF, 0, T_ASYM];
  const MLC: [i32; 4] = [0, i32::MAX, -1, 0x0102_0384];
  fn beq(v: u32) -> BuiltinEndpointQos {
    BuiltinEndpointQos::read_from_buffer_with_ctx(speedy::Endianness::LittleEndian, &v.to_le_bytes()).unwrap()
  }

  impl Subject for SpdpDiscoveredParticipantData {
    const NAME: &'static str = "spdp";
    fn dims() -> Vec<Dim> {
      vec![
        dim("protocol_version", 3, 1, 0), dim("vendor_id", 2, 1, 0), dim("expects_inline_qos", 2, 2, 0), dim("participant_guid", 2, 1, 0),
        dim("metatraffic_unicast", 4, 3, 0), dim("metatraffic_multicast", 4, 3, 0), dim("default_unicast", 4, 3, 0), dim("default_multicast", 4, 3, 0),
        dim("builtin_endpoints", 2, 1, 0), dim("lease_duration", 5, 2, 0), dim("manual_liveliness_count", 4, 1, 0),
        dim("builtin_endpoint_qos", 3, 2, 0), dim("entity_name", 13, 2, 0),
      ]
    }
    fn build(ix: &[usize]) -> Self {
      SpdpDiscoveredParticipantData {
        updated_time: Utc::now(),
        protocol_version: [ProtocolVersion::PROTOCOLVERSION_2_3, ProtocolVersion::PROTOCOLVERSION_2_4, ProtocolVersion::PROTOCOLVERSION_1_0][ix[0]],
        vendor_id: [VendorId::THIS_IMPLEMENTATION, VendorId { vendor_id: [0xab, 0xcd] }][ix[1]],
        expects_inline_qos: ix[2] == 1,
        participant_guid: guid(ix[3] + 1),
        metatraffic_unicast_locators: loc_list(ix[4]),
        metatraffic_multicast_locators: loc_list(ix[5]),
        default_unicast_locators: loc_list(ix[6]),
        default_multicast_locators: loc_list(ix[7]),
        available_builtin_endpoints: BuiltinEndpointSet::from_u32(BES[ix[8]]),
        lease_duration: if ix[9] == 0 { None } else { Some(dur(LEASES[ix[9] - 1])) },
        manual_liveliness_count: MLC[ix[10]],
        builtin_endpoint_qos: if ix[11] == 0 { None } else { Some(beq(BEQ[ix[11] - 1])) },
        entity_name: if ix[12] == 0 { None } else { Some(STRS[ix[12] - 1].to_string()) },
        #[cfg(feature = "security")]
        identity_token: None,
        #[cfg(feature = "security")]
        permissions_token: None,
        #[cfg(feature = "security")]
        property: None,
        #[cfg(feature = "security")]
        security_info: None,
      }
    }
    fn ser(&self, rep: Rep) -> Result<Vec<u8>, String> {
      self.to_pl_cdr_bytes(rep).map(|b| b.to_vec()).map_err(|e| format!("{:?}", e))
    }
    fn de(b: &[u8], rep: Rep) -> Result<Self, String> {
      Self::from_pl_cdr_bytes(b, rep).map_err(|e| format!("{:?}", e))
    }
    fn diff(&self, g: &Self) -> Vec<String> {
      let mut d = vec![];
      cmp_fields!(self, g, d, protocol_version);
      cmp_fields!(self, g, d, vendor_id);
      cmp_fields!(self, g, d, expects_inline_qos);
      cmp_fields!(self, g, d, participant_guid);
      cmp_fields!(self, g, d, metatraffic_unicast_locators);
      cmp_fields!(self, g, d, metatraffic_multicast_locators);
      cmp_fields!(self, g, d, default_unicast_locators);
      cmp_fields!(self, g, d, default_multicast_locators);
      cmp_fields!(self, g, d, available_builtin_endpoints);
      cmp_fields!(self, g, d, lease_duration);
      cmp_fields!(self, g, d, manual_liveliness_count);
      cmp_fields!(self, g, d, builtin_endpoint_qos);
      cmp_fields!(self, g, d, entity_name);
      let mut g2 = g.clone();
      g2.updated_time = self.updated_time;
      if d.is_empty() && *self != g2 { d.push("(other field)".to_string()); }
      d
    }
    fn expected(&self, be: bool) -> Vec<P> {
      let mut v = vec![
        p(0x0015, vec![self.protocol_version.major, self.protocol_version.minor]),
        p(0x0016, self.vendor_id.vendor_id.to_vec()),
        P { pid: 0x0043, sig: vec![self.expects_inline_qos as u8], total: 4, may_omit: !self.expects_inline_qos },
        p(0x0050, eguid(&self.participant_guid)),
      ];
      v.extend(plocs(0x0032, &self.metatraffic_unicast_locators, be));
      v.extend(plocs(0x0033, &self.metatraffic_multicast_locators, be));
      v.extend(plocs(0x0031, &self.default_unicast_locators, be));
      v.extend(plocs(0x0048, &self.default_multicast_locators, be));
      let bes = BES.iter().find(|b| BuiltinEndpointSet::from_u32(**b) == self.available_builtin_endpoints).expect("builtin endpoint set from the table");
      v.push(p(0x0058, e32(*bes, be)));
      if let Some(l) = self.lease_duration { v.push(p(0x0002, edur(ticks(l), be))); }
      let mut m = p(0x0034, ei32(self.manual_liveliness_count, be));
      m.may_omit = self.manual_liveliness_count == 0;
      v.push(m);
      if let Some(q) = self.builtin_endpoint_qos {
        let raw = BEQ.iter().find(|b| beq(**b) == q).expect("builtin endpoint qos from the table");
        v.push(p(0x0077, e32(*raw, be)));
      }
      if let Some(n) = &self.entity_name { v.push(p(0x0062, estr(n, be))); }
      v
    }
    fn without(&self, pid: u16) -> Without<Self> {
      let mut w = self.clone();
      match pid {
        0x0043 => w.expects_inline_qos = false,
        0x0032 => w.metatraffic_unicast_locators = vec![],
        0x0033 => w.metatraffic_multicast_locators = vec![],
        0x0031 => w.default_unicast_locators = vec![],
        0x0048 => w.default_multicast_locators = vec![],
        0x0002 => w.lease_duration = None, // the {100 s} default is applied by the consumer (DiscoveryDB)
        0x0034 => w.manual_liveliness_count = 0,
        0x0077 => w.builtin_endpoint_qos = None,
        0x0062 => w.entity_name = None,
        _ => return Without::Reject, // protocol version, vendor id, participant GUID, builtin endpoint set
      }
      Without::Value(w)
    }
  }

  #[test]
  fn xc_plcdr_spdp_roundtrip() {
    run_roundtrip::<SpdpDiscoveredParticipantData>(3000);
  }
  #[test]
  fn xc_plcdr_spdp_unknown() {
    run_unknown::<SpdpDiscoveredParticipantData>();
  }
  #[test]
  fn xc_plcdr_spdp_default() {
    run_default::<SpdpDiscoveredParticipantData>(None);
  }

  // ------------------------------------------------------------------ ContentFilterProperty variants
  fn cfp(v: usize) -> Option<ContentFilterProperty> {
    let rep = |c: &str, n: usize| c.repeat(n);
    match v {
      0 => None,
      1 => Some(ContentFilterProperty {
        content_filtered_topic_name: "a".to_string(), related_topic_name: "b".to_string(), filter_class_name: "DDSSQL".to_string(),
        filter_expression: "x > %0".to_string(), expression_parameters: vec!["1".to_string()],
      }),
      7 => Some(ContentFilterProperty {
        content_filtered_topic_name: STRS[10].to_string(), related_topic_name: STRS[11].to_string(), filter_class_name: STRS[8].to_string(),
        filter_expression: STRS[6].to_string(), expression_parameters: vec![],
      }),
      l => {
        let l = l - 1; // 1..=5
        Some(ContentFilterProperty {
          content_filtered_topic_name: rep("x", l), related_topic_name: rep("y", l % 5 + 1), filter_class_name: rep("z", (l + 1) % 5 + 1),
          filter_expression: rep("w", (l + 2) % 5 + 1), expression_parameters: (0..l).map(|i| STRS[(i * 5 + l) % 12].to_string()).collect(),
        })
      }
    }
  }
  // ContentFilterProperty_t (RTPS 9.3.2 / table 9.13): four strings and a sequence<string>, each
  // string length aligned to 4 from the start of the parameter value
  fn ecfp(c: &ContentFilterProperty, be: bool) -> Vec<u8> {
    let mut v = vec![];
    for s in [&c.content_filtered_topic_name, &c.related_topic_name, &c.filter_class_name, &c.filter_expression] {
      pad4(&mut v);
      v.extend(estr(s, be));
    }
    pad4(&mut v);
    v.extend(e32(c.expression_parameters.len() as u32, be));
    for s in &c.expression_parameters {
      pad4(&mut v);
      v.extend(estr(s, be));
    }
    v
  }

  // ------------------------------------------------------------------ DiscoveredReaderData
  impl Subject for DiscoveredReaderData {
    const NAME: &'static str = "reader";
    fn dims() -> Vec<Dim> {
      let mut v = vec![
        dim("guid", 2, 1, 0), dim("expects_inline_qos", 2, 2, 0), dim("unicast", 4, 3, 0), dim("multicast", 4, 3, 0),
        dim("participant_key", 2, 2, 0), dim("topic_name", 12, 1, 0), dim("type_name", 12, 1, 0), dim("content_filter", 8, 2, 0),
      ];
      v.extend(qos_dims(&ENDPOINT_QOS, 1));
      v
    }
    fn build(ix: &[usize]) -> Self {
      let g = guid([0, 2][ix[0]]);
      DiscoveredReaderData {
        reader_proxy: ReaderProxy::new(g, ix[1] == 1, loc_list(ix[2]), loc_list(ix[3])),
        subscription_topic_data: SubscriptionBuiltinTopicData::new(
          g, if ix[4] == 0 { None } else { Some(guid(1)) }, STRS[ix[5]].to_string(), STRS[(ix[6] + 3) % 12].to_string(),
          &qos_build(&ENDPOINT_QOS, &ix[8..]), None),
        content_filter: cfp(ix[7]),
      }
    }
    fn ser(&self, rep: Rep) -> Result<Vec<u8>, String> {
      self.to_pl_cdr_bytes(rep).map(|b| b.to_vec()).map_err(|e| format!("{:?}", e))
    }
    fn de(b: &[u8], rep: Rep) -> Result<Self, String> {
      Self::from_pl_cdr_bytes(b, rep).map_err(|e| format!("{:?}", e))
    }
    fn diff(&self, g: &Self) -> Vec<String> {
      let mut d = vec![];
      cmp_fields!(self, g, d, reader_proxy.remote_reader_guid);
      cmp_fields!(self, g, d, reader_proxy.expects_inline_qos);
      cmp_fields!(self, g, d, reader_proxy.unicast_locator_list);
      cmp_fields!(self, g, d, reader_proxy.multicast_locator_list);
      cmp_fields!(self, g, d, subscription_topic_data.key);
      cmp_fields!(self, g, d, subscription_topic_data.participant_key);
      cmp_fields!(self, g, d, subscription_topic_data.topic_name);
      cmp_fields!(self, g, d, subscription_topic_data.type_name);
      cmp_fields!(self, g, d, subscription_topic_data.durability);
      cmp_fields!(self, g, d, subscription_topic_data.deadline);
      cmp_fields!(self, g, d, subscription_topic_data.latency_budget);
      cmp_fields!(self, g, d, subscription_topic_data.liveliness);
      cmp_fields!(self, g, d, subscription_topic_data.reliability);
      cmp_fields!(self, g, d, subscription_topic_data.ownership);
      cmp_fields!(self, g, d, subscription_topic_data.destination_order);
      cmp_fields!(self, g, d, subscription_topic_data.time_based_filter);
      cmp_fields!(self, g, d, subscription_topic_data.presentation);
      cmp_fields!(self, g, d, subscription_topic_data.lifespan);
      cmp_fields!(self, g, d, subscription_topic_data.service_instance_name);
      cmp_fields!(self, g, d, subscription_topic_data.related_datawriter_key);
      cmp_fields!(self, g, d, subscription_topic_data.topic_aliases);
      cmp_fields!(self, g, d, content_filter);
      if d.is_empty() && self != g { d.push("(other field)".to_string()); }
      d
    }
    fn expected(&self, be: bool) -> Vec<P> {
      let t = &self.subscription_topic_data;
      let mut v = vec![
        P { pid: 0x0043, sig: vec![self.reader_proxy.expects_inline_qos as u8], total: 4, may_omit: !self.reader_proxy.expects_inline_qos },
        p(0x005a, eguid(&self.reader_proxy.remote_reader_guid)),
      ];
      v.extend(plocs(0x002f, &self.reader_proxy.unicast_locator_list, be));
      v.extend(plocs(0x0030, &self.reader_proxy.multicast_locator_list, be));
      if let Some(k) = &t.participant_key { v.push(p(0x0050, eguid(k))); }
      v.push(p(0x0005, estr(&t.topic_name, be)));
      v.push(p(0x0007, estr(&t.type_name, be)));
      v.extend(qos_expected(&t.qos(), be));
      if let Some(c) = &self.content_filter { v.push(p(0x0035, ecfp(c, be))); }
      v
    }
    fn without(&self, pid: u16) -> Without<Self> {
      let mut w = self.clone();
      if let Some(q) = qos_without(&self.subscription_topic_data.qos(), pid) {
        w.subscription_topic_data.set_qos(&q);
        return Without::Value(w);
      }
      match pid {
        0x0043 => w.reader_proxy.expects_inline_qos = false,
        0x002f => w.reader_proxy.unicast_locator_list = vec![],
        0x0030 => w.reader_proxy.multicast_locator_list = vec![],
        0x0050 => w.subscription_topic_data.participant_key = None,
        0x0035 => w.content_filter = None,
        _ => return Without::Reject, // endpoint GUID, topic name, type name
      }
      Without::Value(w)
    }
  }

  #[test]
  fn xc_plcdr_reader_roundtrip() {
    run_roundtrip::<DiscoveredReaderData>(20000);
  }
  #[test]
  fn xc_plcdr_reader_unknown() {
    run_unknown::<DiscoveredReaderData>();
  }
  #[test]
  fn xc_plcdr_reader_default() {
    run_default::<DiscoveredReaderData>(None);
  }

  // ------------------------------------------------------------------ DiscoveredWriterData
  const MAXSIZE: [u32; 3] = [0, u32::MAX, 0x8102_0384];
  impl Subject for DiscoveredWriterData {
    const NAME: &'static str = "writer";
    fn dims() -> Vec<Dim> {
      let mut v = vec![
        dim("guid", 2, 1, 0), dim("unicast", 4, 3, 0), dim("multicast", 4, 3, 0), dim("data_max_size_serialized", 4, 2, 0),
        dim("participant_key", 2, 2, 0), dim("topic_name", 12, 1, 0), dim("type_name", 12, 1, 0),
      ];
      v.extend(qos_dims(&ENDPOINT_QOS, 1));
      v
    }
    fn build(ix: &[usize]) -> Self {
      let g = guid([2, 0][ix[0]]);
      DiscoveredWriterData {
        last_updated: Instant::now(),
        writer_proxy: WriterProxy {
          remote_writer_guid: g, unicast_locator_list: loc_list(ix[1]), multicast_locator_list: loc_list(ix[2]),
          data_max_size_serialized: if ix[3] == 0 { None } else { Some(MAXSIZE[ix[3] - 1]) },
        },
        publication_topic_data: PublicationBuiltinTopicData::new_with_qos(
          g, if ix[4] == 0 { None } else { Some(guid(1)) }, STRS[(ix[5] + 5) % 12].to_string(), STRS[ix[6]].to_string(),
          &qos_build(&ENDPOINT_QOS, &ix[7..]), None),
      }
    }
    fn ser(&self, rep: Rep) -> Result<Vec<u8>, String> {
      self.to_pl_cdr_bytes(rep).map(|b| b.to_vec()).map_err(|e| format!("{:?}", e))
    }
    fn de(b: &[u8], rep: Rep) -> Result<Self, String> {
      Self::from_pl_cdr_bytes(b, rep).map_err(|e| format!("{:?}", e))
    }
    fn diff(&self, g: &Self) -> Vec<String> {
      let mut d = vec![];
      cmp_fields!(self, g, d, writer_proxy.remote_writer_guid);
      cmp_fields!(self, g, d, writer_proxy.unicast_locator_list);
      cmp_fields!(self, g, d, writer_proxy.multicast_locator_list);
      cmp_fields!(self, g, d, writer_proxy.data_max_size_serialized);
      cmp_fields!(self, g, d, publication_topic_data.key);
      cmp_fields!(self, g, d, publication_topic_data.participant_key);
      cmp_fields!(self, g, d, publication_topic_data.topic_name);
      cmp_fields!(self, g, d, publication_topic_data.type_name);
      cmp_fields!(self, g, d, publication_topic_data.durability);
      cmp_fields!(self, g, d, publication_topic_data.deadline);
      cmp_fields!(self, g, d, publication_topic_data.latency_budget);
      cmp_fields!(self, g, d, publication_topic_data.liveliness);
      cmp_fields!(self, g, d, publication_topic_data.reliability);
      cmp_fields!(self, g, d, publication_topic_data.lifespan);
      cmp_fields!(self, g, d, publication_topic_data.time_based_filter);
      cmp_fields!(self, g, d, publication_topic_data.ownership);
      cmp_fields!(self, g, d, publication_topic_data.destination_order);
      cmp_fields!(self, g, d, publication_topic_data.presentation);
      cmp_fields!(self, g, d, publication_topic_data.service_instance_name);
      cmp_fields!(self, g, d, publication_topic_data.related_datareader_key);
      cmp_fields!(self, g, d, publication_topic_data.topic_aliases);
      let mut g2 = g.clone();
      g2.last_updated = self.last_updated;
      if d.is_empty() && *self != g2 { d.push("(other field)".to_string()); }
      d
    }
    fn expected(&self, be: bool) -> Vec<P> {
      let t = &self.publication_topic_data;
      let mut v = vec![p(0x005a, eguid(&self.writer_proxy.remote_writer_guid))];
      if let Some(m) = self.writer_proxy.data_max_size_serialized { v.push(p(0x0060, e32(m, be))); }
      v.extend(plocs(0x002f, &self.writer_proxy.unicast_locator_list, be));
      v.extend(plocs(0x0030, &self.writer_proxy.multicast_locator_list, be));
      if let Some(k) = &t.participant_key { v.push(p(0x0050, eguid(k))); }
      v.push(p(0x0005, estr(&t.topic_name, be)));
      v.push(p(0x0007, estr(&t.type_name, be)));
      v.extend(qos_expected(&t.qos(), be));
      v
    }
    fn without(&self, pid: u16) -> Without<Self> {
      let mut w = self.clone();
      if let Some(q) = qos_without(&self.publication_topic_data.qos(), pid) {
        w.publication_topic_data.set_qos(&q);
        return Without::Value(w);
      }
      match pid {
        0x0060 => w.writer_proxy.data_max_size_serialized = None,
        0x002f => w.writer_proxy.unicast_locator_list = vec![],
        0x0030 => w.writer_proxy.multicast_locator_list = vec![],
        0x0050 => w.publication_topic_data.participant_key = None,
        _ => return Without::Reject, // endpoint GUID, topic name, type name
      }
      Without::Value(w)
    }
  }

  #[test]
  fn xc_plcdr_writer_roundtrip() {
    run_roundtrip::<DiscoveredWriterData>(20000);
  }
  #[test]
  fn xc_plcdr_writer_unknown() {
    run_unknown::<DiscoveredWriterData>();
  }
  #[test]
  fn xc_plcdr_writer_default() {
    run_default::<DiscoveredWriterData>(None);
  }

  // ------------------------------------------------------------------ DiscoveredTopicData
  impl Subject for DiscoveredTopicData {
    const NAME: &'static str = "topic";
    fn dims() -> Vec<Dim> {
      let mut v = vec![dim("key", 3, 2, 0), dim("name", 12, 1, 0), dim("type_name", 12, 1, 0)];
      v.extend(qos_dims(&TOPIC_QOS, 0));
      v
    }
    fn build(ix: &[usize]) -> Self {
      DiscoveredTopicData::new(Utc::now(), TopicBuiltinTopicData::new(
        if ix[0] == 0 { None } else { Some(guid([0, 2][ix[0] - 1])) }, STRS[(ix[1] + 2) % 12].to_string(), STRS[(ix[2] + 7) % 12].to_string(),
        &qos_build(&TOPIC_QOS, &ix[3..])))
    }
    fn ser(&self, rep: Rep) -> Result<Vec<u8>, String> {
      self.to_pl_cdr_bytes(rep).map(|b| b.to_vec()).map_err(|e| format!("{:?}", e))
    }
    fn de(b: &[u8], rep: Rep) -> Result<Self, String> {
      Self::from_pl_cdr_bytes(b, rep).map_err(|e| format!("{:?}", e))
    }
    fn diff(&self, g: &Self) -> Vec<String> {
      let mut d = vec![];
      cmp_fields!(self, g, d, topic_data.key);
      cmp_fields!(self, g, d, topic_data.name);
      cmp_fields!(self, g, d, topic_data.type_name);
      cmp_fields!(self, g, d, topic_data.durability);
      cmp_fields!(self, g, d, topic_data.deadline);
      cmp_fields!(self, g, d, topic_data.latency_budget);
      cmp_fields!(self, g, d, topic_data.liveliness);
      cmp_fields!(self, g, d, topic_data.reliability);
      cmp_fields!(self, g, d, topic_data.lifespan);
      cmp_fields!(self, g, d, topic_data.destination_order);
      cmp_fields!(self, g, d, topic_data.presentation);
      cmp_fields!(self, g, d, topic_data.history);
      cmp_fields!(self, g, d, topic_data.resource_limits);
      cmp_fields!(self, g, d, topic_data.ownership);
      if d.is_empty() && self.topic_data != g.topic_data { d.push("(other field)".to_string()); }
      d
    }
    fn expected(&self, be: bool) -> Vec<P> {
      let t = &self.topic_data;
      let mut v = vec![];
      if let Some(k) = &t.key { v.push(p(0x005a, eguid(k))); }
      v.push(p(0x0005, estr(&t.name, be)));
      v.push(p(0x0007, estr(&t.type_name, be)));
      v.extend(qos_expected(&t.qos(), be));
      v
    }
    fn without(&self, pid: u16) -> Without<Self> {
      let t = &self.topic_data;
      if let Some(q) = qos_without(&t.qos(), pid) {
        return Without::Value(DiscoveredTopicData::new(Utc::now(), TopicBuiltinTopicData::new(t.key, t.name.clone(), t.type_name.clone(), &q)));
      }
      match pid {
        0x005a => Without::Value(DiscoveredTopicData::new(Utc::now(), TopicBuiltinTopicData::new(None, t.name.clone(), t.type_name.clone(), &t.qos()))),
        _ => Without::Reject, // topic name, type name
      }
    }
  }

  #[test]
  fn xc_plcdr_topic_roundtrip() {
    run_roundtrip::<DiscoveredTopicData>(10000);
  }
  #[test]
  fn xc_plcdr_topic_unknown() {
    run_unknown::<DiscoveredTopicData>();
  }
  #[test]
  fn xc_plcdr_topic_default() {
    run_default::<DiscoveredTopicData>(None);
  }

  // ------------------------------------------------------------------ PID_OWNERSHIP_STRENGTH default
  // RTPS 2.5 table 9.13: PID_OWNERSHIP_STRENGTH has the default 0, so an announcement may carry
  // PID_OWNERSHIP = EXCLUSIVE without a strength (a DataReader has no strength at all): the decoded
  // ownership must be Exclusive { strength: 0 }, not "unspecified".
  // Finding F18 (fixed in /repo, ba7d550; the test is active): QosPolicies::from_parameter_list
  // maps (PID_OWNERSHIP = EXCLUSIVE, no PID_OWNERSHIP_STRENGTH) to ownership None with a warning.
  // XC-WITNESS label=plcdr.reader.default encoding=PL_CDR_LE (and PL_CDR_BE) removed_pid=0x0006: field(s) differ:
  //   subscription_topic_data.ownership: expected Some(Exclusive { strength: 0 }), decoded None
  //   (wire: 1f 00 04 00 01 00 00 00 present, parameter 06 00 04 00 .. absent)
  #[test]
  fn xc_plcdr_reader_default_ownership_strength() {
    run_default::<DiscoveredReaderData>(Some(0x0006));
  }
  // Finding F18 (fixed in /repo, ba7d550; the test is active): QosPolicies::from_parameter_list
  // maps (PID_OWNERSHIP = EXCLUSIVE, no PID_OWNERSHIP_STRENGTH) to ownership None with a warning.
  // XC-WITNESS label=plcdr.writer.default encoding=PL_CDR_LE (and PL_CDR_BE) removed_pid=0x0006: field(s) differ:
  //   publication_topic_data.ownership: expected Some(Exclusive { strength: 0 }), decoded None
  //   (wire: 1f 00 04 00 01 00 00 00 present, parameter 06 00 04 00 .. absent)
  #[test]
  fn xc_plcdr_writer_default_ownership_strength() {
    run_default::<DiscoveredWriterData>(Some(0x0006));
  }
  // Finding F18 (fixed in /repo, ba7d550; the test is active): QosPolicies::from_parameter_list
  // maps (PID_OWNERSHIP = EXCLUSIVE, no PID_OWNERSHIP_STRENGTH) to ownership None with a warning.
  // XC-WITNESS label=plcdr.topic.default encoding=PL_CDR_LE (and PL_CDR_BE) removed_pid=0x0006: field(s) differ:
  //   topic_data.ownership: expected Some(Exclusive { strength: 0 }), decoded None
  //   (wire: 1f 00 04 00 01 00 00 00 present, parameter 06 00 04 00 .. absent)
  #[test]
  fn xc_plcdr_topic_default_ownership_strength() {
    run_default::<DiscoveredTopicData>(Some(0x0006));
  }

  // ------------------------------------------------------------------ DDS-RPC extension fields
  // (RPC over DDS 1.0 section 7.6.2.1: PID_SERVICE_INSTANCE_NAME 0x0080, PID_RELATED_ENTITY_GUID 0x0081,
  // PID_TOPIC_ALIASES 0x0082.)  Every combination of the three on the all-absent / all-present
  // baselines.  topic_aliases = Some(vec![]) is not enumerated: an empty list has no wire form.
  fn rpc_variants() -> Vec<(Option<String>, Option<GUID>, Option<Vec<String>>)> {
    let mut v = vec![];
    for s in [None, Some(""), Some("abc"), Some("ab\u{65e5}")] {
      for k in [None, Some(guid(1))] {
        for a in [None, Some(vec!["a"]), Some(vec!["abcd", "\u{e9}"])] {
          v.push((s.map(|x: &str| x.to_string()), k, a.map(|l: Vec<&str>| l.iter().map(|x| x.to_string()).collect())));
        }
      }
    }
    v
  }
  fn rpc_check<S: Subject>(x: &S, what: &str) {
    for (rep, be, rname) in REPS {
      let ctx = format!("encoding={} {}", rname, what);
      let bytes = x.ser(rep).unwrap_or_else(|e| panic!("XC-WITNESS label=plcdr.{}.roundtrip {}: serialisation failed: {}", S::NAME, ctx, e));
      if let Err(e) = split(&bytes, be) {
        panic!("XC-WITNESS label=plcdr.{}.frame {}: not a well-formed ParameterList: {} ; bytes = {}", S::NAME, ctx, e, hex(&bytes));
      }
      match S::de(&bytes, rep) {
        Ok(g) => same("roundtrip", x, &g, &ctx, &bytes),
        Err(e) => panic!("XC-WITNESS label=plcdr.{}.roundtrip {}: the bytes the implementation wrote do not decode: {} ; bytes = {}", S::NAME, ctx, e, hex(&bytes)),
      }
    }
  }
  // OPEN KNOWN FINDING F20 (known_findings.json; the test is active and reported as KNOWN-FINDING): DiscoveredReaderData::to_parameter_list
  // emits PID_SERVICE_INSTANCE_NAME / PID_RELATED_ENTITY_GUID / PID_TOPIC_ALIASES, from_pl_cdr_bytes never reads
  // them (the constructor sets them to None).  First witness:
  // XC-WITNESS label=plcdr.reader.roundtrip encoding=PL_CDR_LE base=all-absent service_instance_name=None
  //   related_datawriter_key=None topic_aliases=Some(["a"]): field(s) differ: subscription_topic_data.topic_aliases:
  //   expected Some(["a"]), decoded None   (same for service_instance_name Some("") .. and the related key, both encodings)
  #[test]
  fn xc_plcdr_reader_rpc_fields() {
    let dims = DiscoveredReaderData::dims();
    let mut n = 0;
    for base in &baselines(&dims)[0..2] {
      for (s, k, a) in rpc_variants() {
        let mut x = DiscoveredReaderData::build(base);
        x.subscription_topic_data.service_instance_name = s.clone();
        x.subscription_topic_data.related_datawriter_key = k;
        x.subscription_topic_data.topic_aliases = a.clone();
        rpc_check(&x, &format!("base={} service_instance_name={:?} related_datawriter_key={:?} topic_aliases={:?}", ix_name(&dims, base), s, k, a));
        n += 1;
      }
    }
    assert!(n == 48, "vacuity guard: {} cases", n);
  }
  // OPEN KNOWN FINDING F20 (known_findings.json; the test is active and reported as KNOWN-FINDING): DiscoveredWriterData::to_parameter_list
  // emits PID_SERVICE_INSTANCE_NAME / PID_RELATED_ENTITY_GUID / PID_TOPIC_ALIASES, from_pl_cdr_bytes never reads
  // them (the constructor sets them to None).  First witness:
  // XC-WITNESS label=plcdr.writer.roundtrip encoding=PL_CDR_LE base=all-absent service_instance_name=None
  //   related_datareader_key=None topic_aliases=Some(["a"]): field(s) differ: publication_topic_data.topic_aliases:
  //   expected Some(["a"]), decoded None   (same for service_instance_name Some("") .. and the related key, both encodings)
  #[test]
  fn xc_plcdr_writer_rpc_fields() {
    let dims = DiscoveredWriterData::dims();
    let mut n = 0;
    for base in &baselines(&dims)[0..2] {
      for (s, k, a) in rpc_variants() {
        let mut x = DiscoveredWriterData::build(base);
        x.publication_topic_data.service_instance_name = s.clone();
        x.publication_topic_data.related_datareader_key = k;
        x.publication_topic_data.topic_aliases = a.clone();
        rpc_check(&x, &format!("base={} service_instance_name={:?} related_datareader_key={:?} topic_aliases={:?}", ix_name(&dims, base), s, k, a));
        n += 1;
      }
    }
    assert!(n == 48, "vacuity guard: {} cases", n);
  }

  // ------------------------------------------------------------------ key-only forms (dispose messages)
  #[test]
  fn xc_plcdr_keys() {
    let mut n = 0;
    for i in 0..3 {
      for (rep, be, rname) in REPS {
        let g = guid(i);
        for (name, pid, bytes, back) in [
          ("endpoint_guid", 0x005au16, Endpoint_GUID(g).to_pl_cdr_bytes(rep).map(|b| b.to_vec()).map_err(|e| format!("{:?}", e)),
            (|b: &[u8], r: Rep| Endpoint_GUID::from_pl_cdr_bytes(b, r).map(|k| k.0).map_err(|e| format!("{:?}", e))) as fn(&[u8], Rep) -> Result<GUID, String>),
          ("participant_guid", 0x0050u16, Participant_GUID(g).to_pl_cdr_bytes(rep).map(|b| b.to_vec()).map_err(|e| format!("{:?}", e)),
            (|b: &[u8], r: Rep| Participant_GUID::from_pl_cdr_bytes(b, r).map(|k| k.0).map_err(|e| format!("{:?}", e))) as fn(&[u8], Rep) -> Result<GUID, String>),
        ] {
          let ctx = format!("encoding={} guid={}", rname, hex(&GUID_RAW[i]));
          let bytes = bytes.unwrap_or_else(|e| panic!("XC-WITNESS label=plcdr.{}.roundtrip {}: serialisation failed: {}", name, ctx, e));
          let want = join(&vec![(pid, GUID_RAW[i].to_vec())], be);
          assert!(bytes == want, "XC-WITNESS label=plcdr.{}.wire {}: bytes = {} ; RTPS: {}", name, ctx, hex(&bytes), hex(&want));
          assert!(back(&bytes, rep) == Ok(g), "XC-WITNESS label=plcdr.{}.roundtrip {}: decoded {:?}", name, ctx, back(&bytes, rep));
          for upid in SKIP_PIDS {
            for len in UNKNOWN_LENS {
              for first in [true, false] {
                let u = (upid, decoy(len));
                let raw = if first { vec![u, (pid, GUID_RAW[i].to_vec())] } else { vec![(pid, GUID_RAW[i].to_vec()), u] };
                let b2 = join(&raw, be);
                assert!(back(&b2, rep) == Ok(g), "XC-WITNESS label=plcdr.{}.unknown {} unknown_pid=0x{:04x} unknown_len={} before={}: decoded {:?} ; bytes = {}", name, ctx, upid, len, first, back(&b2, rep), hex(&b2));
                n += 1;
              }
            }
          }
          let none = join(&vec![], be);
          assert!(back(&none, rep).is_err(), "XC-WITNESS label=plcdr.{}.default {}: an empty parameter list decodes to {:?}", name, ctx, back(&none, rep));
        }
      }
    }
    assert!(n == 3 * 2 * 2 * 8 * 4 * 2, "vacuity guard: {} cases", n);
  }

  // ------------------------------------------------------------------ ParticipantMessageData (plain CDR)
  // RTPS 9.6.2.1: GuidPrefix_t (12 octets), octet kind[4], sequence<octet> data
  #[test]
  fn xc_plcdr_participant_message_data() {
    let kinds: [[u8; 4]; 5] = [[0, 0, 0, 0], [0, 0, 0, 1], [0, 0, 0, 2], [0x01, 0x02, 0x03, 0x84], [0x80, 0, 0, 1]];
    assert!(ParticipantMessageDataKind::UNKNOWN.value == kinds[0] && ParticipantMessageDataKind::AUTOMATIC_LIVELINESS_UPDATE.value == kinds[1]
      && ParticipantMessageDataKind::MANUAL_LIVELINESS_UPDATE.value == kinds[2],
      "XC-WITNESS label=plcdr.pmd.wire: the liveliness kinds are not RTPS table 9.18 (00 00 00 00 / 00 00 00 01 / 00 00 00 02)");
    let mut n = 0;
    for gi in 0..3 {
      for kind in kinds {
        for len in 0..=9usize {
          let x = ParticipantMessageData {
            guid: GuidPrefix::new(&GUID_RAW[gi][..12]),
            kind: ParticipantMessageDataKind { value: kind },
            data: (0..len).map(|i| 0x11 + 0x1d * i as u8).collect(),
          };
          for (rep, be, rname) in [(Rep::CDR_LE, false, "CDR_LE"), (Rep::CDR_BE, true, "CDR_BE")] {
            let ctx = format!("encoding={} value={:?}", rname, x);
            let mut bytes: Vec<u8> = vec![];
            if let Err(e) = to_writer_with_rep_id(&mut bytes, &x, rep) {
              panic!("XC-WITNESS label=plcdr.pmd.roundtrip {}: serialisation failed: {:?}", ctx, e);
            }
            let mut want = GUID_RAW[gi][..12].to_vec();
            want.extend(kind);
            want.extend(e32(len as u32, be));
            want.extend(&x.data);
            assert!(bytes == want, "XC-WITNESS label=plcdr.pmd.wire {}: bytes = {} ; RTPS layout: {}", ctx, hex(&bytes), hex(&want));
            // as received: the payload may be followed by padding to 4
            for padded in [false, true] {
              let mut b2 = bytes.clone();
              if padded { pad4(&mut b2); }
              match deserialize_from_cdr_with_rep_id::<ParticipantMessageData>(&b2, rep) {
                Ok((g, used)) => {
                  assert!(g == x, "XC-WITNESS label=plcdr.pmd.roundtrip {} padded={}: decoded {:?} ; bytes = {}", ctx, padded, g, hex(&b2));
                  assert!(used == bytes.len(), "XC-WITNESS label=plcdr.pmd.roundtrip {} padded={}: {} of {} bytes consumed", ctx, padded, used, bytes.len());
                  let mut again: Vec<u8> = vec![];
                  to_writer_with_rep_id(&mut again, &g, rep).unwrap();
                  assert!(again == bytes, "XC-WITNESS label=plcdr.pmd.reserialize {}: first = {} ; again = {}", ctx, hex(&bytes), hex(&again));
                }
                Err(e) => panic!("XC-WITNESS label=plcdr.pmd.roundtrip {} padded={}: does not decode: {:?} ; bytes = {}", ctx, padded, e, hex(&b2)),
              }
              n += 1;
            }
          }
        }
      }
    }
    assert!(n == 3 * 5 * 10 * 2 * 2, "vacuity guard: {} cases", n);
  }
}
