//@ append: src/rtps/message_receiver.rs
// Executable contract of the MEMORY clause of C06 — BOUNDED STAND-IN / witness search on the real code:
//   "No datagram ... however malformed ... or extreme in its numeric fields, makes the participant ...
//    abort ... or makes it spend ... memory OUT OF PROPORTION TO THE BYTES RECEIVED."
// Instrument: a test-only #[global_allocator] wrapper around `System` (the only one in the crate) that
// records, per thread, the LARGEST single allocation request and the TOTAL number of bytes requested
// (alloc + alloc_zeroed sizes, realloc new sizes) since the last reset.  It does not allocate, lock or
// format inside `alloc`.  A request of >= 1 GiB is recorded like any other and then served by a lazily
// committed anonymous mapping (mmap MAP_NORESERVE) instead of `System`, so that code which asks for
// count * size_of::<T>() bytes with a wire-controlled 32-bit `count` (tens of GiB: `System` refuses,
// Rust's allocation-error handler ABORTS the process) yields a readable witness instead of killing the
// test binary.  Code that also WRITES such a block (BytesMut::resize) would commit the pages: the one
// field known to do that (DATA_FRAG.sampleSize) is therefore enumerated up to 256 MiB only.
// Oracle, from the property statement: while the real code processes ONE wire input of n bytes
//     a. datagram:               largest single request <= 64 KiB + 16 n,  total requested <= 160 KiB + 64 n
//     b./c. discovery / CDR payload:                    <=  4 KiB + 16 n,                  <=  16 KiB + 64 n
// 64 KiB is what a 16-bit length field (parameter length, octetsToNextHeader) can legitimately name, so a
// request up to it is not "out of proportion"; nothing in a datagram legitimately names more than that plus
// its own size.  The constants are as tight as the unchanged tree allows (measured maxima, see `Allowance`):
// datagrams: largest 65536 for n = 64 (DATA_FRAG sampleSize 65536; a 16-bit parameter length of 65535 read
// through a stream reader gives 65535), total 149400 for n = 52 (DATA_FRAG sampleSize 65536 / fragmentSize 8,
// then the HEARTBEAT that makes the reader collect the 8191 missing fragment numbers for a NACK_FRAG);
// payloads: largest 2048, total 7412 for n = 548, CDR: 192 / 303 for n = 64.
// Entry points and enumeration (the bound):
//   every input is a hand-assembled, well-formed, minimal wire image (written from the RTPS 2.5 / DDS-RPC
//   wire layouts, not with the crate's serialisers) in BOTH byte orders; ONE field at a time is
//   overwritten with each of VALUES = {0, 1, 255, 256, 65535, 65536, 1_000_000, 0x7FFF_FFFF, 0xFFFF_FFFF}
//   (16-bit fields: the values that fit), written in BOTH byte orders:
//     (i)  every NAMED count / length / size / sequence-number / fragment-number field (label
//          work.alloc.<entry>.<field>), and
//     (ii) a blind sweep: every 2-aligned 16-bit and every 4-aligned 32-bit window of the whole image
//          (label work.alloc.<entry>.u16@<offset> / u32@<offset>), which also hits fields nobody named,
//          submessage kind / flags / octetsToNextHeader and the RTPS header.
//   a. whole datagrams through MessageReceiver::handle_received_packet into a real reliable Reader with
//      the sending writer matched (a fresh writer GUID per input, so every input meets a fresh proxy):
//      DATA (inline QoS with key hash, status info, related sample identity, a string parameter, an
//      unknown parameter), DATA without inline QoS, DATA_FRAG (one fragment of three / the complete
//      sample / with inline QoS), DATA_FRAG followed by a HEARTBEAT for the partial sample (the work of
//      the second datagram depends on fields of the first), HEARTBEAT, GAP, HEARTBEAT_FRAG, ACKNACK and
//      NACK_FRAG (the ACKNACK is handed on to a real reliable Writer::handle_ack_nack with the reader
//      matched, as DPEventLoop does), INFO_TS / INFO_SRC / INFO_DST / INFO_REPLY each followed by DATA and
//      HEARTBEAT, SEC_PREFIX + SEC_BODY + SEC_POSTFIX + HEARTBEAT (parsed only with --features security).
//   b. discovery payloads through the real from_pl_cdr_bytes of SpdpDiscoveredParticipantData,
//      DiscoveredReaderData (with PID_CONTENT_FILTER_PROPERTY: four strings and the expression-parameter
//      sequence), DiscoveredWriterData, DiscoveredTopicData; each carries locators, strings, QoS,
//      PID_PROPERTY_LIST, PID_DATA_TAGS, PID_PARTITION, PID_USER_DATA, PID_TYPE_OBJECT and unknown /
//      vendor-specific parameters; plus a leading parameter that claims 65532 / 65535 bytes.
//   c. plain CDR through the real CDRDeserializerAdapter::from_bytes (what SimpleDataReader::
//      deserialize_with calls): ParticipantMessageData (octet sequence) and a user type with a String, a
//      Vec<u8>, a Vec<String> and a Vec<u64>.
//   NOT enumerated in the default-feature build: the security-only readers (qos::policy::Property /
//   DataTag, DataHolder tokens); xc_alloc_security_* below run only with --features security.
// FINDINGS on the unchanged tree, each isolated in a test of its own (see the comments there):
//   xc_alloc_datafrag_data_size         work.alloc.datafrag.data_size: DATA_FRAG.sampleSize is allocated and
//                                       zero-filled up front (OPEN known finding)
//   xc_alloc_info_reply_locator_count   work.alloc.info_reply.{unicast,multicast}.count: the INFO_REPLY
//                                       locator-list count pre-sized a Vec<Locator> (32-byte datagram ->
//                                       request of 128 GiB -> SIGABRT); REPAIRED in /repo 5213fd5, the test
//                                       now enumerates every value and every mutation of the submessage
// In xc_alloc_datagrams_named_and_blind DATA_FRAG.sampleSize is enumerated up to 65536 only (and, on a tree
// without the INFO_REPLY repair: INFO_REPLY_REPAIRED = false, the bytes of that submessage are not mutated).
#[cfg(test)]
mod verif_xc_alloc_bound {
  use std::{
    alloc::{GlobalAlloc, Layout, System},
    cell::Cell,
    net::UdpSocket,
    panic::{catch_unwind, AssertUnwindSafe},
    rc::Rc,
    sync::{Arc, Mutex, RwLock},
  };

  use serde::{Deserialize, Serialize};

  use super::*;
  use crate::{
    dds::{
      adapters::no_key::DeserializerAdapter,
      qos::{
        policy::{History, Reliability},
        QosPolicies, QosPolicyBuilder,
      },
      statusevents::{
        sync_status_channel, DataReaderStatus, DataWriterStatus, DomainParticipantStatusEvent,
        StatusChannelReceiver,
      },
      typedesc::TypeDesc,
      with_key::simpledatareader::ReaderCommand,
    },
    discovery::{
      sedp_messages::{
        DiscoveredReaderData, DiscoveredTopicData, DiscoveredWriterData, ParticipantMessageData,
      },
      spdp_participant_data::SpdpDiscoveredParticipantData,
    },
    mio_source::{self, PollEventSource},
    network::udp_sender::UDPSender,
    rtps::{
      reader::ReaderIngredients,
      rtps_reader_proxy::RtpsReaderProxy,
      writer::{Writer, WriterCommand, WriterIngredients},
    },
    serialization::{pl_cdr_adapters::PlCdrDeserialize, CDRDeserializerAdapter},
    structure::{dds_cache::DDSCache, duration::Duration, guid::EntityKind},
    RepresentationIdentifier,
  };

  // ================================================================== the probe

  thread_local! {
    static LARGEST: Cell<usize> = const { Cell::new(0) };
    static TOTAL: Cell<usize> = const { Cell::new(0) };
    static CALLS: Cell<usize> = const { Cell::new(0) };
  }

  #[inline]
  fn note(size: usize) {
    // try_with: the allocator is also called while a thread's locals are being torn down
    let _ = LARGEST.try_with(|c| {
      if size > c.get() {
        c.set(size);
      }
    });
    let _ = TOTAL.try_with(|c| c.set(c.get().saturating_add(size)));
    let _ = CALLS.try_with(|c| c.set(c.get() + 1));
  }

  // Requests of this size or more are served by a lazily committed mapping (see the header).
  const LAZY_FROM: usize = 1 << 30;

  #[cfg(target_os = "linux")]
  mod lazy {
    use std::ffi::c_void;
    extern "C" {
      fn mmap(addr: *mut c_void, len: usize, prot: i32, flags: i32, fd: i32, off: i64) -> *mut c_void;
      fn munmap(addr: *mut c_void, len: usize) -> i32;
    }
    const PROT_READ: i32 = 1;
    const PROT_WRITE: i32 = 2;
    const MAP_PRIVATE: i32 = 0x02;
    const MAP_ANONYMOUS: i32 = 0x20;
    const MAP_NORESERVE: i32 = 0x4000;
    // zero-filled, page aligned; null on failure
    pub unsafe fn map(len: usize) -> *mut u8 {
      let p = mmap(std::ptr::null_mut(), len, PROT_READ | PROT_WRITE, MAP_PRIVATE | MAP_ANONYMOUS | MAP_NORESERVE, -1, 0);
      if p as isize == -1 { std::ptr::null_mut() } else { p as *mut u8 }
    }
    pub unsafe fn unmap(p: *mut u8, len: usize) {
      munmap(p as *mut c_void, len);
    }
  }

  struct Probe;

  impl Probe {
    #[inline]
    fn is_lazy(layout: &Layout) -> bool {
      cfg!(target_os = "linux") && layout.size() >= LAZY_FROM && layout.align() <= 4096
    }
    #[inline]
    unsafe fn raw_alloc(layout: Layout, zeroed: bool) -> *mut u8 {
      #[cfg(target_os = "linux")]
      if Self::is_lazy(&layout) {
        return lazy::map(layout.size());
      }
      if zeroed { System.alloc_zeroed(layout) } else { System.alloc(layout) }
    }
    #[inline]
    unsafe fn raw_dealloc(ptr: *mut u8, layout: Layout) {
      #[cfg(target_os = "linux")]
      if Self::is_lazy(&layout) {
        return lazy::unmap(ptr, layout.size());
      }
      System.dealloc(ptr, layout);
    }
  }

  unsafe impl GlobalAlloc for Probe {
    unsafe fn alloc(&self, layout: Layout) -> *mut u8 {
      note(layout.size());
      Self::raw_alloc(layout, false)
    }
    unsafe fn alloc_zeroed(&self, layout: Layout) -> *mut u8 {
      note(layout.size());
      Self::raw_alloc(layout, true)
    }
    unsafe fn realloc(&self, ptr: *mut u8, layout: Layout, new_size: usize) -> *mut u8 {
      note(new_size);
      let new_layout = Layout::from_size_align_unchecked(new_size, layout.align());
      if !Self::is_lazy(&layout) && !Self::is_lazy(&new_layout) {
        return System.realloc(ptr, layout, new_size);
      }
      let p = Self::raw_alloc(new_layout, false);
      if !p.is_null() {
        std::ptr::copy_nonoverlapping(ptr, p, layout.size().min(new_size));
        Self::raw_dealloc(ptr, layout);
      }
      p
    }
    unsafe fn dealloc(&self, ptr: *mut u8, layout: Layout) {
      Self::raw_dealloc(ptr, layout);
    }
  }

  #[global_allocator]
  static PROBE: Probe = Probe;

  #[derive(Clone, Copy, Debug, Default)]
  struct Usage {
    largest: usize,
    total: usize,
    calls: usize,
  }

  fn measure<T>(f: impl FnOnce() -> T) -> (T, Usage) {
    LARGEST.with(|c| c.set(0));
    TOTAL.with(|c| c.set(0));
    CALLS.with(|c| c.set(0));
    let r = f();
    let u = Usage { largest: LARGEST.with(Cell::get), total: TOTAL.with(Cell::get), calls: CALLS.with(Cell::get) };
    (r, u)
  }

  // ================================================================== the oracle

  const SINGLE_PER_BYTE: usize = 16;
  const TOTAL_PER_BYTE: usize = 64;
  #[derive(Clone, Copy)]
  struct Allowance {
    single_base: usize,
    total_base: usize,
  }
  // a. datagrams; measured maximum of (largest - 16 n) = 64512, of (total - 64 n) = 146072
  const DATAGRAM: Allowance = Allowance { single_base: 64 * 1024, total_base: 160 * 1024 };
  // b., c. discovery / CDR payloads: nothing in them is framed by a 16-bit length that the reader
  // pre-sizes from; observed maxima are 2048 / 7372 bytes for a 536-byte payload, i.e. below 16n / 64n
  const PAYLOAD: Allowance = Allowance { single_base: 4 * 1024, total_base: 16 * 1024 };

  const VALUES: [u32; 9] = [0, 1, 255, 256, 65535, 65536, 1_000_000, 0x7FFF_FFFF, 0xFFFF_FFFF];

  struct Stats {
    allow: Allowance,
    cases: usize,
    deep: usize, // inputs that the real code accepted / acted on (entry specific)
    worst_single: usize, // max of largest - SINGLE_PER_BYTE * n
    worst_total: usize,
    worst_single_at: String,
    worst_total_at: String,
    max_largest: (usize, usize), // (largest single request, input length) of the input with the largest request
    max_total: (usize, usize),
    witnesses: Vec<String>,
    headline: (usize, String), // the witness with the largest single request: first line of the failure message
  }

  impl Stats {
    fn new(allow: Allowance) -> Stats {
      Stats { allow, cases: 0, deep: 0, worst_single: 0, worst_total: 0, worst_single_at: String::new(), worst_total_at: String::new(), max_largest: (0, 0), max_total: (0, 0), witnesses: vec![], headline: (0, String::new()) }
    }
    fn judge(&mut self, label: &str, encoding: &str, value: u32, input_len: usize, u: Usage) {
      self.cases += 1;
      if u.largest > self.max_largest.0 { self.max_largest = (u.largest, input_len); }
      if u.total > self.max_total.0 { self.max_total = (u.total, input_len); }
      let s = u.largest.saturating_sub(SINGLE_PER_BYTE * input_len);
      let t = u.total.saturating_sub(TOTAL_PER_BYTE * input_len);
      if s > self.worst_single {
        self.worst_single = s;
        self.worst_single_at = format!("{label} {encoding} value={value}");
      }
      if t > self.worst_total {
        self.worst_total = t;
        self.worst_total_at = format!("{label} {encoding} value={value}");
      }
      let (single_base, total_base) = (self.allow.single_base, self.allow.total_base);
      if s > single_base || t > total_base {
        let w = format!(
          "XC-WITNESS label={label} encoding={encoding} value={value} input_len={input_len} largest_request={} total={} (allocator calls {}): {}",
          u.largest, u.total, u.calls,
          if s > single_base {
            format!("one allocation request of {} bytes while processing {} received bytes; allowed {} + {}*n = {}", u.largest, input_len, single_base, SINGLE_PER_BYTE, single_base + SINGLE_PER_BYTE * input_len)
          } else {
            format!("{} bytes requested in total while processing {} received bytes; allowed {} + {}*n = {}", u.total, input_len, total_base, TOTAL_PER_BYTE, total_base + TOTAL_PER_BYTE * input_len)
          }
        );
        if u.largest.max(1) > self.headline.0 { self.headline = (u.largest.max(1), w.clone()); }
        if self.witnesses.len() < 12 { self.witnesses.push(w); }
      }
    }
    fn finish(&self, what: &str) {
      println!(
        "alloc_bound {what}: {} inputs, {} acted on; worst largest-16n = {} at [{}]; worst total-64n = {} at [{}]; absolute maxima: largest {} (n={}), total {} (n={})",
        self.cases, self.deep, self.worst_single, self.worst_single_at, self.worst_total, self.worst_total_at,
        self.max_largest.0, self.max_largest.1, self.max_total.0, self.max_total.1
      );
      if !self.witnesses.is_empty() {
        // the input with the largest request first, then the first violating inputs in enumeration order
        println!("{}", self.headline.1);
        for w in &self.witnesses { if *w != self.headline.1 { println!("{w}"); } }
        panic!("{}\n(the input with the largest request; {} more violating inputs are printed above)", self.headline.1, self.witnesses.len());
      }
    }
  }

  // ================================================================== wire images

  #[derive(Clone, Debug)]
  struct Field {
    name: String,
    off: usize,
    width: usize,
  }

  // A wire image under construction: bytes, its byte order, and where the named fields are.
  #[derive(Clone)]
  struct Wire {
    b: Vec<u8>,
    be: bool,
    fields: Vec<Field>,
    open: Vec<(usize, usize)>, // (offset of a 16-bit length to patch, offset where the counted bytes start)
    sub_starts: Vec<usize>,    // offsets of the submessage headers
  }

  impl Wire {
    fn new(be: bool) -> Wire { Wire { b: vec![], be, fields: vec![], open: vec![], sub_starts: vec![] } }
    fn raw(&mut self, x: &[u8]) -> &mut Self { self.b.extend_from_slice(x); self }
    fn u16(&mut self, v: u16) -> &mut Self { let e = if self.be { v.to_be_bytes() } else { v.to_le_bytes() }; self.raw(&e) }
    fn u32(&mut self, v: u32) -> &mut Self { let e = if self.be { v.to_be_bytes() } else { v.to_le_bytes() }; self.raw(&e) }
    fn f16(&mut self, name: &str, v: u16) -> &mut Self { self.fields.push(Field { name: name.to_string(), off: self.b.len(), width: 2 }); self.u16(v) }
    fn f32(&mut self, name: &str, v: u32) -> &mut Self { self.fields.push(Field { name: name.to_string(), off: self.b.len(), width: 4 }); self.u32(v) }
    // SequenceNumber: high (signed) word, then low word, each in the image's byte order
    fn sn(&mut self, name: &str, v: i64) -> &mut Self {
      self.f32(&format!("{name}.high"), (v >> 32) as u32);
      self.f32(&format!("{name}.low"), v as u32)
    }
    fn pad4(&mut self) -> &mut Self { while self.b.len() % 4 != 0 { self.b.push(0); } self }
    // CDR string: length including the NUL, characters, NUL (no padding)
    fn string(&mut self, name: &str, s: &str) -> &mut Self {
      self.pad4();
      self.f32(name, s.len() as u32 + 1);
      self.raw(s.as_bytes()).raw(&[0])
    }
    fn patch16(&mut self, at: usize, v: u16) {
      let e = if self.be { v.to_be_bytes() } else { v.to_le_bytes() };
      self.b[at..at + 2].copy_from_slice(&e);
    }
    // ---- RTPS message framing
    fn rtps_header(&mut self, prefix: &[u8; 12]) -> &mut Self { self.raw(b"RTPS").raw(&[2, 4, 1, 18]).raw(prefix) }
    fn sub(&mut self, name: &str, kind: u8, flags: u8) -> &mut Self {
      self.sub_starts.push(self.b.len());
      self.raw(&[kind, flags | if self.be { 0 } else { 1 }]);
      let at = self.b.len();
      self.f16(&format!("{name}.octets_to_next_header"), 0);
      self.open.push((at, self.b.len()));
      self
    }
    fn end(&mut self) -> &mut Self {
      self.pad4();
      let (at, from) = self.open.pop().expect("end without sub/param");
      let n = self.b.len() - from;
      self.patch16(at, n as u16);
      self
    }
    // ---- parameter lists
    fn param(&mut self, name: &str, pid: u16) -> &mut Self {
      self.pad4();
      self.u16(pid);
      let at = self.b.len();
      self.f16(&format!("{name}.length"), 0);
      self.open.push((at, self.b.len()));
      self
    }
    fn sentinel(&mut self, name: &str) -> &mut Self { self.pad4(); self.u16(1); self.f16(&format!("{name}.length"), 0) }
    fn locator(&mut self, name: &str, port: u32) -> &mut Self {
      self.f32(&format!("{name}.kind"), 1);
      self.f32(&format!("{name}.port"), port);
      self.raw(&[0, 0, 0, 0, 0, 0, 0, 0, 0, 0, 0, 0, 127, 0, 0, 1])
    }
    fn duration(&mut self, name: &str, sec: u32, frac: u32) -> &mut Self {
      self.f32(&format!("{name}.seconds"), sec);
      self.f32(&format!("{name}.fraction"), frac)
    }
  }

  // work.alloc.<entry>.<field>; a field named after its submessage is not prefixed twice
  fn label(entry: &str, field: &str) -> String {
    if field.starts_with(&format!("{entry}.")) { format!("work.alloc.{field}") } else { format!("work.alloc.{entry}.{field}") }
  }

  fn enc_name(image_be: bool, value_be: bool) -> String {
    format!("{}-image/{}-value", if image_be { "BE" } else { "LE" }, if value_be { "BE" } else { "LE" })
  }

  // All single-field mutations of an image: (label suffix, value, value byte order, mutated bytes)
  fn mutations(w: &Wire, blind: bool) -> Vec<(String, usize, u32, bool, Vec<u8>)> {
    let mut out = vec![];
    let mut push = |name: String, off: usize, width: usize| {
      for v in VALUES {
        if width == 2 && v > 0xFFFF { continue; }
        for vbe in [false, true] {
          let mut b = w.b.clone();
          if width == 2 {
            let e = if vbe { (v as u16).to_be_bytes() } else { (v as u16).to_le_bytes() };
            b[off..off + 2].copy_from_slice(&e);
          } else {
            let e = if vbe { v.to_be_bytes() } else { v.to_le_bytes() };
            b[off..off + 4].copy_from_slice(&e);
          }
          out.push((name.clone(), off, v, vbe, b));
        }
      }
    };
    for f in &w.fields { push(f.name.clone(), f.off, f.width); }
    if blind {
      let mut off = 0;
      while off + 2 <= w.b.len() { push(format!("u16@{off}"), off, 2); off += 2; }
      let mut off = 0;
      while off + 4 <= w.b.len() { push(format!("u32@{off}"), off, 4); off += 4; }
    }
    out
  }

  // ================================================================== a. datagrams into a real Reader (and Writer)

  const READER_EID: [u8; 4] = [0, 0, 1, 0x07]; // user-defined reader with key
  const WRITER_EID: [u8; 4] = [0, 0, 2, 0x02]; // user-defined (remote) writer with key
  const LOCAL_WRITER_EID: [u8; 4] = [0, 0, 3, 0x02];
  const REMOTE_READER_EID: [u8; 4] = [0, 0, 4, 0x07];
  const OWN_PREFIX: [u8; 12] = [7; 12];

  fn eid(b: [u8; 4]) -> EntityId { EntityId::new([b[0], b[1], b[2]], EntityKind::from(b[3])) }

  fn reliable_qos() -> QosPolicies {
    QosPolicyBuilder::new()
      .reliability(Reliability::Reliable { max_blocking_time: Duration::from_millis(100) })
      .history(History::KeepLast { depth: 1 })
      .build()
  }

  // receiving ends that have to stay alive as long as the Reader / Writer
  struct Keep {
    _n: mio_channel::Receiver<()>,
    _p: PollEventSource,
    _s: StatusChannelReceiver<DataReaderStatus>,
    _ps: StatusChannelReceiver<DomainParticipantStatusEvent>,
    _c: mio_channel::SyncSender<ReaderCommand>,
  }

  struct Rig {
    mr: MessageReceiver,
    acknack_rx: mio_channel::Receiver<(GuidPrefix, AckSubmessage)>,
    _spdp_rx: mio_channel::Receiver<GuidPrefix>,
    keep: Option<Keep>,
    writer: Writer,
    _wcmd: mio_channel::SyncSender<WriterCommand>,
    _wstatus: StatusChannelReceiver<DataWriterStatus>,
    _wpstatus: StatusChannelReceiver<DomainParticipantStatusEvent>,
    udp_sender: Rc<UDPSender>,
    reply_socket: UdpSocket, // the matched writer's unicast locator: the reader's ACKNACKs arrive here
    dds_cache: Arc<RwLock<DDSCache>>,
    serial: u64,
    reader_uses: usize,
    writer_uses: usize,
    n_replies: usize,
    n_acknacks_to_writer: usize,
  }

  impl Rig {
    fn new() -> Rig {
      let (acknack_sender, acknack_rx) = mio_channel::sync_channel::<(GuidPrefix, AckSubmessage)>(10);
      let (spdp_liveness_sender, _spdp_rx) = mio_channel::sync_channel(8);
      let mr = MessageReceiver::new(GuidPrefix::new(&OWN_PREFIX), acknack_sender, spdp_liveness_sender, None);
      let udp_sender = Rc::new(UDPSender::new(0).expect("UDPSender"));
      let reply_socket = UdpSocket::bind("127.0.0.1:0").expect("bind 127.0.0.1");
      reply_socket.set_nonblocking(true).unwrap();
      let (writer, _wcmd, _wstatus, _wpstatus) = Self::new_writer(&udp_sender);
      let mut rig = Rig {
        mr, acknack_rx, _spdp_rx, keep: None, writer, _wcmd, _wstatus, _wpstatus, udp_sender, reply_socket,
        dds_cache: Arc::new(RwLock::new(DDSCache::new())), serial: 0, reader_uses: 0, writer_uses: 0, n_replies: 0, n_acknacks_to_writer: 0,
      };
      rig.new_reader();
      rig
    }

    fn new_writer(udp_sender: &Rc<UDPSender>) -> (Writer, mio_channel::SyncSender<WriterCommand>, StatusChannelReceiver<DataWriterStatus>, StatusChannelReceiver<DomainParticipantStatusEvent>) {
      let (cmd, writer_command_receiver) = mio_channel::sync_channel::<WriterCommand>(16);
      let (status_sender, status_rx) = sync_status_channel::<DataWriterStatus>(4).unwrap();
      let (participant_status_sender, pstatus_rx) = sync_status_channel(4).unwrap();
      let ing = WriterIngredients {
        guid: GUID::new(GuidPrefix::new(&OWN_PREFIX), eid(LOCAL_WRITER_EID)),
        writer_command_receiver,
        writer_command_receiver_waker: Arc::new(Mutex::new(None)),
        topic_name: "verif_xc_alloc_bound".to_string(),
        like_stateless: false,
        qos_policies: reliable_qos(),
        status_sender,
        security_plugins: None,
      };
      let w = Writer::new(ing, udp_sender.clone(), mio_extras::timer::Builder::default().build(), participant_status_sender);
      (w, cmd, status_rx, pstatus_rx)
    }

    // A fresh reliable Reader (no fragment assemblers, empty topic cache) inside the MessageReceiver.
    fn new_reader(&mut self) {
      let reader_guid = GUID::new(GuidPrefix::new(&OWN_PREFIX), eid(READER_EID));
      drop(self.mr.remove_reader(reader_guid));
      self.keep = None;
      let qos = reliable_qos();
      let topic = format!("verif_xc_alloc_bound_{}", self.serial);
      let topic_cache_handle = self.dds_cache.write().unwrap().add_new_topic(topic.clone(), TypeDesc::new("T".to_string()), &qos);
      let (notification_sender, n) = mio_channel::sync_channel::<()>(100);
      let (p, poll_event_sender) = mio_source::make_poll_channel().unwrap();
      let (status_sender, s) = sync_status_channel::<DataReaderStatus>(4).unwrap();
      let (participant_status_sender, ps) = sync_status_channel(16).unwrap();
      let (c, data_reader_command_receiver) = mio_channel::sync_channel::<ReaderCommand>(10);
      let ing = ReaderIngredients {
        guid: reader_guid,
        notification_sender,
        status_sender,
        topic_name: topic,
        topic_cache_handle,
        like_stateless: false,
        qos_policy: qos,
        data_reader_command_receiver,
        data_reader_waker: Arc::new(Mutex::new(None)),
        poll_event_sender,
        security_plugins: None,
      };
      let reader = Reader::new(ing, self.udp_sender.clone(), mio_extras::timer::Builder::default().build(), participant_status_sender);
      self.mr.add_reader(reader);
      self.keep = Some(Keep { _n: n, _p: p, _s: s, _ps: ps, _c: c });
      self.reader_uses = 0;
    }

    fn fresh_prefix(&mut self) -> [u8; 12] {
      self.serial += 1;
      let mut p = [0xA5u8; 12];
      p[..8].copy_from_slice(&self.serial.to_be_bytes());
      p
    }

    fn drain_replies(&mut self) -> usize {
      let mut buf = [0u8; 2048];
      let mut n = 0;
      while self.reply_socket.recv_from(&mut buf).is_ok() { n += 1; }
      self.n_replies += n;
      n
    }

    // Process the datagrams of one input: the peer `prefix` is matched (as remote writer of our reader and
    // as remote reader of our writer) OUTSIDE the measured region; every datagram is measured on its own.
    // Returns per datagram the usage, and how many submessages the interpreter saw in the last one.
    fn process(&mut self, prefix: [u8; 12], datagrams: &[Vec<u8>]) -> (Vec<Usage>, usize) {
      if self.reader_uses >= 400 { self.new_reader(); }
      if self.writer_uses >= 20_000 {
        let (w, c, s, ps) = Self::new_writer(&self.udp_sender);
        self.writer = w; self._wcmd = c; self._wstatus = s; self._wpstatus = ps;
        self.writer_uses = 0;
      }
      self.reader_uses += 1;
      self.writer_uses += 1;
      let qos = reliable_qos();
      let peer = GuidPrefix::new(&prefix);
      let remote_writer = GUID::new(peer, eid(WRITER_EID));
      let remote_reader = GUID::new(peer, eid(REMOTE_READER_EID));
      let locator = Locator::from(self.reply_socket.local_addr().unwrap());
      self.mr.reader_mut(eid(READER_EID)).expect("reader").matched_writer_add(remote_writer, EntityId::UNKNOWN, vec![locator], vec![], &qos);
      self.writer.update_reader_proxy(&RtpsReaderProxy::new(remote_reader, qos.clone(), false), &qos);
      let mut usages = vec![];
      for d in datagrams {
        let bytes = Bytes::copy_from_slice(d);
        let mr = &mut self.mr;
        let writer = &mut self.writer;
        let acknack_rx = &self.acknack_rx;
        let mut forwarded = 0;
        let (r, u) = measure(|| {
          catch_unwind(AssertUnwindSafe(|| {
            mr.handle_received_packet(&bytes);
            // what DPEventLoop::handle_writer_acknack_action does with the queue
            while let Ok((from, ack)) = acknack_rx.try_recv() {
              if ack.writer_id() == eid(LOCAL_WRITER_EID) { writer.handle_ack_nack(from, &ack); forwarded += 1; }
            }
          }))
        });
        assert!(r.is_ok(), "XC-WITNESS label=work.alloc.nopanic datagram(len={})={:02x?}: the datagram made the receive path panic", d.len(), d);
        self.n_acknacks_to_writer += forwarded;
        usages.push(u);
      }
      let count = self.mr.submessage_count;
      self.mr.reader_mut(eid(READER_EID)).expect("reader").remove_writer_proxy(remote_writer);
      self.writer.reader_lost(remote_reader);
      (usages, count)
    }
  }

  // ---- the images

  fn data_header(w: &mut Wire, name: &str, sn: i64) {
    w.u16(0); // extraFlags
    w.f16(&format!("{name}.octets_to_inline_qos"), 16);
    w.raw(&READER_EID).raw(&WRITER_EID);
    w.sn(&format!("{name}.writer_sn"), sn);
  }

  fn inline_qos(w: &mut Wire, name: &str) {
    w.param(&format!("{name}.inline_qos.key_hash"), 0x0070).raw(&[3; 16]).end();
    w.param(&format!("{name}.inline_qos.status_info"), 0x0071).raw(&[0, 0, 0, 0]).end();
    w.param(&format!("{name}.inline_qos.related_sample_identity"), 0x0083).raw(&[9; 16]);
    w.sn(&format!("{name}.inline_qos.related_sample_identity.sn"), 5).end();
    w.param(&format!("{name}.inline_qos.topic_name"), 0x0005).string(&format!("{name}.inline_qos.topic_name.strlen"), "Square").end();
    w.param(&format!("{name}.inline_qos.unknown"), 0x3ffe).raw(&[1, 2, 3, 4, 5, 6, 7, 8]).end();
    w.sentinel(&format!("{name}.inline_qos.sentinel"));
  }

  // serialized payload: CDR encapsulation header + a struct { i64, string }
  fn payload(w: &mut Wire, name: &str) {
    w.raw(&[0, if w.be { 0 } else { 1 }, 0, 0]);
    w.u32(7).u32(0);
    w.f32(&format!("{name}.payload.strlen"), 4).raw(b"RED\0");
  }

  fn heartbeat(w: &mut Wire, name: &str, first: i64, last: i64, count: u32) {
    w.sub(name, 0x07, 0).raw(&READER_EID).raw(&WRITER_EID);
    w.sn(&format!("{name}.first_sn"), first).sn(&format!("{name}.last_sn"), last);
    w.f32(&format!("{name}.count"), count).end();
  }

  fn data_frag_header(w: &mut Wire, name: &str, sn: i64, start: u32, in_sub: u16, frag_size: u16, data_size: u32) {
    w.u16(0);
    w.f16(&format!("{name}.octets_to_inline_qos"), 28);
    w.raw(&READER_EID).raw(&WRITER_EID);
    w.sn(&format!("{name}.writer_sn"), sn);
    w.f32(&format!("{name}.fragment_starting_num"), start);
    w.f16(&format!("{name}.fragments_in_submessage"), in_sub);
    w.f16(&format!("{name}.fragment_size"), frag_size);
    w.f32(&format!("{name}.data_size"), data_size);
  }

  // Every datagram entry: name, number of submessages of the unmodified image, builder.
  // The builder returns the datagrams of ONE input (all but "datafrag_then_heartbeat" have one).
  type Build = fn(be: bool, prefix: &[u8; 12]) -> Vec<Wire>;

  fn one(be: bool, prefix: &[u8; 12], f: impl FnOnce(&mut Wire)) -> Vec<Wire> {
    let mut w = Wire::new(be);
    w.rtps_header(prefix);
    f(&mut w);
    assert!(w.open.is_empty());
    vec![w]
  }

  fn frag1_of_3(w: &mut Wire) {
    // fragment 1 of 3 (8 of 24 bytes)
    w.sub("datafrag", 0x16, 0);
    data_frag_header(w, "datafrag", 1, 1, 1, 8, 24);
    w.raw(&[0, if w.be { 0 } else { 1 }, 0, 0, 7, 0, 0, 0]);
    w.end();
  }
  fn plain_data(w: &mut Wire) {
    w.sub("data", 0x15, 0x04);
    data_header(w, "data", 1);
    payload(w, "data");
    w.end();
  }

  fn e_data(be: bool, p: &[u8; 12]) -> Vec<Wire> {
    one(be, p, |w| {
      w.sub("info_ts", 0x09, 0).f32("info_ts.seconds", 1_700_000_000).f32("info_ts.fraction", 5).end();
      w.sub("data", 0x15, 0x02 | 0x04);
      data_header(w, "data", 1);
      inline_qos(w, "data");
      payload(w, "data");
      w.end();
    })
  }
  fn e_data_plain(be: bool, p: &[u8; 12]) -> Vec<Wire> { one(be, p, plain_data) }
  fn e_data_key(be: bool, p: &[u8; 12]) -> Vec<Wire> {
    one(be, p, |w| {
      // dispose: inline QoS + serialized key
      w.sub("data", 0x15, 0x02 | 0x08);
      data_header(w, "data", 1);
      inline_qos(w, "data");
      w.raw(&[0, if w.be { 0 } else { 1 }, 0, 0]).u32(7).u32(0);
      w.end();
    })
  }
  fn e_datafrag(be: bool, p: &[u8; 12]) -> Vec<Wire> { one(be, p, frag1_of_3) }
  fn e_datafrag_complete(be: bool, p: &[u8; 12]) -> Vec<Wire> {
    one(be, p, |w| {
      // all 3 fragments in one submessage: the sample is assembled and handed on
      w.sub("datafrag", 0x16, 0);
      data_frag_header(w, "datafrag", 1, 1, 3, 8, 24);
      w.raw(&[0, if w.be { 0 } else { 1 }, 0, 0]).u32(7).u32(0).u32(4).raw(b"RED\0").raw(&[0; 4]);
      w.end();
    })
  }
  fn e_datafrag_qos(be: bool, p: &[u8; 12]) -> Vec<Wire> {
    one(be, p, |w| {
      w.sub("datafrag", 0x16, 0x02);
      data_frag_header(w, "datafrag", 2, 2, 1, 8, 24);
      inline_qos(w, "datafrag");
      w.raw(&[1; 8]);
      w.end();
    })
  }
  fn e_datafrag_then_heartbeat(be: bool, p: &[u8; 12]) -> Vec<Wire> {
    // the reader answers the HEARTBEAT with a NACK_FRAG listing the missing fragments of sample 1
    let mut v = one(be, p, frag1_of_3);
    v.extend(one(be, p, |w| heartbeat(w, "heartbeat", 1, 1, 1)));
    v
  }
  fn e_heartbeat(be: bool, p: &[u8; 12]) -> Vec<Wire> { one(be, p, |w| heartbeat(w, "heartbeat", 1, 3, 1)) }
  fn e_gap(be: bool, p: &[u8; 12]) -> Vec<Wire> {
    one(be, p, |w| {
      w.sub("gap", 0x08, 0).raw(&READER_EID).raw(&WRITER_EID);
      w.sn("gap.gap_start", 1).sn("gap.gap_list.base", 3);
      w.f32("gap.gap_list.num_bits", 33).f32("gap.gap_list.bitmap[0]", 0xA000_0000).f32("gap.gap_list.bitmap[1]", 0x8000_0000).end();
    })
  }
  fn e_heartbeat_frag(be: bool, p: &[u8; 12]) -> Vec<Wire> {
    one(be, p, |w| {
      frag1_of_3(w);
      w.sub("heartbeat_frag", 0x13, 0).raw(&READER_EID).raw(&WRITER_EID);
      w.sn("heartbeat_frag.writer_sn", 1).f32("heartbeat_frag.last_fragment_num", 2).f32("heartbeat_frag.count", 1).end();
    })
  }
  fn e_acknack(be: bool, p: &[u8; 12]) -> Vec<Wire> {
    one(be, p, |w| {
      w.sub("acknack", 0x06, 0).raw(&REMOTE_READER_EID).raw(&LOCAL_WRITER_EID);
      w.sn("acknack.reader_sn_state.base", 1);
      w.f32("acknack.reader_sn_state.num_bits", 33).f32("acknack.reader_sn_state.bitmap[0]", 0xC000_0000).f32("acknack.reader_sn_state.bitmap[1]", 0x8000_0000);
      w.f32("acknack.count", 1).end();
    })
  }
  fn e_nack_frag(be: bool, p: &[u8; 12]) -> Vec<Wire> {
    one(be, p, |w| {
      w.sub("nack_frag", 0x12, 0).raw(&REMOTE_READER_EID).raw(&LOCAL_WRITER_EID);
      w.sn("nack_frag.writer_sn", 1);
      w.f32("nack_frag.fragment_number_state.base", 1).f32("nack_frag.fragment_number_state.num_bits", 32).f32("nack_frag.fragment_number_state.bitmap[0]", 0xF000_0000);
      w.f32("nack_frag.count", 1).end();
    })
  }
  fn e_info_ts(be: bool, p: &[u8; 12]) -> Vec<Wire> {
    one(be, p, |w| {
      w.sub("info_ts", 0x09, 0).f32("info_ts.seconds", 1_700_000_000).f32("info_ts.fraction", 5).end();
      plain_data(w);
      heartbeat(w, "heartbeat", 1, 2, 1);
    })
  }
  fn e_info_src(be: bool, p: &[u8; 12]) -> Vec<Wire> {
    one(be, p, |w| {
      // the source named by INFO_SRC is the matched writer; the header carries another prefix
      let mut other = *p;
      other[11] ^= 0xFF;
      w.b.truncate(8);
      w.raw(&other);
      w.sub("info_src", 0x0c, 0).f32("info_src.unused", 0).raw(&[2, 4, 1, 18]).raw(p).end();
      plain_data(w);
      heartbeat(w, "heartbeat", 1, 2, 1);
    })
  }
  fn e_info_dst(be: bool, p: &[u8; 12]) -> Vec<Wire> {
    one(be, p, |w| {
      w.sub("info_dst", 0x0e, 0).raw(&OWN_PREFIX).end();
      plain_data(w);
      heartbeat(w, "heartbeat", 1, 2, 1);
    })
  }
  fn e_info_reply(be: bool, p: &[u8; 12]) -> Vec<Wire> { one(be, p, info_reply_image) }
  // DDS Security submessages (parsed only with --features security; unknown kinds otherwise):
  // SEC_PREFIX (CryptoHeader: transformation kind, key id, session id, IV suffix), SEC_BODY (CryptoContent:
  // octet sequence whose length is always big-endian), SEC_POSTFIX (CryptoFooter), then a HEARTBEAT
  fn e_sec(be: bool, p: &[u8; 12]) -> Vec<Wire> {
    one(be, p, |w| {
      w.sub("sec_prefix", 0x31, 0).raw(&[0, 0, 0, 2]).raw(&[1, 2, 3, 4]).raw(&[0, 0, 0, 1]).raw(&[8; 8]).end();
      w.sub("sec_body", 0x30, 0);
      w.fields.push(Field { name: "sec_body.crypto_content.length".to_string(), off: w.b.len(), width: 4 });
      w.raw(&8u32.to_be_bytes()).raw(&[0xEE; 8]).end();
      w.sub("sec_postfix", 0x32, 0).raw(&[0xAA; 16]);
      w.fields.push(Field { name: "sec_postfix.receiver_specific_macs.count".to_string(), off: w.b.len(), width: 4 });
      w.raw(&0u32.to_be_bytes()).end();
      heartbeat(w, "heartbeat", 1, 2, 1);
    })
  }

  // name, number of submessages of the last datagram of the unmodified input, builder
  fn entries() -> Vec<(&'static str, usize, Build)> {
    vec![
      ("data", 2, e_data as Build),
      ("data_plain", 1, e_data_plain as Build),
      ("data_key", 1, e_data_key as Build),
      ("datafrag", 1, e_datafrag as Build),
      ("datafrag_complete", 1, e_datafrag_complete as Build),
      ("datafrag_qos", 1, e_datafrag_qos as Build),
      ("datafrag_then_heartbeat", 1, e_datafrag_then_heartbeat as Build),
      ("heartbeat", 1, e_heartbeat as Build),
      ("gap", 1, e_gap as Build),
      ("heartbeat_frag", 2, e_heartbeat_frag as Build),
      ("acknack", 1, e_acknack as Build),
      ("nack_frag", 1, e_nack_frag as Build),
      ("info_ts", 3, e_info_ts as Build),
      ("info_src", 3, e_info_src as Build),
      ("info_dst", 3, e_info_dst as Build),
      ("info_reply", 3, e_info_reply as Build),
      ("sec", if cfg!(feature = "security") { 4 } else { 1 }, e_sec as Build),
    ]
  }

  // INFO_REPLY: unicastLocatorList (count, locators) and, with the M flag, multicastLocatorList.
  // (The crate's reader expects one octet "list present" before the second list; it is given here so
  // that the unmodified image is accepted.)
  fn info_reply_image(w: &mut Wire) {
    w.sub("info_reply", 0x0f, 0x02);
    w.f32("info_reply.unicast.count", 1).locator("info_reply.unicast[0]", 7411);
    w.raw(&[1]);
    w.f32("info_reply.multicast.count", 1).locator("info_reply.multicast[0]", 7400);
    w.end();
    w.sub("data", 0x15, 0x04);
    data_header(w, "data", 1);
    payload(w, "data");
    w.end();
    heartbeat(w, "heartbeat", 1, 2, 1);
  }

  fn read32(b: &[u8], off: usize, be: bool) -> u32 {
    let x: [u8; 4] = b[off..off + 4].try_into().unwrap();
    if be { u32::from_be_bytes(x) } else { u32::from_le_bytes(x) }
  }

  // The two findings of the unchanged tree are kept out of the general test and have tests of their own
  // (xc_alloc_datafrag_data_size, xc_alloc_info_reply_locator_count):
  // (1) DATA_FRAG.sampleSize: would the receiver, reading the mutated image with the byte order its
  //     (possibly mutated) flags octet declares, see a sampleSize > 65536?
  fn datafrag_size_candidate(w: &Wire, mutated: &[u8]) -> bool {
    for f in &w.fields {
      if f.name != "datafrag.data_size" { continue; }
      let sub = *w.sub_starts.iter().filter(|s| **s <= f.off).last().expect("field outside a submessage");
      let be = mutated[sub + 1] & 1 == 0;
      if read32(mutated, f.off, be) > 65536 { return true; }
    }
    false
  }
  // (2) every mutation inside the INFO_REPLY submessage (any of them can move the locator count)
  fn in_info_reply(entry: &str, w: &Wire, off: usize) -> bool {
    entry == "info_reply" && off >= w.sub_starts[0] && off < w.sub_starts[1]
  }

  #[derive(Clone, Copy, PartialEq)]
  enum Scope {
    Passing,       // everything but the two finding candidates
    InfoReplyOnly, // only the mutations inside the INFO_REPLY submessage
  }

  fn run_datagram_entries(scope: Scope, stats: &mut Stats) {
    let mut rig = Rig::new();
    for (entry, n_sub, build) in entries() {
      if scope == Scope::InfoReplyOnly && entry != "info_reply" { continue; }
      for be in [false, true] {
        // the unmodified image is well-formed: the real parser accepts it and the interpreter sees all
        // its submessages
        let prefix = rig.fresh_prefix();
        let base = build(be, &prefix);
        for w in &base {
          assert!(Message::read_from_buffer(&Bytes::copy_from_slice(&w.b)).is_ok(), "test setup: image of entry {entry} (be={be}) is not accepted by the parser: {:02x?}", w.b);
        }
        let (us, count) = rig.process(prefix, &base.iter().map(|w| w.b.clone()).collect::<Vec<_>>());
        assert!(count == n_sub, "test setup: entry {entry} (be={be}): interpreter saw {count} submessages, expected {n_sub}");
        for (u, w) in us.iter().zip(&base) {
          stats.judge(&label(entry, "unmodified"), &enc_name(be, be), 0, w.b.len(), *u);
        }
        rig.drain_replies();
        // one field at a time, in each datagram of the input
        for k in 0..base.len() {
          for (field, off, value, vbe, bytes) in mutations(&base[k], true) {
            match scope {
              Scope::Passing => if datafrag_size_candidate(&base[k], &bytes) || (!INFO_REPLY_REPAIRED && in_info_reply(entry, &base[k], off)) { continue; },
              Scope::InfoReplyOnly => if !in_info_reply(entry, &base[k], off) { continue; },
            }
            let prefix = rig.fresh_prefix();
            let mut dgrams: Vec<Vec<u8>> = build(be, &prefix).into_iter().map(|w| w.b).collect();
            // keep the mutation, take the fresh source prefix (unless the mutation is in the prefix)
            let mut m = bytes.clone();
            if m[8..20] == base[k].b[8..20] { m[8..20].copy_from_slice(&dgrams[k][8..20]); }
            if entry == "info_src" && m[32..44] == base[k].b[32..44] { m[32..44].copy_from_slice(&dgrams[k][32..44]); }
            dgrams[k] = m;
            let (us, count) = rig.process(prefix, &dgrams);
            // (submessage_count is left over from the previous datagram when the parser rejects this one)
            if count == n_sub && Message::read_from_buffer(&Bytes::copy_from_slice(dgrams.last().unwrap())).is_ok() { stats.deep += 1; }
            for (u, d) in us.iter().zip(&dgrams) {
              stats.judge(&label(entry, &field), &enc_name(be, vbe), value, d.len(), *u);
            }
            rig.drain_replies();
          }
        }
      }
    }
    println!("alloc_bound datagrams: {} ACKNACK/NACK_FRAG replies of the reader observed, {} ACKNACKs handed to the writer", rig.n_replies, rig.n_acknacks_to_writer);
    if scope == Scope::Passing {
      assert!(rig.n_replies > 1000 && rig.n_acknacks_to_writer > 100, "vacuity guard: {} replies of the reader, {} ACKNACKs reached the writer", rig.n_replies, rig.n_acknacks_to_writer);
    }
  }

  #[test]
  fn xc_alloc_probe_selftest() {
    // the probe sees what is requested (and only on this thread)
    let (v, u) = measure(|| {
      let a: Vec<u8> = Vec::with_capacity(12_345);
      let mut b: Vec<u32> = Vec::with_capacity(10);
      b.reserve_exact(1000);
      (a, b)
    });
    assert!(u.largest == 12_345 && u.total == 12_345 + 40 + 4000 && u.calls == 3, "probe self test: {:?}", u);
    drop(v);
    let (_, u) = measure(|| ());
    assert!(u.largest == 0 && u.total == 0, "probe self test (idle): {:?}", u);
    // a request beyond LAZY_FROM is recorded and served without committing memory
    let (v, u) = measure(|| Vec::<u64>::with_capacity(3 << 30));
    assert!(u.largest == 24 << 30 && v.capacity() == 3 << 30, "probe self test (lazy): {:?}", u);
    drop(v);
    // and the oracle rejects it
    let mut s = Stats::new(DATAGRAM);
    s.judge("work.alloc.selftest", "-", 0, 100, u);
    assert!(s.witnesses.len() == 1 && s.headline.1.starts_with("XC-WITNESS label=work.alloc.selftest "));
  }

  #[test]
  fn xc_alloc_datagrams_named_and_blind() {
    let mut stats = Stats::new(DATAGRAM);
    run_datagram_entries(Scope::Passing, &mut stats);
    assert!(stats.cases > 30_000 && stats.deep > 10_000, "vacuity guard: {} inputs, {} interpreted completely", stats.cases, stats.deep);
    stats.finish("datagrams");
  }

  // FINDING (unchanged tree, OPEN): DATA_FRAG.sampleSize (`data_size`) is taken from the wire and
  // AssemblyBuffer::new does BytesMut::with_capacity(data_size) + resize(data_size, 0) (plus a bitmap of
  // data_size / fragment_size bits) when the first fragment of a sample arrives.  A 64-byte datagram with
  // data_size = 1_000_000 -> one request of 1_000_000 bytes; 256 MiB -> 268_435_456 (total 272_631_944);
  // 1 GiB -> 1_073_741_824; the block is zero-filled, i.e. really committed, and kept until the fragment
  // GC; nothing but the 32-bit field limits it (4 GiB per datagram).  One DATA_FRAG with 256 MiB here.
  #[test]
  fn xc_alloc_datafrag_data_size() {
    let mut stats = Stats::new(DATAGRAM);
    let mut rig = Rig::new();
    let (be, value) = (false, 1u32 << 28);
    let prefix = rig.fresh_prefix();
    let mut w = e_datafrag(be, &prefix).remove(0);
    let f = w.fields.iter().find(|f| f.name == "datafrag.data_size").unwrap().clone();
    w.b[f.off..f.off + 4].copy_from_slice(&value.to_le_bytes());
    let (us, count) = rig.process(prefix, &[w.b.clone()]);
    assert!(count == 1, "test setup: the DATA_FRAG was not interpreted");
    stats.judge("work.alloc.datafrag.data_size", &enc_name(be, be), value, w.b.len(), us[0]);
    rig.new_reader(); // give the buffer back
    stats.finish("DATA_FRAG data_size");
  }

  // FINDING (repaired in /repo 5213fd5: Locator::minimum_bytes_needed): INFO_REPLY's locator lists are read by the derived speedy reader of
  // Vec<Locator>; Locator has a hand-written Readable without minimum_bytes_needed() (default 0), so speedy's
  // read_vec does Vec::with_capacity(count) without comparing count with the bytes that are left: count * 32
  // bytes are requested before the first locator is read.  A 32-byte datagram (RTPS header + INFO_REPLY
  // with count 0xFFFF_FFFF) asks for 137_438_953_440 bytes: with the System allocator that is an allocation
  // failure = SIGABRT of the process.  On a tree without the repair (INFO_REPLY_REPAIRED = false) only counts
  // whose request is harmless are enumerated (65535 -> 2 MB ... 16_000_000 -> 512 MB, never written to);
  // with it every value incl. 0xFFFF_FFFF and every mutation of the submessage's bytes.
  const INFO_REPLY_REPAIRED: bool = true;

  #[test]
  fn xc_alloc_info_reply_locator_count() {
    let mut stats = Stats::new(DATAGRAM);
    if INFO_REPLY_REPAIRED {
      run_datagram_entries(Scope::InfoReplyOnly, &mut stats);
      assert!(stats.cases > 1_000, "vacuity guard: {} inputs", stats.cases);
    } else {
      let mut rig = Rig::new();
      for be in [false, true] {
        for field in ["info_reply.unicast.count", "info_reply.multicast.count"] {
          for value in [65_535u32, 65_536, 1_000_000, 16_000_000] {
            let prefix = rig.fresh_prefix();
            let mut w = e_info_reply(be, &prefix).remove(0);
            let f = w.fields.iter().find(|f| f.name == field).unwrap().clone();
            let e = if be { value.to_be_bytes() } else { value.to_le_bytes() };
            w.b[f.off..f.off + 4].copy_from_slice(&e);
            let (us, _) = rig.process(prefix, &[w.b.clone()]);
            stats.judge(&label("info_reply", field), &enc_name(be, be), value, w.b.len(), us[0]);
          }
        }
      }
      assert!(stats.cases == 16);
    }
    stats.finish("INFO_REPLY locator count");
  }

  // ================================================================== b. discovery payloads

  fn guid_bytes(k: u8, eid: [u8; 4]) -> Vec<u8> {
    let mut v = vec![k; 12];
    v.extend_from_slice(&eid);
    v
  }

  // parameters that every discovery type may carry (and mostly ignores)
  fn common_params(w: &mut Wire) {
    // PID_PROPERTY_LIST: sequence<Property{name, value}>, sequence<BinaryProperty{name, sequence<octet>}>
    w.param("property_list", 0x0059).f32("property_list.count", 1)
      .string("property_list[0].name.strlen", "dds.sec.x").string("property_list[0].value.strlen", "v").pad4()
      .f32("property_list.binary_count", 1).string("property_list.binary[0].name.strlen", "b").pad4()
      .f32("property_list.binary[0].value.len", 2).raw(&[1, 2]).end();
    // PID_DATA_TAGS: sequence<Tag{name, value}>
    w.param("data_tags", 0x1003).f32("data_tags.count", 1).string("data_tags[0].name.strlen", "n").string("data_tags[0].value.strlen", "v").end();
    // PID_PARTITION: sequence<string>
    w.param("partition", 0x0029).f32("partition.count", 2).string("partition[0].strlen", "A").string("partition[1].strlen", "B*").end();
    // PID_USER_DATA: sequence<octet>
    w.param("user_data", 0x002c).f32("user_data.len", 3).raw(&[1, 2, 3]).end();
    // PID_TYPE_OBJECT (XTypes; opaque here), an unassigned PID, a vendor-specific one, PID_PAD
    w.param("type_object", 0x0072).f32("type_object.word0", 0x0000_0001).raw(&[0x55; 20]).end();
    w.param("unassigned_pid", 0x3ffe).f32("unassigned_pid.word0", 4).raw(&[1, 2, 3, 4]).end();
    w.param("vendor_pid", 0x8007).f32("vendor_pid.word0", 1).end();
    w.param("pad", 0x0000).raw(&[0; 4]).end();
    // PID_ENDPOINT_SECURITY_INFO (read only with --features security)
    w.param("endpoint_security_info", 0x1004).f32("endpoint_security_info.attributes", 0x8000_0000).f32("endpoint_security_info.plugin_attributes", 0x8000_0000).end();
  }

  fn endpoint_qos(w: &mut Wire) {
    w.param("durability", 0x001d).f32("durability.kind", 1).end();
    w.param("reliability", 0x001a).f32("reliability.kind", 2).duration("reliability.max_blocking_time", 0, 0x1999_9999).end();
    w.param("history", 0x0040).f32("history.kind", 0).f32("history.depth", 8).end();
    w.param("deadline", 0x0023).duration("deadline.period", 0x7fff_ffff, 0xffff_ffff).end();
    w.param("latency_budget", 0x0027).duration("latency_budget.duration", 0, 0).end();
    w.param("liveliness", 0x001b).f32("liveliness.kind", 0).duration("liveliness.lease_duration", 0x7fff_ffff, 0xffff_ffff).end();
    w.param("ownership", 0x001f).f32("ownership.kind", 0).end();
    w.param("destination_order", 0x0025).f32("destination_order.kind", 0).end();
    w.param("presentation", 0x0021).f32("presentation.access_scope", 0).raw(&[0, 0, 0, 0]).end();
    w.param("resource_limits", 0x0041).f32("resource_limits.max_samples", 100).f32("resource_limits.max_instances", 10).f32("resource_limits.max_samples_per_instance", 10).end();
    w.param("lifespan", 0x002b).duration("lifespan.duration", 10, 0).end();
    w.param("time_based_filter", 0x0004).duration("time_based_filter.minimum_separation", 0, 0).end();
  }

  fn spdp_image(be: bool) -> Wire {
    let mut w = Wire::new(be);
    w.param("protocol_version", 0x0015).raw(&[2, 4, 0, 0]).end();
    w.param("vendor_id", 0x0016).raw(&[1, 18, 0, 0]).end();
    w.param("participant_guid", 0x0050).raw(&guid_bytes(0x11, [0, 0, 1, 0xc1])).end();
    w.param("builtin_endpoint_set", 0x0058).f32("builtin_endpoint_set.bits", 0x0000_0c3f).end();
    w.param("builtin_endpoint_qos", 0x0077).f32("builtin_endpoint_qos.bits", 1).end();
    w.param("metatraffic_unicast_locator", 0x0032).locator("metatraffic_unicast_locator", 7410).end();
    w.param("metatraffic_multicast_locator", 0x0033).locator("metatraffic_multicast_locator", 7400).end();
    w.param("default_unicast_locator", 0x0031).locator("default_unicast_locator", 7411).end();
    w.param("default_multicast_locator", 0x0048).locator("default_multicast_locator", 7401).end();
    w.param("lease_duration", 0x0002).duration("lease_duration", 100, 0).end();
    w.param("manual_liveliness_count", 0x0034).f32("manual_liveliness_count.value", 0).end();
    w.param("expects_inline_qos", 0x0043).raw(&[0, 0, 0, 0]).end();
    w.param("entity_name", 0x0062).string("entity_name.strlen", "participant").end();
    // DDS Security (read only with --features security): IdentityToken / PermissionsToken are DataHolders
    // = class_id, sequence<Property>, sequence<BinaryProperty>; ParticipantSecurityInfo = two masks
    for (name, pid) in [("identity_token", 0x1001u16), ("permissions_token", 0x1002)] {
      w.param(name, pid).string(&format!("{name}.class_id.strlen"), "DDS:Auth:PKI-DH:1.0").pad4()
        .f32(&format!("{name}.properties.count"), 1)
        .string(&format!("{name}.properties[0].name.strlen"), "dds.cert.sn").string(&format!("{name}.properties[0].value.strlen"), "CN=x").pad4()
        .f32(&format!("{name}.binary_properties.count"), 1)
        .string(&format!("{name}.binary_properties[0].name.strlen"), "c.id").pad4()
        .f32(&format!("{name}.binary_properties[0].value.len"), 3).raw(&[1, 2, 3]).end();
    }
    w.param("participant_security_info", 0x1005).f32("participant_security_info.attributes", 0x8000_0000).f32("participant_security_info.plugin_attributes", 0x8000_0000).end();
    common_params(&mut w);
    w.sentinel("sentinel");
    w
  }

  fn content_filter(w: &mut Wire) {
    w.param("content_filter", 0x0035)
      .string("content_filter.content_filtered_topic_name.strlen", "cft")
      .string("content_filter.related_topic_name.strlen", "Square")
      .string("content_filter.filter_class_name.strlen", "DDSSQL")
      .string("content_filter.filter_expression.strlen", "x > %0 and y < %1")
      .pad4()
      .f32("content_filter.expression_parameters.count", 2)
      .string("content_filter.expression_parameters[0].strlen", "10")
      .string("content_filter.expression_parameters[1].strlen", "200")
      .end();
  }

  fn reader_data_image(be: bool) -> Wire {
    let mut w = Wire::new(be);
    w.param("endpoint_guid", 0x005a).raw(&guid_bytes(0x11, [0, 0, 1, 0x07])).end();
    w.param("participant_guid", 0x0050).raw(&guid_bytes(0x11, [0, 0, 1, 0xc1])).end();
    w.param("topic_name", 0x0005).string("topic_name.strlen", "Square").end();
    w.param("type_name", 0x0007).string("type_name.strlen", "ShapeType").end();
    w.param("unicast_locator", 0x002f).locator("unicast_locator", 7411).end();
    w.param("multicast_locator", 0x0030).locator("multicast_locator", 7401).end();
    w.param("expects_inline_qos", 0x0043).raw(&[0, 0, 0, 0]).end();
    content_filter(&mut w);
    endpoint_qos(&mut w);
    common_params(&mut w);
    w.sentinel("sentinel");
    w
  }

  fn writer_data_image(be: bool) -> Wire {
    let mut w = Wire::new(be);
    w.param("endpoint_guid", 0x005a).raw(&guid_bytes(0x11, [0, 0, 1, 0x02])).end();
    w.param("participant_guid", 0x0050).raw(&guid_bytes(0x11, [0, 0, 1, 0xc1])).end();
    w.param("topic_name", 0x0005).string("topic_name.strlen", "Square").end();
    w.param("type_name", 0x0007).string("type_name.strlen", "ShapeType").end();
    w.param("unicast_locator", 0x002f).locator("unicast_locator", 7411).end();
    w.param("multicast_locator", 0x0030).locator("multicast_locator", 7401).end();
    w.param("group_entity_id", 0x0053).raw(&[0, 0, 1, 0x08]).end();
    w.param("type_max_size_serialized", 0x0060).f32("type_max_size_serialized.value", 64).end();
    endpoint_qos(&mut w);
    common_params(&mut w);
    w.sentinel("sentinel");
    w
  }

  fn topic_data_image(be: bool) -> Wire {
    let mut w = Wire::new(be);
    w.param("endpoint_guid", 0x005a).raw(&guid_bytes(0x11, [0, 0, 1, 0x0a])).end();
    w.param("topic_name", 0x0005).string("topic_name.strlen", "Square").end();
    w.param("type_name", 0x0007).string("type_name.strlen", "ShapeType").end();
    endpoint_qos(&mut w);
    common_params(&mut w);
    w.sentinel("sentinel");
    w
  }

  fn run_discovery<T>(entry: &str, image: fn(bool) -> Wire, parse: fn(&[u8], RepresentationIdentifier) -> Result<T, crate::serialization::pl_cdr_adapters::PlCdrDeserializeError>, stats: &mut Stats) {
    for be in [false, true] {
      let rep = if be { RepresentationIdentifier::PL_CDR_BE } else { RepresentationIdentifier::PL_CDR_LE };
      let base = image(be);
      let (r, u) = measure(|| parse(&base.b, rep));
      assert!(r.is_ok(), "test setup: the unmodified {entry} image (be={be}) is rejected: {:?}", r.err());
      drop(r);
      stats.judge(&label(entry, "unmodified"), &enc_name(be, be), 0, base.b.len(), u);
      // a parameter that claims the rest of the payload / more than the payload
      let mut variants: Vec<(String, u32, bool, Vec<u8>)> = mutations(&base, true).into_iter().map(|(f, _, v, vbe, b)| (f, v, vbe, b)).collect();
      for extra in [0xFFFCu16, 0xFFFF] {
        let mut w = Wire::new(be);
        w.u16(0x0072).u16(extra).raw(&[0; 8]);
        w.raw(&base.b);
        variants.push((format!("leading_type_object.length"), extra as u32, be, w.b));
      }
      for (field, value, vbe, bytes) in variants {
        let (r, u) = measure(|| catch_unwind(AssertUnwindSafe(|| parse(&bytes, rep))));
        assert!(r.is_ok(), "XC-WITNESS label=work.alloc.nopanic entry={entry} field={field} value={value} payload={:02x?}: from_pl_cdr_bytes panicked", bytes);
        if matches!(r, Ok(Ok(_))) { stats.deep += 1; }
        drop(r);
        stats.judge(&label(entry, &field), &enc_name(be, vbe), value, bytes.len(), u);
      }
    }
  }

  #[test]
  fn xc_alloc_discovery_payloads() {
    let mut stats = Stats::new(PAYLOAD);
    run_discovery("spdp", spdp_image, SpdpDiscoveredParticipantData::from_pl_cdr_bytes, &mut stats);
    run_discovery("reader_data", reader_data_image, DiscoveredReaderData::from_pl_cdr_bytes, &mut stats);
    run_discovery("writer_data", writer_data_image, DiscoveredWriterData::from_pl_cdr_bytes, &mut stats);
    run_discovery("topic_data", topic_data_image, DiscoveredTopicData::from_pl_cdr_bytes, &mut stats);
    assert!(stats.cases > 40_000 && stats.deep > 10_000, "vacuity guard: {} payloads, {} accepted", stats.cases, stats.deep);
    stats.finish("discovery payloads");
  }

  // With the security feature the same images also go through the readers that exist only there: the
  // hand-written Readable of qos::policy::Property (PID_PROPERTY_LIST), qos::policy::DataTag
  // (PID_DATA_TAGS, via the *BuiltinTopicDataSecure types), DataHolder (identity / permissions token).
  #[cfg(feature = "security")]
  #[test]
  fn xc_alloc_security_discovery_payloads() {
    use crate::security::types::{PublicationBuiltinTopicDataSecure, SubscriptionBuiltinTopicDataSecure};
    let mut stats = Stats::new(PAYLOAD);
    for be in [false, true] {
      let rep = if be { RepresentationIdentifier::PL_CDR_BE } else { RepresentationIdentifier::PL_CDR_LE };
      let d = SpdpDiscoveredParticipantData::from_pl_cdr_bytes(&spdp_image(be).b, rep).expect("spdp image");
      assert!(d.property.is_some() && d.identity_token.is_some() && d.permissions_token.is_some() && d.security_info.is_some(), "test setup: security parameters of the SPDP image are not read");
      let w = PublicationBuiltinTopicDataSecure::from_pl_cdr_bytes(&writer_data_image(be).b, rep).expect("writer image");
      assert!(w.data_tags.map_or(false, |t| t.tags.len() == 1), "test setup: PID_DATA_TAGS of the writer image is not read");
    }
    run_discovery("spdp", spdp_image, SpdpDiscoveredParticipantData::from_pl_cdr_bytes, &mut stats);
    run_discovery("publication_secure", writer_data_image, PublicationBuiltinTopicDataSecure::from_pl_cdr_bytes, &mut stats);
    run_discovery("subscription_secure", reader_data_image, SubscriptionBuiltinTopicDataSecure::from_pl_cdr_bytes, &mut stats);
    assert!(stats.cases > 30_000 && stats.deep > 10_000, "vacuity guard: {} payloads, {} accepted", stats.cases, stats.deep);
    stats.finish("discovery payloads (security feature)");
  }

  // ================================================================== c. plain CDR

  #[derive(Serialize, Deserialize, Debug, PartialEq)]
  struct UserType {
    id: u32,
    name: String,
    blob: Vec<u8>,
    words: Vec<String>,
    numbers: Vec<u64>,
  }

  fn pmd_image(be: bool) -> Wire {
    let mut w = Wire::new(be);
    w.raw(&[0x11; 12]).raw(&[0, 0, 0, 1]);
    w.f32("data.len", 4).raw(&[1, 2, 3, 4]);
    w
  }

  fn user_image(be: bool) -> Wire {
    let mut w = Wire::new(be);
    w.f32("id", 7);
    w.string("name.strlen", "abc").pad4();
    w.f32("blob.len", 5).raw(&[1, 2, 3, 4, 5]).pad4();
    w.f32("words.count", 2).string("words[0].strlen", "x").string("words[1].strlen", "yz").pad4();
    w.f32("numbers.count", 2);
    while w.b.len() % 8 != 0 { w.b.push(0); }
    w.raw(&[1, 0, 0, 0, 0, 0, 0, 0]).raw(&[0, 0, 0, 0, 0, 0, 0, 2]);
    w
  }

  fn run_cdr<T: serde::de::DeserializeOwned + 'static>(entry: &str, image: fn(bool) -> Wire, stats: &mut Stats) {
    for be in [false, true] {
      let rep = if be { RepresentationIdentifier::CDR_BE } else { RepresentationIdentifier::CDR_LE };
      let base = image(be);
      let (r, u) = measure(|| <CDRDeserializerAdapter<T> as DeserializerAdapter<T>>::from_bytes(&base.b, rep));
      assert!(r.is_ok(), "test setup: the unmodified {entry} image (be={be}) is rejected: {:?}", r.err());
      drop(r);
      stats.judge(&label(entry, "unmodified"), &enc_name(be, be), 0, base.b.len(), u);
      for (field, _, value, vbe, bytes) in mutations(&base, true) {
        let (r, u) = measure(|| catch_unwind(AssertUnwindSafe(|| <CDRDeserializerAdapter<T> as DeserializerAdapter<T>>::from_bytes(&bytes, rep))));
        assert!(r.is_ok(), "XC-WITNESS label=work.alloc.nopanic entry={entry} field={field} value={value} payload={:02x?}: the CDR deserializer panicked", bytes);
        if matches!(r, Ok(Ok(_))) { stats.deep += 1; }
        drop(r);
        stats.judge(&label(entry, &field), &enc_name(be, vbe), value, bytes.len(), u);
      }
    }
  }

  #[test]
  fn xc_alloc_cdr_payloads() {
    let mut stats = Stats::new(PAYLOAD);
    run_cdr::<ParticipantMessageData>("participant_message_data", pmd_image, &mut stats);
    run_cdr::<UserType>("cdr_user_type", user_image, &mut stats);
    assert!(stats.cases > 1_500 && stats.deep > 300, "vacuity guard: {} payloads, {} accepted", stats.cases, stats.deep);
    stats.finish("CDR payloads");
  }
}
