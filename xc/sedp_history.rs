//@ append: src/discovery/discovery.rs
// Executable contract of the SEDP glue of Discovery (C11) — bounded stand-in / witness search on the REAL code.
// Oracle (from the property statement): a remote endpoint that is announced becomes known and is notified to the
//   event loop — whatever else Discovery is doing when the announcement arrives.  History: the announcement of a
//   reader of participant Q sits UNREAD in the DCPSSubscription reader; a NEW participant P is discovered
//   (Discovery::process_discovered_participant_data -> handle_subscription_reader(Some(P))); then the
//   DISCOVERY_READER_DATA event is handled (handle_subscription_reader(None)).  Afterwards Q's reader must be known to
//   the DiscoveryDB and one ReaderUpdated must have gone to the event loop.  The pinned tree consumed the sample in
//   the first call (take semantics + filter by participant) without effect: finding F25, fixed in /repo.
// Harness: a SHADOW Discovery — Discovery::new on a real DomainParticipant creates its own DataReaders on the
//   built-in topics (they read the same topic caches with their own read pointers), with its own DiscoveryDB and its
//   own notification channel, so the real functions are driven step by step from the test thread; the announcement is
//   put into the real topic cache of DCPSSubscription as the RTPS Reader would (add_change +
//   mark_reliably_received_before).  Control test: the same history without P delivers the announcement.
// Bound: one announcement, one discovered participant, both orders of {P discovered, no P}.
#[cfg(test)]
mod verif_xc_sedp_history {
  // A SHADOW Discovery on a real DomainParticipant: `Discovery::new` on the same participant creates its own
  // DataReaders on the built-in topics (the RTPS endpoints exist already, the new DataReaders read the same topic
  // caches with their own read pointers), its own DiscoveryDB and its own notification channel - so the real
  // functions can be driven step by step from the test thread.
  use std::sync::{Arc, RwLock};

  use bytes::Bytes;
  use mio_extras::channel as mio_channel;

  use super::*;
  use crate::{
    dds::{ddsdata::DDSData, statusevents::sync_status_channel, with_key::datawriter::WriteOptions},
    discovery::{
      discovery_db::DiscoveryDB,
      sedp_messages::{DiscoveredReaderData, ReaderProxy, SubscriptionBuiltinTopicData},
    },
    messages::submessages::elements::serialized_payload::SerializedPayload,
    rtps::constant::DiscoveryNotificationType,
    serialization::pl_cdr_adapters::PlCdrSerialize,
    structure::{
      cache_change::CacheChange,
      guid::{EntityId, EntityKind, GuidPrefix, GUID},
      sequence_number::SequenceNumber,
      time::Timestamp,
    },
    DomainParticipant, QosPolicies, RepresentationIdentifier,
  };

  fn prefix(b: u8) -> GuidPrefix {
    GuidPrefix::new(&[b; 12])
  }

  #[test]
  fn xc_sedp_unread_announcement_survives_discovery_of_another_participant() {
    history(61, true);
  }
  // control: the same history without the discovery of P (the harness itself delivers the announcement)
  #[test]
  fn xc_sedp_unread_announcement_control() {
    history(62, false);
  }
  fn history(domain: u16, discover_p: bool) {
    let dp = DomainParticipant::new(domain).expect("participant");
    let (topic_updated_tx, _topic_updated_rx) = mio_channel::sync_channel::<()>(16);
    let (pstatus_tx, _pstatus_rx) = sync_status_channel(16).unwrap();
    let db = Arc::new(RwLock::new(DiscoveryDB::new(dp.guid(), topic_updated_tx, pstatus_tx.clone())));
    let (started_tx, _started_rx) = std::sync::mpsc::channel();
    let (updated_tx, updated_rx) = mio_channel::sync_channel::<DiscoveryNotificationType>(64);
    let (_cmd_tx, cmd_rx) = mio_channel::channel::<DiscoveryCommand>();
    let (_live_tx, live_rx) = mio_channel::channel::<GuidPrefix>();
    let mut d = Discovery::new(dp.weak_clone(), db.clone(), started_tx, updated_tx, cmd_rx, live_rx, pstatus_tx, None)
      .expect("shadow discovery");
    // drain what initialisation produced
    while updated_rx.try_recv().is_ok() {}

    // participant Q (known) announces a reader on topic "T": the sample sits UNREAD in the DCPSSubscription reader
    let q = prefix(0x51);
    let q_reader = GUID::new_with_prefix_and_id(q, EntityId::create_custom_entity_id([0, 0, 7], EntityKind::READER_NO_KEY_USER_DEFINED));
    let drd = DiscoveredReaderData {
      reader_proxy: ReaderProxy::new(q_reader, false, vec![], vec![]),
      subscription_topic_data: SubscriptionBuiltinTopicData::new(q_reader, None, "T".to_string(), "TT".to_string(), &QosPolicies::qos_none(), None),
      content_filter: None,
    };
    let bytes = drd.to_pl_cdr_bytes(RepresentationIdentifier::PL_CDR_LE).expect("serialize");
    let q_sedp_writer = GUID::new_with_prefix_and_id(q, EntityId::SEDP_BUILTIN_SUBSCRIPTIONS_WRITER);
    {
      let cache = dp.dds_cache();
      let cache = cache.read().unwrap();
      let tc = cache.get_existing_topic_cache("DCPSSubscription").expect("topic cache of DCPSSubscription");
      let mut tc = tc.lock().unwrap();
      tc.add_change(
        &Timestamp::now(),
        CacheChange::new(
          q_sedp_writer,
          SequenceNumber::from(1),
          WriteOptions::default(),
          DDSData::new(SerializedPayload { representation_identifier: RepresentationIdentifier::PL_CDR_LE, representation_options: [0, 0], value: Bytes::from(bytes.to_vec()) }),
        ),
      );
      tc.mark_reliably_received_before(q_sedp_writer, SequenceNumber::from(2));
    }

    // ... and before Discovery gets to it, a NEW participant P is discovered (SPDP)
    let mut p_data = SpdpDiscoveredParticipantData::from_local_participant(&dp, &None, Duration::from_secs(100));
    p_data.participant_guid = GUID::new_with_prefix_and_id(prefix(0x52), EntityId::PARTICIPANT);
    if discover_p {
      d.process_discovered_participant_data(&p_data);
    }

    // the DISCOVERY_READER_DATA_TOKEN event that announced Q's sample is handled now
    d.handle_subscription_reader(None);

    let known = !db.read().unwrap().readers_on_topic_and_participant("T", q).is_empty();
    let mut notified = false;
    while let Ok(n) = updated_rx.try_recv() {
      if let DiscoveryNotificationType::ReaderUpdated { discovered_reader_data } = n {
        if discovered_reader_data.reader_proxy.remote_reader_guid == q_reader {
          notified = true;
        }
      }
    }
    assert!(
      known && notified,
      "XC-WITNESS label=sedp.reader.consume history: reader {:?} of participant Q announced (unread sample in the DCPSSubscription reader); {}handle_subscription_reader(None): the announced reader is known to the DiscoveryDB: {}, ReaderUpdated sent to the event loop: {} - the announcement was consumed without effect",
      q_reader, if discover_p { "participant P discovered (process_discovered_participant_data -> handle_subscription_reader(Some(P))); " } else { "" }, known, notified
    );
  }
}
