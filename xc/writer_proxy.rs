//@ append: src/rtps/rtps_writer_proxy.rs
// Executable contract of RtpsWriterProxy (C01, C03) — bounded stand-in / witness search.
// Oracle = the `covered` model of unit writer_proxy, written from the property statement:
//   covered = {sn | handed over or declared unavailable};  every operation adds exactly the SNs it
//   names; ack_base is the least uncovered SN >= its old value and never moves back;
//   missing_seqnums(first,last) = ascending list of uncovered SNs in [max(first,ack_base), last], cut at 256.
// Bound: sequence numbers 0..=7 (observed 0..=9), every operation sequence of length <= 3 over
//   {DATA(sn), GAP-single(sn), GAP/HEARTBEAT range(a,b), HEARTBEAT first(s)}  (all argument values).
#[cfg(test)]
mod verif_xc_writer_proxy {
  use std::collections::BTreeSet;

  use super::*;
  use crate::structure::guid::{EntityId, GUID};

  const MAX_SN: i64 = 7;
  const OBS: i64 = 9;

  #[derive(Clone, Copy, Debug)]
  enum Op {
    Data(i64),
    Irr1(i64),
    Range(i64, i64),
    UpTo(i64),
  }

  #[derive(Clone, Debug)]
  struct Model {
    covered: BTreeSet<i64>, // within 0..=OBS+1 ; everything < 1 is covered from the start
    ack_base: i64,
  }
  impl Model {
    fn new() -> Self {
      let mut covered = BTreeSet::new();
      covered.insert(0);
      Model { covered, ack_base: 1 }
    }
    fn is_covered(&self, k: i64) -> bool { k < 1 || self.covered.contains(&k) }
    fn add(&mut self, ks: impl Iterator<Item = i64>) {
      for k in ks { if k >= 0 { self.covered.insert(k); } }
      while self.is_covered(self.ack_base) { self.ack_base += 1; }
    }
    fn apply(&mut self, op: Op) {
      match op {
        Op::Data(s) | Op::Irr1(s) => self.add(std::iter::once(s)),
        Op::Range(a, b) => { if a <= b { self.add(a..b) } }
        Op::UpTo(s) => { if 0 <= s { self.add(0..s) } }
      }
    }
    fn missing(&self, first: i64, last: i64) -> Vec<i64> {
      let lo = std::cmp::max(first, self.ack_base);
      (lo..=last).filter(|k| !self.is_covered(*k)).take(256).collect()
    }
  }

  fn sn(i: i64) -> SequenceNumber { SequenceNumber::new(i) }

  fn apply_real(wp: &mut RtpsWriterProxy, op: Op) {
    match op {
      Op::Data(s) => {
        // the reader glue only records DATA that is not ignored
        if !wp.should_ignore_change(sn(s)) { wp.received_changes_add(sn(s), Timestamp::ZERO); }
      }
      Op::Irr1(s) => wp.set_irrelevant_change(sn(s)),
      Op::Range(a, b) => wp.irrelevant_changes_range(sn(a), sn(b)),
      Op::UpTo(s) => wp.irrelevant_changes_up_to(sn(s)),
    }
  }

  fn all_ops() -> Vec<Op> {
    let mut v = vec![];
    for s in 1..=MAX_SN { v.push(Op::Data(s)); v.push(Op::Irr1(s)); }
    for a in 1..=MAX_SN { for b in a..=MAX_SN + 1 { v.push(Op::Range(a, b)); } }
    v.push(Op::Range(5, 3)); // negative range: must change nothing
    for s in 0..=MAX_SN { v.push(Op::UpTo(s)); }
    v
  }

  fn check_state(trace: &[Op], wp: &RtpsWriterProxy, m: &Model, prev_base: i64) {
    let base = i64::from(wp.all_ackable_before());
    assert!(base >= prev_base, "XC-WITNESS label=wp.mono ops={:?}: ack_base moved back from {} to {}", trace, prev_base, base);
    assert!(base == m.ack_base, "XC-WITNESS label=wp.frontier ops={:?}: ack_base is {} but the least sequence number neither received nor declared unavailable is {}", trace, base, m.ack_base);
    for k in 0..=OBS {
      let real = wp.should_ignore_change(sn(k));
      assert!(real == m.is_covered(k), "XC-WITNESS label=wp.covered ops={:?}: sequence number {} is {} by the proxy but the operations {} it", trace, k,
        if real { "treated as received/unavailable" } else { "treated as missing" }, if m.is_covered(k) { "did name" } else { "never named" });
    }
  }

  fn check_missing(trace: &[Op], wp: &RtpsWriterProxy, m: &Model) {
    for (first, last) in [(1, OBS), (0, 5), (3, 8), (4, 3), (6, 2), (2, 2)] {
      let real: Vec<i64> = wp.missing_seqnums(sn(first), sn(last)).into_iter().map(i64::from).collect();
      let want = m.missing(first, last);
      assert!(real == want, "XC-WITNESS label=acknack.missing ops={:?} heartbeat=({},{}): missing_seqnums = {:?}, really missing and advertised = {:?}", trace, first, last, real, want);
    }
  }

  fn new_proxy() -> RtpsWriterProxy { RtpsWriterProxy::new(GUID::GUID_UNKNOWN, vec![], vec![], EntityId::UNKNOWN) }

  #[test]
  fn xc_wp_sequences_len3() {
    let ops = all_ops();
    let mut n = 0u64;
    for &o1 in &ops {
      let mut wp1 = new_proxy();
      let mut m1 = Model::new();
      apply_real(&mut wp1, o1); m1.apply(o1);
      check_state(&[o1], &wp1, &m1, 1);
      check_missing(&[o1], &wp1, &m1);
      for &o2 in &ops {
        let mut wp2 = new_proxy();
        apply_real(&mut wp2, o1);
        let b1 = i64::from(wp2.all_ackable_before());
        let mut m2 = m1.clone();
        apply_real(&mut wp2, o2); m2.apply(o2);
        check_state(&[o1, o2], &wp2, &m2, b1);
        check_missing(&[o1, o2], &wp2, &m2);
        for &o3 in &ops {
          let mut wp3 = new_proxy();
          apply_real(&mut wp3, o1); apply_real(&mut wp3, o2);
          let b2 = i64::from(wp3.all_ackable_before());
          let mut m3 = m2.clone();
          apply_real(&mut wp3, o3); m3.apply(o3);
          check_state(&[o1, o2, o3], &wp3, &m3, b2);
          n += 1;
        }
      }
    }
    assert!(n > 100_000, "vacuity guard: only {} sequences enumerated", n);
  }

  #[test]
  fn xc_wp_missing_is_bounded_and_counts() {
    let mut wp = new_proxy();
    let got = wp.missing_seqnums(sn(1), sn(100_000));
    assert!(got.len() <= 256, "XC-WITNESS label=work.missing.len heartbeat=(1,100000): {} entries", got.len());
    assert!(got.first() == Some(&sn(1)), "XC-WITNESS label=acknack.missing heartbeat=(1,100000): lowest missing not first: {:?}", got.first());
    let c0 = wp.next_ack_nack_sequence_number();
    let c1 = wp.next_ack_nack_sequence_number();
    assert!(c1 == c0 + 1, "XC-WITNESS label=acknack.count: count went from {} to {}", c0, c1);
  }
}
