use vstd::prelude::*;
use vstd::std_specs::iter::{IteratorSpecImpl, IteratorSpec};
verus! {
pub struct Cnt { pub a: u8, pub b: u8 }
impl IteratorSpecImpl for Cnt {
    open spec fn obeys_prophetic_iter_laws(&self) -> bool { true }
    open spec fn remaining(&self) -> Seq<u8> { if self.a >= self.b { Seq::empty() } else { Seq::new((self.b - self.a) as nat, |i: int| (self.a + i) as u8) } }
}
impl Iterator for Cnt {
    type Item = u8;
    fn next(&mut self) -> (r: Option<u8>) {
        if self.a >= self.b { None } else { let x = self.a; self.a = self.a + 1; 
            proof { assert(IteratorSpec::remaining(&*self) =~= IteratorSpec::remaining(&*old(self)).skip(1)); }
            Some(x) }
    }
}
fn use_it(c: Cnt) -> (r: Vec<u16>) 
   ensures r.len() == IteratorSpec::remaining(&c).len(), forall|i: int| 0 <= i < r.len() ==> r[i] == IteratorSpec::remaining(&c)[i] as u16
{
    c.map(|e: u8| -> (o: u16) ensures o == e as u16 { e as u16 }).collect()
}
fn use_for(c: Cnt) -> (r: u64) 
   ensures r <= 255 * IteratorSpec::remaining(&c).len()
{
    let mut s: u64 = 0;
    for x in it: c invariant s <= 255 * it.index() { s = s + x as u64; }
    s
}
fn main() {}
}
