use vstd::prelude::*;
use core::ops::{Deref, DerefMut};
verus! {

// ---------- placeholders (R9) ----------
#[derive(Clone, Copy, PartialEq, Eq)] pub struct GUID(pub u128);
#[derive(Clone, Copy, PartialEq, Eq)] pub struct SequenceNumber(pub i64);
#[derive(Clone, Copy, PartialEq, Eq)] pub struct Timestamp(pub u64);
pub struct CacheChange { pub writer_guid: GUID, pub sequence_number: SequenceNumber }
#[verifier::external_body] pub struct Opaque { x: u8 }
pub struct DeserializedCacheChange { pub d: Opaque }
pub enum ReadError { Deserialization { reason: Opaque }, UnknownKey { details: Opaque }, Poisoned { reason: Opaque }, Internal { reason: Opaque } }
pub type ReadResult<T> = Result<T, ReadError>;
#[derive(Clone, Copy)] pub struct Decoder(pub u8);
#[verifier::external_body] pub struct TopicCache { x: u8 }
#[verifier::external_body] pub struct KeyMap { x: u8 }

// shim: BTreeMap<GUID, SequenceNumber>
#[verifier::external_body] pub struct SnMap { x: u8 }
impl View for SnMap { type V = Map<GUID, SequenceNumber>; uninterp spec fn view(&self) -> Map<GUID, SequenceNumber>; }
impl SnMap {
    #[verifier::external_body]
    pub fn insert(&mut self, k: GUID, v: SequenceNumber) -> (r: Option<SequenceNumber>) ensures final(self)@ == old(self)@.insert(k, v) { unimplemented!() }
}

pub struct ReadState { pub latest_instant: Timestamp, pub last_read_sn: SnMap, pub hash_to_key_map: KeyMap }
impl ReadState {
  fn get_sn_map_and_hash_map(&mut self) -> (r: (&mut SnMap, &mut KeyMap))
    ensures *r.0 == old(self).last_read_sn, *final(r.0) == final(self).last_read_sn, final(self).latest_instant == old(self).latest_instant
  {
    let ReadState { last_read_sn, hash_to_key_map, .. } = self;
    (last_read_sn, hash_to_key_map)
  }
}

// ---------- shims: Mutex / guards ----------
#[verifier::external_body] pub struct RSGuard<'a> { g: std::sync::MutexGuard<'a, ReadState> }
impl<'a> View for RSGuard<'a> { type V = ReadState; uninterp spec fn view(&self) -> ReadState; }
impl<'a> Deref for RSGuard<'a> { type Target = ReadState;
    #[verifier::external_body] fn deref(&self) -> (r: &ReadState) ensures *r == self@ { unimplemented!() } }
impl<'a> DerefMut for RSGuard<'a> {
    #[verifier::external_body] fn deref_mut(&mut self) -> (r: &mut ReadState) ensures *r == old(self)@, final(self)@ == *final(r) { unimplemented!() } }
#[verifier::external_body] pub struct RSMutex { m: std::sync::Mutex<ReadState> }
#[verifier::external_body] pub struct LockRes<'a> { g: RSGuard<'a> }
impl RSMutex { #[verifier::external_body] pub fn lock(&self) -> LockRes<'_> { unimplemented!() } }
impl<'a> LockRes<'a> { #[verifier::external_body] pub fn unwrap(self) -> RSGuard<'a> { unimplemented!() } }
#[verifier::external_body] pub struct TCGuard<'a> { g: std::sync::MutexGuard<'a, TopicCache> }
impl<'a> Deref for TCGuard<'a> { type Target = TopicCache;
    #[verifier::external_body] fn deref(&self) -> (r: &TopicCache) ensures *r == self.tc() { unimplemented!() } }
impl<'a> TCGuard<'a> { pub uninterp spec fn tc(&self) -> TopicCache; }

// ---------- the window function as an assumed contract ----------
// number of changes still beyond the read pointers
pub uninterp spec fn pending(tc: TopicCache, is_reliable: bool, latest: Timestamp, last_read: Map<GUID, SequenceNumber>) -> nat;
// advancing past a returned change strictly shrinks what is pending (monotone window)
#[verifier::external_body]
pub proof fn axiom_window_shrinks(tc: TopicCache, is_reliable: bool, latest: Timestamp, last_read: Map<GUID, SequenceNumber>, ts: Timestamp, cc: CacheChange)
    requires offered(tc, is_reliable, latest, last_read, ts, cc)
    ensures
        forall|l2: Timestamp| l2.0 >= latest.0 && l2.0 >= ts.0 ==> #[trigger] pending(tc, is_reliable, l2, last_read.insert(cc.writer_guid, cc.sequence_number)) < pending(tc, is_reliable, latest, last_read),
{ }
pub uninterp spec fn offered(tc: TopicCache, is_reliable: bool, latest: Timestamp, last_read: Map<GUID, SequenceNumber>, ts: Timestamp, cc: CacheChange) -> bool;

#[verifier::external_body] pub struct Undecoded<'a> { i: Box<dyn Iterator<Item = (Timestamp, &'a CacheChange)> + 'a> }
impl<'a> Undecoded<'a> {
    pub uninterp spec fn src(&self) -> (TopicCache, bool, Timestamp, Map<GUID, SequenceNumber>);
    #[verifier::external_body]
    pub fn next(&mut self) -> (r: Option<(Timestamp, &'a CacheChange)>)
        ensures match r { Some((ts, cc)) => offered(old(self).src().0, old(self).src().1, old(self).src().2, old(self).src().3, ts, *cc), None => true }
    { unimplemented!() }
}

pub struct SimpleDataReader { pub qos_reliable: bool, pub topic_cache: u8, pub read_state: RSMutex }

impl SimpleDataReader {
  #[verifier::external_body]
  fn acquire_the_topic_cache_guard(&self) -> TCGuard<'_> { unimplemented!() }

  #[verifier::external_body]
  fn try_take_undecoded<'a>(is_reliable: bool, topic_cache: &'a TopicCache, latest_instant: Timestamp, last_read_sn: &'a SnMap) -> (r: Undecoded<'a>)
    ensures r.src() == (*topic_cache, is_reliable, latest_instant, last_read_sn@)
  { unimplemented!() }

  #[verifier::external_body]
  fn deserialize_with(&self, timestamp: Timestamp, cc: &CacheChange, hash_to_key_map: &mut KeyMap, decoder: Decoder) -> ReadResult<DeserializedCacheChange>
  { unimplemented!() }
}


impl SimpleDataReader {
  pub fn try_take_one_with(&self, decoder: Decoder) -> ReadResult<Option<DeserializedCacheChange>>
  {
    let is_reliable = self.qos_reliable;

    let topic_cache = self.acquire_the_topic_cache_guard();

    let mut read_state_ref = self.read_state.lock().unwrap();
    let latest_instant = read_state_ref.latest_instant;
    let (last_read_sn, hash_to_key_map) = read_state_ref.get_sn_map_and_hash_map();

    // loop in case we get a sample that should be ignored, so we try next.
    loop 
      decreases pending(topic_cache.tc(), is_reliable, latest_instant, last_read_sn@)
    {
      let (timestamp, cc) =
        match Self::try_take_undecoded(is_reliable, &topic_cache, latest_instant, last_read_sn)
          .next()
        {
          None => return Ok(None), // no more data available right now
          Some((ts, cc)) => (ts, cc),
        };

      let result = self.deserialize_with(timestamp, cc, hash_to_key_map, decoder.clone());

      if let Err(ReadError::UnknownKey { .. }) = result {
        // ignore unknown key hash, continue looping
      } else {
        let writer_guid = cc.writer_guid;
        let sequence_number = cc.sequence_number;
        read_state_ref.latest_instant = tmax(latest_instant, timestamp);
        read_state_ref
          .last_read_sn
          .insert(writer_guid, sequence_number);
        return result.map(|x| Some(x));
      }
    }
  }
}
#[verifier::external_body] pub fn tmax(a: Timestamp, b: Timestamp) -> (r: Timestamp) ensures r.0 == (if a.0 >= b.0 { a.0 } else { b.0 }) { unimplemented!() }

fn main() {}
}
