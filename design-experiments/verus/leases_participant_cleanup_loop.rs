use vstd::prelude::*;
verus! {
#[derive(Clone, Copy, PartialEq, Eq)] pub struct GuidPrefix(pub u128);

// ---- time shims: std Instant / RustDDS Duration as ticks ----
#[derive(Clone, Copy)] pub struct Instant(pub u64);
#[derive(Clone, Copy)] pub struct StdDuration(pub u64);
impl Instant {
    #[verifier::external_body] pub fn now() -> Instant { unimplemented!() }
    // std: "returns zero duration if earlier is later than self" (saturating since 1.60)
    #[verifier::external_body] pub fn duration_since(&self, earlier: Instant) -> (r: StdDuration) ensures r.0 == (if self.0 >= earlier.0 { self.0 - earlier.0 } else { 0 }) { unimplemented!() }
}
#[derive(Clone, Copy)] pub struct Duration(pub i64);   // RustDDS ticks (seconds<<32 + fraction); derived Ord == tick order
impl Duration {
    pub const fn from_secs(s: i32) -> (r: Duration) ensures r.0 == (s as i64) * 0x1_0000_0000 { Duration((s as i64) * 0x1_0000_0000) }
    // stub: monotone conversion (the real arithmetic is checked separately / assumed)
    #[verifier::external_body] pub fn from_std(d: StdDuration) -> (r: Duration) ensures r.0 == conv(d.0) { unimplemented!() }
    #[verifier::external_body] pub fn le(&self, o: &Duration) -> (r: bool) ensures r == (self.0 <= o.0) { unimplemented!() }
    #[verifier::external_body] pub fn add(self, o: Duration) -> (r: Duration) requires i64::MIN <= self.0 + o.0 <= i64::MAX ensures r.0 == self.0 + o.0 { unimplemented!() }
}
pub uninterp spec fn conv(std_ticks: u64) -> i64;

pub const DEFAULT_PARTICIPANT_LEASE_DURATION: Duration = Duration(60 * 0x1_0000_0000);
pub const PARTICIPANT_LEASE_DURATION_TOLERANCE: Duration = Duration(0);

pub struct SpdpDiscoveredParticipantData { pub lease_duration: Option<Duration> }
pub enum LostReason { Timeout { lease: Duration, elapsed: Duration } }

// ---- shim maps ----
#[verifier::external_body] pub struct PMap { m: u8 }
impl View for PMap { type V = Map<GuidPrefix, SpdpDiscoveredParticipantData>; uninterp spec fn view(&self) -> Map<GuidPrefix, SpdpDiscoveredParticipantData>; }
#[verifier::external_body] pub struct PIter<'a> { m: &'a u8 }
impl<'a> PIter<'a> {
    pub uninterp spec fn rem(&self) -> Seq<GuidPrefix>;
    pub uninterp spec fn src(&self) -> Map<GuidPrefix, SpdpDiscoveredParticipantData>;
    #[verifier::external_body]
    pub fn next(&mut self) -> (r: Option<(&'a GuidPrefix, &'a SpdpDiscoveredParticipantData)>)
        ensures final(self).src() == old(self).src(),
            match r { None => old(self).rem().len() == 0 && final(self).rem() == old(self).rem(),
                      Some((k, v)) => old(self).rem().len() > 0 && *k == old(self).rem()[0] && old(self).src().contains_key(*k) && *v == old(self).src()[*k] && final(self).rem() == old(self).rem().skip(1) }
    { unimplemented!() }
}
impl PMap {
    // (&map).into_iter(): every key exactly once
    #[verifier::external_body]
    pub fn iter(&self) -> (r: PIter<'_>)
        ensures r.src() == self@, r.rem().no_duplicates(), forall|k: GuidPrefix| self@.contains_key(k) <==> r.rem().contains(k)
    { unimplemented!() }
}
#[verifier::external_body] pub struct LMap { m: u8 }
impl View for LMap { type V = Map<GuidPrefix, Instant>; uninterp spec fn view(&self) -> Map<GuidPrefix, Instant>; }
impl LMap {
    #[verifier::external_body]
    pub fn get(&self, k: &GuidPrefix) -> (r: Option<&Instant>) ensures match r { None => !self@.contains_key(*k), Some(v) => self@.contains_key(*k) && *v == self@[*k] } { unimplemented!() }
}

pub struct DiscoveryDB { pub participant_proxies: PMap, pub participant_last_life_signs: LMap }

pub open spec fn lease_of(sp: SpdpDiscoveredParticipantData) -> int { match sp.lease_duration { Some(d) => d.0 as int, None => 60int * 0x1_0000_0000int } }
// the statement: lost iff silent for longer than the lease
pub open spec fn timed_out(db: &DiscoveryDB, now: Instant, g: GuidPrefix) -> bool {
    db.participant_proxies@.contains_key(g) && db.participant_last_life_signs@.contains_key(g)
    && conv(if now.0 >= db.participant_last_life_signs@[g].0 { (now.0 - db.participant_last_life_signs@[g].0) as u64 } else { 0 }) > lease_of(db.participant_proxies@[g])
}

impl DiscoveryDB {
  #[verifier::external_body]
  pub fn remove_participant(&mut self, guid_prefix: GuidPrefix, active_disposal: bool) { unimplemented!() }

  pub fn participant_cleanup(&mut self) -> (r: (Vec<(GuidPrefix, LostReason)>, Ghost<Instant>))
    requires forall|g: GuidPrefix| old(self).participant_proxies@.contains_key(g) ==> 0 <= lease_of(old(self).participant_proxies@[g]) < i64::MAX
  {
    let inow = Instant::now();

    let mut to_remove: Vec<(GuidPrefix, LostReason)> = Vec::new();
    let mut it_0 = self.participant_proxies.iter();
    let ghost all = it_0.rem();
    let ghost mut idx: int = 0;
    loop
      invariant_except_break it_0.rem() == all.skip(idx),
      invariant 0 <= idx <= all.len(), it_0.src() == self.participant_proxies@, *self == *old(self),
        forall|g: GuidPrefix| self.participant_proxies@.contains_key(g) ==> 0 <= lease_of(self.participant_proxies@[g]) < i64::MAX,
        // exactly the timed-out ones among those visited so far
        forall|i: int| 0 <= i < to_remove@.len() ==> timed_out(self, inow, (#[trigger] to_remove@[i]).0),
        forall|j: int| 0 <= j < idx && timed_out(self, inow, #[trigger] all[j]) ==> exists|i: int| 0 <= i < to_remove@.len() && (#[trigger] to_remove@[i]).0 == all[j],
      ensures idx == all.len(),
      decreases all.len() - idx
    {
      let ghost old_rm = to_remove@;
      match it_0.next() { None => break, Some((guid_r, sp)) => {
      let guid = *guid_r;
      let lease_duration = sp
        .lease_duration
        .unwrap_or(DEFAULT_PARTICIPANT_LEASE_DURATION);
      match self.participant_last_life_signs.get(&guid) {
        Some(last_life_r) => {
          let last_life = *last_life_r;
          // keep, if duration not exceeded
          let elapsed = Duration::from_std(inow.duration_since(last_life));
          if elapsed.le(&lease_duration.add(PARTICIPANT_LEASE_DURATION_TOLERANCE)) {
            // No timeout yet, we keep this, so do nothing.
          } else {
            to_remove.push((
              guid,
              LostReason::Timeout {
                lease: lease_duration,
                elapsed,
              },
            ));
            proof { assert(to_remove@[to_remove@.len() - 1].0 == guid); 
                    assert forall|i: int| 0 <= i < to_remove@.len() implies timed_out(self, inow, (#[trigger] to_remove@[i]).0) by { if i < old_rm.len() { assert(to_remove@[i] == old_rm[i]); } }
            }
          }
        }
        None => {
        }
      } // match
      proof {
          assert(all[idx] == guid);
          assert forall|j: int| 0 <= j < idx + 1 && timed_out(self, inow, #[trigger] all[j]) implies exists|i: int| 0 <= i < to_remove@.len() && (#[trigger] to_remove@[i]).0 == all[j] by {
              if j < idx { let i = choose|i: int| 0 <= i < old_rm.len() && (#[trigger] old_rm[i]).0 == all[j]; assert(to_remove@[i] == old_rm[i]); }
              else { assert(to_remove@[to_remove@.len() - 1].0 == guid); }
          }
          idx = idx + 1;
      }
      }}
    } // for
    (to_remove, Ghost(inow))
  }
}
fn main() {}
}
