use vstd::prelude::*;
use vstd::std_specs::cmp::*;
use vstd::std_specs::iter::IteratorSpec;
use core::cmp::Ordering;
use core::ops::Bound;
use core::ops::Bound::{Included, Unbounded};
use std::cmp::max;
verus! {

// ---------- template: SequenceNumber (struct text extracted, derives replaced) ----------
#[derive(Clone, Copy)]
pub struct SequenceNumber(pub i64);

impl PartialEqSpecImpl for SequenceNumber {
    open spec fn obeys_eq_spec() -> bool { true }
    open spec fn eq_spec(&self, other: &Self) -> bool { self.0 == other.0 }
}
impl PartialEq for SequenceNumber { fn eq(&self, other: &Self) -> (r: bool) { self.0 == other.0 } }
impl Eq for SequenceNumber {}
impl PartialOrdSpecImpl for SequenceNumber {
    open spec fn obeys_partial_cmp_spec() -> bool { true }
    open spec fn partial_cmp_spec(&self, other: &Self) -> Option<Ordering> {
        if self.0 < other.0 { Some(Ordering::Less) } else if self.0 == other.0 { Some(Ordering::Equal) } else { Some(Ordering::Greater) }
    }
}
impl PartialOrd for SequenceNumber {
    fn partial_cmp(&self, other: &Self) -> (r: Option<Ordering>) {
        if self.0 < other.0 { Some(Ordering::Less) } else if self.0 == other.0 { Some(Ordering::Equal) } else { Some(Ordering::Greater) }
    }
}
impl vstd::std_specs::ops::AddSpecImpl<SequenceNumber> for SequenceNumber {
    open spec fn obeys_add_spec() -> bool { true }
    open spec fn add_req(self, rhs: SequenceNumber) -> bool { i64::MIN <= self.0 + rhs.0 <= i64::MAX }
    open spec fn add_spec(self, rhs: SequenceNumber) -> SequenceNumber { SequenceNumber((self.0 + rhs.0) as i64) }
}
impl core::ops::Add for SequenceNumber {
    type Output = SequenceNumber;
    fn add(self, rhs: SequenceNumber) -> SequenceNumber { SequenceNumber(self.0 + rhs.0) }
}
impl vstd::std_specs::ops::SubSpecImpl<SequenceNumber> for SequenceNumber {
    open spec fn obeys_sub_spec() -> bool { true }
    open spec fn sub_req(self, rhs: SequenceNumber) -> bool { i64::MIN <= self.0 - rhs.0 <= i64::MAX }
    open spec fn sub_spec(self, rhs: SequenceNumber) -> SequenceNumber { SequenceNumber((self.0 - rhs.0) as i64) }
}
impl core::ops::Sub for SequenceNumber {
    type Output = SequenceNumber;
    fn sub(self, rhs: SequenceNumber) -> SequenceNumber { SequenceNumber(self.0 - rhs.0) }
}
impl OrdSpecImpl for SequenceNumber {
    open spec fn obeys_cmp_spec() -> bool { true }
    open spec fn cmp_spec(&self, other: &Self) -> Ordering {
        if self.0 < other.0 { Ordering::Less } else if self.0 == other.0 { Ordering::Equal } else { Ordering::Greater }
    }
}
impl Ord for SequenceNumber {
    fn cmp(&self, other: &Self) -> (r: Ordering) {
        if self.0 < other.0 { Ordering::Less } else if self.0 == other.0 { Ordering::Equal } else { Ordering::Greater }
    }
}
impl SequenceNumber {
  pub fn new(value: i64) -> (r: Self) ensures r.0 == value { Self::from(value) }
  pub fn range_inclusive(begin: Self, end: Self) -> (r: SequenceNumberRange) ensures r.begin == begin, r.end == end {
    SequenceNumberRange::new(begin, end)
  }
}
impl vstd::std_specs::convert::FromSpecImpl<i64> for SequenceNumber {
    open spec fn obeys_from_spec() -> bool { true }
    open spec fn from_spec(v: i64) -> Self { SequenceNumber(v) }
}
impl From<i64> for SequenceNumber {
  fn from(value: i64) -> (r: Self) ensures r.0 == value { Self(value) }
}

#[derive(Clone, Copy)]
pub struct SequenceNumberRange {
  pub begin: SequenceNumber,
  pub end: SequenceNumber,
}

impl SequenceNumberRange {
  pub fn new(begin: SequenceNumber, end: SequenceNumber) -> (r: Self) ensures r.begin == begin, r.end == end {
    Self { begin, end }
  }

  pub fn begin(&self) -> (r: SequenceNumber) ensures r == self.begin {
    self.begin
  }

  pub fn end(&self) -> (r: SequenceNumber) ensures r == self.end {
    self.end
  }
}

impl SequenceNumberRange {
  pub open spec fn count(&self) -> int { if self.begin.0 > self.end.0 { 0 } else { self.end.0 - self.begin.0 + 1 } }
  fn next(&mut self) -> (r: Option<SequenceNumber>)
    requires old(self).end.0 < i64::MAX,
    ensures
        final(self).end == old(self).end,
        match r {
            None => old(self).begin.0 > old(self).end.0 && final(self).begin == old(self).begin,
            Some(b) => b == old(self).begin && old(self).begin.0 <= old(self).end.0 && final(self).begin.0 == old(self).begin.0 + 1,
        }
  {
    if self.begin > self.end {
      None
    } else {
      let b = self.begin;
      self.begin = b + SequenceNumber::new(1);
      Some(b)
    }
  }
}


pub assume_specification<T: Ord + core::marker::Destruct>[ std::cmp::max ](a: T, b: T) -> (r: T)
    ensures r == (if a.cmp_spec(&b) == Ordering::Greater { a } else { b });

// ---------- template: BTreeMap shim with contracts ----------
#[verifier::external_body]
#[verifier::reject_recursive_types(V)]
pub struct BTreeMap<V> { inner: std::collections::BTreeMap<i64, V> }

#[verifier::external_body]
#[verifier::reject_recursive_types(V)]
pub struct Range<'a, V> { inner: std::collections::btree_map::Range<'a, i64, V> }

pub open spec fn in_bounds(k: i64, lo: Bound<&SequenceNumber>, hi: Bound<&SequenceNumber>) -> bool {
    (match lo { Bound::Included(l) => l.0 <= k, Bound::Excluded(l) => l.0 < k, Bound::Unbounded => true })
    && (match hi { Bound::Included(h) => k <= h.0, Bound::Excluded(h) => k < h.0, Bound::Unbounded => true })
}

pub trait RangeBounds {
    spec fn lo(&self) -> Bound<&SequenceNumber>;
    spec fn hi(&self) -> Bound<&SequenceNumber>;
    spec fn nonneg(&self) -> bool;
}
impl<'b> RangeBounds for (Bound<&'b SequenceNumber>, Bound<&'b SequenceNumber>) {
    open spec fn lo(&self) -> Bound<&SequenceNumber> { self.0 }
    open spec fn hi(&self) -> Bound<&SequenceNumber> { self.1 }
    open spec fn nonneg(&self) -> bool { 
        match (self.0, self.1) {
            (Bound::Included(a), Bound::Included(b)) => a.0 <= b.0,
            (Bound::Included(a), Bound::Excluded(b)) => a.0 <= b.0,
            (Bound::Excluded(a), Bound::Included(b)) => a.0 <= b.0,
            (Bound::Excluded(a), Bound::Excluded(b)) => a.0 < b.0,
            _ => true,
        }
    }
}
impl RangeBounds for SequenceNumberRange {
    open spec fn lo(&self) -> Bound<&SequenceNumber> { Bound::Included(&self.begin) }
    open spec fn hi(&self) -> Bound<&SequenceNumber> { Bound::Included(&self.end) }
    open spec fn nonneg(&self) -> bool { self.begin.0 <= self.end.0 }
}
impl<V> View for BTreeMap<V> { type V = Map<i64, V>; uninterp spec fn view(&self) -> Map<i64, V>; }

impl<'a, V> Range<'a, V> {
    pub uninterp spec fn rem(&self) -> Seq<(i64, V)>;

    // Iterator::map + collect on a Range, restricted to closures that project the key
    #[verifier::external_body]
    pub fn map<F: Fn((&'a SequenceNumber, &'a V)) -> SequenceNumber>(self, f: F) -> (r: MapRange)
        requires forall|k: &'a SequenceNumber, v: &'a V| f.requires(((k, v),)),
        ensures r.items().len() == self.rem().len(),
                forall|i: int| 0 <= i < self.rem().len() ==> f.ensures(((&SequenceNumber(self.rem()[i].0), &self.rem()[i].1),), #[trigger] r.items()[i]),
    { unimplemented!() }

    #[verifier::external_body]
    pub fn next(&mut self) -> (r: Option<(&'a SequenceNumber, &'a V)>)
        ensures
            match r {
                None => old(self).rem().len() == 0 && final(self).rem() == old(self).rem(),
                Some((k, v)) => old(self).rem().len() > 0 && (k.0, *v) == old(self).rem()[0] && final(self).rem() == old(self).rem().skip(1),
            }
    { unimplemented!() }
}

#[verifier::external_body]
pub struct MapRange { v: Vec<SequenceNumber> }
impl MapRange {
    pub uninterp spec fn items(&self) -> Seq<SequenceNumber>;
    #[verifier::external_body]
    pub fn collect(self) -> (r: Vec<SequenceNumber>) ensures r@ == self.items() { unimplemented!() }
}
pub open spec fn is_range_of<V>(s: Seq<(i64, V)>, m: Map<i64, V>, lo: Bound<&SequenceNumber>, hi: Bound<&SequenceNumber>) -> bool {
    &&& forall|i: int, j: int| 0 <= i < j < s.len() ==> s[i].0 < s[j].0
    &&& forall|i: int| 0 <= i < s.len() ==> #[trigger] m.contains_key(s[i].0) && m[s[i].0] == s[i].1 && in_bounds(s[i].0, lo, hi)
    &&& forall|k: i64| #[trigger] m.contains_key(k) && in_bounds(k, lo, hi) ==> exists|i: int| 0 <= i < s.len() && s[i].0 == k
}

impl<V> BTreeMap<V> {
    #[verifier::external_body]
    pub fn new() -> (r: Self) ensures r@ == Map::<i64, V>::empty() { unimplemented!() }

    #[verifier::external_body]
    pub fn insert(&mut self, k: SequenceNumber, v: V) -> (r: Option<V>)
        ensures final(self)@ == old(self)@.insert(k.0, v),
    { unimplemented!() }

    #[verifier::external_body]
    pub fn contains_key(&self, k: &SequenceNumber) -> (r: bool)
        ensures r == self@.contains_key(k.0),
    { unimplemented!() }

    #[verifier::external_body]
    pub fn range<'a, R: RangeBounds>(&'a self, r: R) -> (it: Range<'a, V>)
        requires r.nonneg(),   // std panics "range start is greater than range end"
        ensures is_range_of(it.rem(), self@, r.lo(), r.hi())
    { unimplemented!() }

    // "Splits the collection into two at the given key. Returns everything after the given key, including the key."
    #[verifier::external_body]
    pub fn split_off(&mut self, k: &SequenceNumber) -> (r: Self)
        ensures
            forall|x: i64| #[trigger] final(self)@.contains_key(x) <==> (old(self)@.contains_key(x) && x < k.0),
            forall|x: i64| #[trigger] r@.contains_key(x) <==> (old(self)@.contains_key(x) && x >= k.0),
            forall|x: i64| final(self)@.contains_key(x) ==> final(self)@[x] == old(self)@[x],
            forall|x: i64| r@.contains_key(x) ==> r@[x] == old(self)@[x],
    { unimplemented!() }

    #[verifier::external_body]
    pub fn append(&mut self, other: &mut Self)
        ensures
            final(self)@ == old(self)@.union_prefer_right(old(other)@),
            final(other)@ == Map::<i64, V>::empty(),
    { unimplemented!() }
}

// ---------- extracted: RtpsWriterProxy (fields pruned to those used) ----------
pub struct Timestamp { pub t: u64 }

pub struct RtpsWriterProxy {
  pub changes: BTreeMap<Option<Timestamp>>,
  pub ack_base: SequenceNumber,
}

impl RtpsWriterProxy {
  pub closed spec fn inv(&self) -> bool {
      !self.changes@.contains_key(self.ack_base.0)
  }

  fn advance_ack_base(&mut self)
      requires old(self).ack_base.0 < i64::MAX, // TODO
      ensures
          final(self).changes@ == old(self).changes@,
          final(self).ack_base.0 >= old(self).ack_base.0,
          forall|k: i64| old(self).ack_base.0 <= k < final(self).ack_base.0 ==> old(self).changes@.contains_key(k),
          !final(self).changes@.contains_key(final(self).ack_base.0),
  {
    // Start searching from current ack_base
    let mut test_sn = self.ack_base;

    let mut iter = self.changes.range((Included(&self.ack_base), Unbounded));
    let ghost all = iter.rem();
    let ghost base0 = self.ack_base.0;
    let ghost mut idx: int = 0;
    loop
        invariant_except_break
            iter.rem() == all.skip(idx),
        invariant
            self.changes@ == old(self).changes@,
            is_range_of(all, self.changes@, Included(&SequenceNumber(base0)), Unbounded),
            0 <= idx <= all.len(),
            test_sn.0 == base0 + idx,
            self.ack_base.0 == test_sn.0,
            base0 == old(self).ack_base.0,
            forall|i: int| 0 <= i < idx ==> (#[trigger] all[i]).0 == base0 + i,
        ensures
            idx == all.len() || all[idx].0 != base0 + idx,
        decreases all.len() - idx,
    {
      match iter.next() {
        None => { break; }
        Some((sn__r, _what)) => {
          let sn = *sn__r;
          if sn == test_sn {
            assume(test_sn.0 < i64::MAX);
            test_sn = test_sn + SequenceNumber::new(1);
          } else {
            break;
          }
          self.ack_base = test_sn;
          proof { idx = idx + 1; }
        }
      }
    }
    proof {
        assert forall|k: i64| base0 <= k < self.ack_base.0 implies old(self).changes@.contains_key(k) by {
            let i = k - base0;
            assert(all[i].0 == k);
            assert(self.changes@.contains_key(all[i].0));
        }
        if self.changes@.contains_key(self.ack_base.0) {
            assert(in_bounds(self.ack_base.0, Included(&SequenceNumber(base0)), Unbounded));
            let i = choose|i: int| 0 <= i < all.len() && all[i].0 == self.ack_base.0;
            if i < idx { assert(all[i].0 == base0 + i); }
            else if i > idx { 
                assert(all[idx].0 < all[i].0);
                if idx > 0 { assert(all[idx-1].0 < all[idx].0); assert(all[idx-1].0 == base0 + idx - 1); }
                else { assert(self.changes@.contains_key(all[0].0)); assert(in_bounds(all[0].0, Included(&SequenceNumber(base0)), Unbounded)); }
            }
        }
    }
  }
}


impl RtpsWriterProxy {
  // Check if we have already received this sequence number
  // or it has been marked as not_available
  pub fn should_ignore_change(&self, seqnum: SequenceNumber) -> (r: bool)
      ensures r == (seqnum.0 < self.ack_base.0 || self.changes@.contains_key(seqnum.0))
  {
    seqnum < self.ack_base || self.changes.contains_key(&seqnum)
  }

  pub fn missing_seqnums(
    &self,
    hb_first_sn: SequenceNumber,
    hb_last_sn: SequenceNumber,
  ) -> (r: Vec<SequenceNumber>)
    requires hb_last_sn.0 < i64::MAX - 1,
    ensures
        hb_first_sn.0 > hb_last_sn.0 ==> r@.len() == 0,
        forall|i: int| 0 <= i < r@.len() ==> hb_first_sn.0 <= (#[trigger] r@[i]).0 <= hb_last_sn.0 && self.ack_base.0 <= r@[i].0 && !self.changes@.contains_key(r@[i].0),
        forall|i: int, j: int| 0 <= i < j < r@.len() ==> r@[i].0 < r@[j].0,
        forall|m: i64| hb_first_sn.0 <= m <= hb_last_sn.0 && self.ack_base.0 <= m && !self.changes@.contains_key(m) ==> exists|i: int| 0 <= i < r@.len() && (#[trigger] r@[i]).0 == m,
  {
    // Need to verify first <= last, or BTreeMap::range will crash
    if hb_first_sn > hb_last_sn {
      if hb_first_sn > hb_last_sn + SequenceNumber::from(1) {
      } else {
        // first == last+1
      }
      return vec![];
    }

    let mut missing_seqnums: Vec<SequenceNumber> = Vec::with_capacity(32); // out of hat value

    let relevant_interval = SequenceNumber::range_inclusive(
      max(hb_first_sn, self.ack_base), // ignore those that we already have
      hb_last_sn,
    );
    let ghost lo = relevant_interval.begin.0;
    let ghost last = hb_last_sn.0;

    // iterator over known Received and Not_available changes.
    let known: Vec<SequenceNumber> =
      // again check for negative intervals, or BTreeMap::range will crash
      if relevant_interval.begin() <= relevant_interval.end() {
        self.changes
          .range( relevant_interval )
          .map(|e: (&SequenceNumber, &Option<Timestamp>)| -> (o: SequenceNumber) ensures o == *e.0 { *e.0 })
          .collect()
      } else { vec![] };
    proof {
        assert(lo == if hb_first_sn.0 > self.ack_base.0 { hb_first_sn.0 } else { self.ack_base.0 });
        // K: ascending, exactly the keys of changes in [lo, last]
        assert(forall|a: int, b: int| 0 <= a < b < known@.len() ==> known@[a].0 < known@[b].0);
        if lo <= last {
            let rem = choose|rem: Seq<(i64, Option<Timestamp>)>| rem.len() == known@.len() && is_range_of(rem, self.changes@, relevant_interval.lo(), relevant_interval.hi())
                && (forall|i: int| 0 <= i < rem.len() ==> (#[trigger] known@[i]).0 == rem[i].0);
            assert forall|a: int| 0 <= a < known@.len() implies lo <= (#[trigger] known@[a]).0 <= last && self.changes@.contains_key(known@[a].0) by {
                assert(self.changes@.contains_key(rem[a].0));
            }
            assert forall|k: i64| lo <= k <= last && self.changes@.contains_key(k) implies exists|a: int| 0 <= a < known@.len() && (#[trigger] known@[a]).0 == k by {
                assert(in_bounds(k, relevant_interval.lo(), relevant_interval.hi()));
                let a = choose|a: int| 0 <= a < rem.len() && rem[a].0 == k;
                assert(known@[a].0 == k);
            }
        }
    }
    let mut known_iter = known.iter();
    let mut known_head = known_iter.next();
    let ghost mut ki: int = 0;

    // Iterate over all SequenceNumbers (indices) in the advertised range.
    let mut it_0 = relevant_interval;
    loop 
      invariant
        it_0.end.0 == last, lo <= it_0.begin.0 <= last + 1 || (lo > last && it_0.begin.0 == lo),
        last < i64::MAX - 1,
        0 <= ki <= known@.len(),
        ki < known@.len() ==> known_head == Some(&known@[ki]) && IteratorSpec::remaining(&known_iter).len() == known@.len() - ki - 1
             && (forall|t: int| 0 <= t < known@.len() - ki - 1 ==> *IteratorSpec::remaining(&known_iter)[t] == known@[ki + 1 + t]),
        ki == known@.len() ==> known_head.is_none() && IteratorSpec::remaining(&known_iter).len() == 0,
        forall|a: int, b: int| 0 <= a < b < known@.len() ==> known@[a].0 < known@[b].0,
        forall|a: int| 0 <= a < known@.len() ==> lo <= (#[trigger] known@[a]).0 <= last && self.changes@.contains_key(known@[a].0),
        forall|k: i64| lo <= k <= last && self.changes@.contains_key(k) ==> exists|a: int| 0 <= a < known@.len() && (#[trigger] known@[a]).0 == k,
        forall|a: int| 0 <= a < ki ==> (#[trigger] known@[a]).0 < it_0.begin.0,
        ki < known@.len() ==> known@[ki].0 >= it_0.begin.0,
        forall|i: int| 0 <= i < missing_seqnums@.len() ==> lo <= (#[trigger] missing_seqnums@[i]).0 < it_0.begin.0 && !self.changes@.contains_key(missing_seqnums@[i].0),
        forall|i: int, j: int| 0 <= i < j < missing_seqnums@.len() ==> missing_seqnums@[i].0 < missing_seqnums@[j].0,
        forall|m: i64| lo <= m < it_0.begin.0 && m <= last && !self.changes@.contains_key(m) ==> exists|i: int| 0 <= i < missing_seqnums@.len() && (#[trigger] missing_seqnums@[i]).0 == m,
      ensures
        it_0.begin.0 > last,
      decreases it_0.count()
    {
      let ghost old_missing = missing_seqnums@;
      match it_0.next() { None => break, Some(s) => {
      match known_head {
        None => { missing_seqnums.push(s);
            proof { 
                if self.changes@.contains_key(s.0) { let a = choose|a: int| 0 <= a < known@.len() && (#[trigger] known@[a]).0 == s.0; assert(known@[a].0 < s.0); }
                assert(missing_seqnums@[missing_seqnums@.len() - 1] == s);
                assert forall|m: i64| lo <= m < it_0.begin.0 && m <= last && !self.changes@.contains_key(m) implies exists|i: int| 0 <= i < missing_seqnums@.len() && (#[trigger] missing_seqnums@[i]).0 == m by {
                    if m == s.0 { assert(missing_seqnums@[missing_seqnums@.len() - 1].0 == m); }
                    else { let i = choose|i: int| 0 <= i < old_missing.len() && (#[trigger] old_missing[i]).0 == m; assert(missing_seqnums@[i] == old_missing[i]); }
                }
            } 
        }, // no known changes left => s is missing
        Some(known_sn) => {
          // there are known changes left
          if *known_sn == s {
            known_head = known_iter.next();
            proof { assert(self.changes@.contains_key(known@[ki].0)); ki = ki + 1; }
          } else {
            missing_seqnums.push(s);
            proof { 
                if self.changes@.contains_key(s.0) { let a = choose|a: int| 0 <= a < known@.len() && (#[trigger] known@[a]).0 == s.0; 
                    if a < ki { assert(known@[a].0 < s.0); } else if a > ki { assert(known@[ki].0 < known@[a].0); } }
                assert(missing_seqnums@[missing_seqnums@.len() - 1] == s);
                assert forall|m: i64| lo <= m < it_0.begin.0 && m <= last && !self.changes@.contains_key(m) implies exists|i: int| 0 <= i < missing_seqnums@.len() && (#[trigger] missing_seqnums@[i]).0 == m by {
                    if m == s.0 { assert(missing_seqnums@[missing_seqnums@.len() - 1].0 == m); }
                    else { let i = choose|i: int| 0 <= i < old_missing.len() && (#[trigger] old_missing[i]).0 == m; assert(missing_seqnums@[i] == old_missing[i]); }
                }
            }
          }
        }
      }
      }}
    }

    missing_seqnums
  }
}

fn main() {}
} // verus!
