use vstd::prelude::*;
verus! {

// ---------- placeholders ----------
#[derive(Clone, Copy, PartialEq, Eq, Structural)] pub struct GuidPrefix(pub u128);
impl GuidPrefix { pub const UNKNOWN: GuidPrefix = GuidPrefix(0); }
#[derive(Clone, Copy, PartialEq, Eq, Structural)] pub struct EntityId(pub u32);
impl EntityId {
  pub const SPDP_BUILTIN_PARTICIPANT_READER: EntityId = EntityId(0x000100c7);
  pub const P2P_BUILTIN_PARTICIPANT_STATELESS_READER: EntityId = EntityId(0x000201c4);
  pub const P2P_BUILTIN_PARTICIPANT_VOLATILE_SECURE_READER: EntityId = EntityId(0xff0202c4);
  pub const SPDP_BUILTIN_PARTICIPANT_WRITER: EntityId = EntityId(0x000100c2);
}
#[derive(Clone, Copy, PartialEq, Eq, Structural)] pub struct GUID { pub prefix: GuidPrefix, pub entity_id: EntityId }
#[verifier::external_body] pub struct Opaque { x: u8 }
pub enum WriterSubmessage { Data(Opaque, Opaque), Heartbeat(Opaque, Opaque), Gap(Opaque, Opaque), DataFrag(Opaque, Opaque), HeartbeatFrag(Opaque, Opaque) }
impl WriterSubmessage { #[verifier::external_body] pub fn sender_entity_id(&self) -> EntityId { unimplemented!() } }
#[verifier::external_body] pub struct Reader { x: u8 }
impl Reader {
  #[verifier::external_body] pub fn handle_heartbeat_msg(&mut self, h: &Opaque, f: bool, m: &MessageReceiverState) -> bool { unimplemented!() }
  #[verifier::external_body] pub fn handle_gap_msg(&mut self, g: &Opaque, m: &MessageReceiverState) { unimplemented!() }
  #[verifier::external_body] pub fn handle_heartbeatfrag_msg(&mut self, g: &Opaque, m: &MessageReceiverState) { unimplemented!() }
}
pub struct MessageReceiverState { pub source_guid_prefix: GuidPrefix }
#[verifier::external_body] pub struct Plugins { x: u8 }
#[verifier::external_body] pub struct Sender { x: u8 }
impl Sender { #[verifier::external_body] pub fn try_send(&self, p: GuidPrefix) { } }

pub struct MessageReceiver {
  pub own_guid_prefix: GuidPrefix,
  pub dest_guid_prefix: GuidPrefix,
  pub source_guid_prefix: GuidPrefix,
  pub must_be_rtps_protection_special_case: bool,
  pub security_plugins: Option<Plugins>,
  pub spdp_liveness_sender: Sender,
}

pub open spec fn exempt_reader(id: EntityId) -> bool {
    id == EntityId::SPDP_BUILTIN_PARTICIPANT_READER || id == EntityId::P2P_BUILTIN_PARTICIPANT_STATELESS_READER || id == EntityId::P2P_BUILTIN_PARTICIPANT_VOLATILE_SECURE_READER
}

impl MessageReceiver {
  // C17 oracle: an unprotected RTPS message in an rtps-protected domain may reach only the three bootstrap readers
  pub open spec fn may_deliver_to_reader(&self, id: EntityId) -> bool {
      (self.dest_guid_prefix == self.own_guid_prefix || self.dest_guid_prefix == GuidPrefix::UNKNOWN)
      && (self.must_be_rtps_protection_special_case ==> exempt_reader(id))
  }

  // stub: the precondition is the property
  #[verifier::external_body]
  pub fn reader_mut(&mut self, reader_id: EntityId) -> (r: Option<&mut Reader>)
    requires old(self).may_deliver_to_reader(reader_id)
  { unimplemented!() }

  #[verifier::external_body]
  fn clone_partial_message_receiver_state(&self) -> (r: MessageReceiverState) ensures r.source_guid_prefix == self.source_guid_prefix { unimplemented!() }
  #[verifier::external_body]
  fn clone_plugins(&self) -> Option<Plugins> { unimplemented!() }
  #[verifier::external_body]
  fn decode_and_handle_data(p: Option<&Plugins>, g: &GUID, d: Opaque, f: Opaque, r: &mut Reader, m: &MessageReceiverState) { unimplemented!() }
  #[verifier::external_body]
  fn decode_and_handle_datafrag(p: Option<&Plugins>, g: &GUID, d: Opaque, f: Opaque, r: &mut Reader, m: &MessageReceiverState) { unimplemented!() }
  #[verifier::external_body]
  fn final_flag(f: &Opaque) -> bool { unimplemented!() }

  fn handle_writer_submessage(
    &mut self,
    target_reader_entity_id: EntityId,
    submessage: WriterSubmessage,
  ) {
    if self.dest_guid_prefix != self.own_guid_prefix && self.dest_guid_prefix != GuidPrefix::UNKNOWN
    {
      return;
    }

    if self.must_be_rtps_protection_special_case {
      match target_reader_entity_id {
        // These submessages are the special case
        EntityId::SPDP_BUILTIN_PARTICIPANT_READER
        | EntityId::P2P_BUILTIN_PARTICIPANT_STATELESS_READER
        | EntityId::P2P_BUILTIN_PARTICIPANT_VOLATILE_SECURE_READER => (),
        // Otherwise we have to reject
        other => {
          return
        }
      }
    }

    let mr_state = self.clone_partial_message_receiver_state();
    let writer_entity_id = submessage.sender_entity_id();
    let source_guid_prefix = mr_state.source_guid_prefix;
    let source_guid = &GUID {
      prefix: source_guid_prefix,
      entity_id: writer_entity_id,
    };

    let security_plugins = self.clone_plugins();

    let target_reader = if let Some(target_reader) = self.reader_mut(target_reader_entity_id) {
      target_reader
    } else {
      return ;
    };

    match submessage {
      WriterSubmessage::Data(data, data_flags) => {
        Self::decode_and_handle_data(
          security_plugins.as_ref(),
          source_guid,
          data,
          data_flags,
          target_reader,
          &mr_state,
        );
      }

      WriterSubmessage::Heartbeat(heartbeat, flags) => {
        target_reader.handle_heartbeat_msg(
          &heartbeat,
          Self::final_flag(&flags),
          &mr_state,
        );
      }

      WriterSubmessage::Gap(gap, _flags) => {
        target_reader.handle_gap_msg(&gap, &mr_state);
      }

      WriterSubmessage::DataFrag(datafrag, flags) => {
        Self::decode_and_handle_datafrag(
          security_plugins.as_ref(),
          source_guid,
          datafrag,
          flags,
          target_reader,
          &mr_state,
        );
      }

      WriterSubmessage::HeartbeatFrag(heartbeatfrag, _flags) => {
        target_reader.handle_heartbeatfrag_msg(&heartbeatfrag, &mr_state);
      }
    }
  }
}
fn main() {}
}
