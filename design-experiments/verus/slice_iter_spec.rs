use vstd::prelude::*;
use vstd::std_specs::iter::IteratorSpec;
verus! {
fn t(v: &Vec<u8>) -> (r: Option<u8>)
    ensures v.len() > 0 ==> r == Some(v[0]), v.len() == 0 ==> r.is_none()
{
    let mut it = v.iter();
    assert(IteratorSpec::remaining(&it).len() == v.len());
    assert(forall|i: int| 0 <= i < v.len() ==> *IteratorSpec::remaining(&it)[i] == v[i]);
    let h = it.next();
    match h { Some(x) => Some(*x), None => None }
}
fn main() {}
}
