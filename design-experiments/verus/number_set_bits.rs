use vstd::prelude::*;
verus! {
global size_of usize == 8;

#[derive(Clone, Copy)]
pub struct SequenceNumber(pub i64);

pub struct NumberSet {
  pub bitmap_base: SequenceNumber,
  pub num_bits: u32,
  pub bitmap: Vec<u32>,
}

pub open spec fn bit_set(w: u32, b: u32) -> bool { (w & (1u32 << ((31 - b) as u32))) != 0 }

proof fn lemma_or_bit(w: u32, b: u32, c: u32)
    requires b < 32, c < 32
    ensures bit_set(w | (1u32 << ((31 - b) as u32)), c) == (bit_set(w, c) || c == b)
{
    assert(((w | (1u32 << ((31 - b) as u32))) & (1u32 << ((31 - c) as u32)) != 0) == ((w & (1u32 << ((31 - c) as u32)) != 0) || c == b)) by (bit_vector)
        requires b < 32, c < 32;
}

impl NumberSet {
  pub open spec fn wf(&self) -> bool { self.bitmap@.len() == (self.num_bits + 31) / 32 && self.num_bits <= 256 }
  pub open spec fn has(&self, i: int) -> bool { 0 <= i < self.num_bits && bit_set(self.bitmap@[i / 32], (i % 32) as u32) }

  pub fn new(bitmap_base: SequenceNumber, num_bits: u32) -> (r: Self)
    requires num_bits <= 256
    ensures r.wf(), r.num_bits == num_bits, r.bitmap_base == bitmap_base, forall|i: int| !r.has(i)
  {
    let word_count = (num_bits + 31) / 32;
    let r = Self {
      bitmap_base,
      num_bits,
      bitmap: vec![0; word_count as usize],
    };
    proof {
        assert forall|i: int| !r.has(i) by {
            if 0 <= i < r.num_bits {
                let b = (i % 32) as u32;
                assert(0u32 & (1u32 << ((31 - b) as u32)) == 0) by (bit_vector);
            }
        }
    }
    r
  }

  fn insert_pos(&mut self, bit_pos: u32)
    requires old(self).wf(), bit_pos < old(self).num_bits
    ensures final(self).wf(), final(self).num_bits == old(self).num_bits,
            forall|i: int| final(self).has(i) == (old(self).has(i) || i == bit_pos)
  {
      let word_num = bit_pos / 32;
      let bit_num = bit_pos % 32;
      self.bitmap[word_num as usize] |= 1u32 << (31 - bit_num);
      proof {
          let w = old(self).bitmap@[word_num as int];
          assert forall|i: int| self.has(i) == (old(self).has(i) || i == bit_pos) by {
              if 0 <= i < self.num_bits {
                  let c = (i % 32) as u32;
                  if i / 32 == word_num as int {
                      lemma_or_bit(w, bit_num, c);
                  }
              }
          }
      }
  }
}

fn main() {}
}
