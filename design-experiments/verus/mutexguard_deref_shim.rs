use vstd::prelude::*;
use core::ops::{Deref, DerefMut};
verus! {
pub struct St { pub a: u64 }

#[verifier::external_body]
pub struct Guard<'a> { g: std::sync::MutexGuard<'a, St> }
impl<'a> View for Guard<'a> { type V = St; uninterp spec fn view(&self) -> St; }

impl<'a> Deref for Guard<'a> {
    type Target = St;
    #[verifier::external_body]
    fn deref(&self) -> (r: &St) ensures *r == self@ { &*self.g }
}
impl<'a> DerefMut for Guard<'a> {
    #[verifier::external_body]
    fn deref_mut(&mut self) -> (r: &mut St) ensures *r == old(self)@, final(self)@ == *final(r) { &mut *self.g }
}

fn bump(g: &mut Guard<'_>) 
  ensures final(g)@.a == (if old(g)@.a < 10 { old(g)@.a + 1 } else { old(g)@.a as int })
{
    if g.a < 10 { g.a = g.a + 1; }
}
fn main() {}
}
