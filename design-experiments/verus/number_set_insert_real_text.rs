use vstd::prelude::*;
use vstd::std_specs::cmp::*;
use core::cmp::Ordering;
verus! {
global size_of usize == 8;

#[derive(Clone, Copy)]
pub struct SequenceNumber(pub i64);
impl PartialEqSpecImpl for SequenceNumber { open spec fn obeys_eq_spec() -> bool { true } open spec fn eq_spec(&self, o: &Self) -> bool { self.0 == o.0 } }
impl PartialEq for SequenceNumber { fn eq(&self, o: &Self) -> bool { self.0 == o.0 } }
impl Eq for SequenceNumber {}
impl PartialOrdSpecImpl for SequenceNumber {
    open spec fn obeys_partial_cmp_spec() -> bool { true }
    open spec fn partial_cmp_spec(&self, o: &Self) -> Option<Ordering> { if self.0 < o.0 { Some(Ordering::Less) } else if self.0 == o.0 { Some(Ordering::Equal) } else { Some(Ordering::Greater) } }
}
impl PartialOrd for SequenceNumber { fn partial_cmp(&self, o: &Self) -> Option<Ordering> { if self.0 < o.0 { Some(Ordering::Less) } else if self.0 == o.0 { Some(Ordering::Equal) } else { Some(Ordering::Greater) } } }
impl vstd::std_specs::ops::AddSpecImpl<SequenceNumber> for SequenceNumber {
    open spec fn obeys_add_spec() -> bool { true }
    open spec fn add_req(self, r: SequenceNumber) -> bool { i64::MIN <= self.0 + r.0 <= i64::MAX }
    open spec fn add_spec(self, r: SequenceNumber) -> SequenceNumber { SequenceNumber((self.0 + r.0) as i64) }
}
impl core::ops::Add for SequenceNumber { type Output = SequenceNumber; fn add(self, r: SequenceNumber) -> SequenceNumber { SequenceNumber(self.0 + r.0) } }
impl vstd::std_specs::ops::SubSpecImpl<SequenceNumber> for SequenceNumber {
    open spec fn obeys_sub_spec() -> bool { true }
    open spec fn sub_req(self, r: SequenceNumber) -> bool { i64::MIN <= self.0 - r.0 <= i64::MAX }
    open spec fn sub_spec(self, r: SequenceNumber) -> SequenceNumber { SequenceNumber((self.0 - r.0) as i64) }
}
impl core::ops::Sub for SequenceNumber { type Output = SequenceNumber; fn sub(self, r: SequenceNumber) -> SequenceNumber { SequenceNumber(self.0 - r.0) } }
impl vstd::std_specs::convert::FromSpecImpl<i64> for SequenceNumber { open spec fn obeys_from_spec() -> bool { true } open spec fn from_spec(v: i64) -> Self { SequenceNumber(v) } }
impl From<i64> for SequenceNumber { fn from(v: i64) -> Self { Self(v) } }
impl vstd::std_specs::convert::FromSpecImpl<SequenceNumber> for i64 { open spec fn obeys_from_spec() -> bool { true } open spec fn from_spec(v: SequenceNumber) -> Self { v.0 } }
impl From<SequenceNumber> for i64 { fn from(v: SequenceNumber) -> i64 { v.0 } }

// ---- shim BTreeSet<SequenceNumber> ----
#[verifier::external_body] pub struct BTreeSet { s: std::collections::BTreeSet<i64> }
impl BTreeSet { pub uninterp spec fn has(&self, k: i64) -> bool; }
#[verifier::external_body] pub struct SetIter<'a> { i: std::collections::btree_set::Iter<'a, i64> }
impl<'a> SetIter<'a> {
    pub uninterp spec fn rem(&self) -> Seq<i64>;   // ascending, still to come from the front
    #[verifier::external_body]
    pub fn next(&mut self) -> (r: Option<&'a SequenceNumber>)
        ensures match r { None => old(self).rem().len() == 0 && final(self).rem() == old(self).rem(),
                          Some(k) => old(self).rem().len() > 0 && k.0 == old(self).rem()[0] && final(self).rem() == old(self).rem().skip(1) }
    { unimplemented!() }
    #[verifier::external_body]
    pub fn next_back(&mut self) -> (r: Option<&'a SequenceNumber>)
        ensures match r { None => old(self).rem().len() == 0 && final(self).rem() == old(self).rem(),
                          Some(k) => old(self).rem().len() > 0 && k.0 == old(self).rem().last() && final(self).rem() == old(self).rem().drop_last() }
    { unimplemented!() }
}
pub open spec fn is_iter_of(s: Seq<i64>, set: &BTreeSet) -> bool {
    &&& forall|i: int, j: int| 0 <= i < j < s.len() ==> s[i] < s[j]
    &&& forall|i: int| 0 <= i < s.len() ==> set.has(#[trigger] s[i])
    &&& forall|k: i64| #[trigger] set.has(k) ==> exists|i: int| 0 <= i < s.len() && s[i] == k
}
impl BTreeSet {
    #[verifier::external_body]
    pub fn iter(&self) -> (r: SetIter<'_>) ensures is_iter_of(r.rem(), self) { unimplemented!() }
}

pub struct NumberSet { pub bitmap_base: SequenceNumber, pub num_bits: u32, pub bitmap: Vec<u32> }
pub open spec fn bit_set(w: u32, b: u32) -> bool { (w & (1u32 << ((31 - b) as u32))) != 0 }
proof fn lemma_or_bit(w: u32, b: u32, c: u32) requires b < 32, c < 32
    ensures bit_set(w | (1u32 << ((31 - b) as u32)), c) == (bit_set(w, c) || c == b)
{ assert(((w | (1u32 << ((31 - b) as u32))) & (1u32 << ((31 - c) as u32)) != 0) == ((w & (1u32 << ((31 - c) as u32)) != 0) || c == b)) by (bit_vector) requires b < 32, c < 32; }

impl NumberSet {
  pub open spec fn wf(&self) -> bool { self.bitmap@.len() == (self.num_bits + 31) / 32 && self.num_bits <= 256 }
  pub open spec fn has_bit(&self, i: int) -> bool { 0 <= i < self.num_bits && bit_set(self.bitmap@[i / 32], (i % 32) as u32) }
  pub open spec fn member(&self, k: i64) -> bool { self.has_bit(k - self.bitmap_base.0) }

  pub fn new(bitmap_base: SequenceNumber, num_bits: u32) -> (r: Self)
    requires num_bits <= 256
    ensures r.wf(), r.num_bits == num_bits, r.bitmap_base == bitmap_base, forall|i: int| !r.has_bit(i)
  {
    let word_count = (num_bits + 31) / 32;
    let r = Self { bitmap_base, num_bits, bitmap: vec![0; word_count as usize] };
    proof { assert forall|i: int| !r.has_bit(i) by { if 0 <= i < r.num_bits { let b = (i % 32) as u32; assert(0u32 & (1u32 << ((31 - b) as u32)) == 0) by (bit_vector); } } }
    r
  }
  pub fn new_empty(bitmap_base: SequenceNumber) -> (r: Self)
    ensures r.wf(), r.num_bits == 0, r.bitmap_base == bitmap_base, forall|i: int| !r.has_bit(i)
  { Self::new(bitmap_base, 0) }

  fn insert(&mut self, sn: SequenceNumber)
    requires old(self).wf(), old(self).bitmap_base.0 >= 1, old(self).bitmap_base.0 < i64::MAX - 512, sn.0 < i64::MAX - 512,
    ensures final(self).wf(), final(self).num_bits == old(self).num_bits, final(self).bitmap_base == old(self).bitmap_base,
            forall|k: i64| final(self).member(k) == (old(self).member(k) || (k == sn.0 && old(self).bitmap_base.0 <= k < old(self).bitmap_base.0 + old(self).num_bits))
  {
    if sn < self.bitmap_base
      || self.num_bits == 0
      || sn >= self.bitmap_base + SequenceNumber::from(self.num_bits as i64)
    {
    } else {
      let bit_pos = i64::from(sn - self.bitmap_base) as u32;
      let word_num = bit_pos / 32;
      let bit_num = bit_pos % 32;
      if word_num >= self.bitmap.len() as u32 {
      }
      self.bitmap[word_num as usize] |= 1u32 << (31 - bit_num);
      proof {
          let w = old(self).bitmap@[word_num as int];
          assert forall|k: i64| self.member(k) == (old(self).member(k) || (k == sn.0 && old(self).bitmap_base.0 <= k < old(self).bitmap_base.0 + old(self).num_bits)) by {
              let i = k - self.bitmap_base.0;
              if 0 <= i < self.num_bits { let c = (i % 32) as u32; if i / 32 == word_num as int { lemma_or_bit(w, bit_num, c); } }
          }
      }
    }
  }
}
fn main() {}
}
