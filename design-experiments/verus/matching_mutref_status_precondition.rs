use vstd::prelude::*;
verus! {

#[derive(Clone, Copy, PartialEq, Eq)]
pub struct GUID { pub prefix: u128, pub entity_id: u32 }

pub struct RtpsWriterProxy { pub remote_writer_guid: GUID, pub loc: u32, pub ack_base: i64 }
impl RtpsWriterProxy {
  pub fn update_contents(&mut self, other: Self)
    ensures final(self).ack_base == old(self).ack_base, final(self).remote_writer_guid == old(self).remote_writer_guid
  {
    self.loc = other.loc;
  }
}

// shim map keyed by GUID
#[verifier::external_body]
#[verifier::reject_recursive_types(V)]
pub struct BTreeMap<V> { inner: std::collections::BTreeMap<u8, V> }
impl<V> View for BTreeMap<V> { type V = Map<GUID, V>; uninterp spec fn view(&self) -> Map<GUID, V>; }
impl<V> BTreeMap<V> {
    #[verifier::external_body]
    pub fn get_mut(&mut self, k: &GUID) -> (r: Option<&mut V>)
        ensures
            match r {
                None => !old(self)@.contains_key(*k) && final(self)@ == old(self)@,
                Some(v) => old(self)@.contains_key(*k) && *v == old(self)@[*k] && final(self)@ == old(self)@.insert(*k, *final(v)),
            }
    { unimplemented!() }
    #[verifier::external_body]
    pub fn insert(&mut self, k: GUID, v: V) -> (r: Option<V>)
        ensures final(self)@ == old(self)@.insert(k, v), r.is_some() == old(self)@.contains_key(k)
    { unimplemented!() }
    #[verifier::external_body]
    pub fn len(&self) -> (r: usize) ensures r == self@.dom().len(), self@.dom().finite() { unimplemented!() }
}

pub enum DataReaderStatus { SubscriptionMatched { total: i32, total_change: i32, current: i32, current_change: i32, writer: GUID } }

pub struct Reader {
  pub matched_writers: BTreeMap<RtpsWriterProxy>,
  pub writer_match_count_total: i32,
}

impl Reader {
  // stub: the precondition *is* the property
  #[verifier::external_body]
  pub fn send_status_change(&self, change: DataReaderStatus)
    requires match change { DataReaderStatus::SubscriptionMatched { total, total_change, current, current_change, writer } =>
        current == self.matched_writers@.dom().len() && total == self.writer_match_count_total }
  { }

  fn matched_writer_mut(&mut self, remote_writer_guid: GUID) -> (r: Option<&mut RtpsWriterProxy>)
    ensures
        match r {
            None => !old(self).matched_writers@.contains_key(remote_writer_guid) && final(self).matched_writers@ == old(self).matched_writers@ && final(self).writer_match_count_total == old(self).writer_match_count_total,
            Some(v) => old(self).matched_writers@.contains_key(remote_writer_guid) && *v == old(self).matched_writers@[remote_writer_guid]
                && final(self).matched_writers@ == old(self).matched_writers@.insert(remote_writer_guid, *final(v))
                && final(self).writer_match_count_total == old(self).writer_match_count_total,
        }
  {
    self.matched_writers.get_mut(&remote_writer_guid)
  }

  // return value counts how many new proxies were added
  fn matched_writer_update(&mut self, proxy: RtpsWriterProxy) -> (r: i32)
    ensures
        r == (if old(self).matched_writers@.contains_key(proxy.remote_writer_guid) { 0int } else { 1int }),
        final(self).matched_writers@.dom() == old(self).matched_writers@.dom().insert(proxy.remote_writer_guid),
        final(self).writer_match_count_total == old(self).writer_match_count_total,
  {
    if let Some(op) = self.matched_writer_mut(proxy.remote_writer_guid) {
      op.update_contents(proxy);
      0
    } else {
      self.matched_writers.insert(proxy.remote_writer_guid, proxy);
      1
    }
  }
}

impl Reader {
  pub fn update_writer_proxy(&mut self, proxy: RtpsWriterProxy, compatible: bool)
    requires old(self).writer_match_count_total < i32::MAX, old(self).matched_writers@.dom().finite(), old(self).matched_writers@.dom().len() < i32::MAX
    ensures
        compatible ==> final(self).matched_writers@.dom() == old(self).matched_writers@.dom().insert(proxy.remote_writer_guid),
        !compatible ==> final(self).matched_writers@.dom() == old(self).matched_writers@.dom(),
        final(self).writer_match_count_total >= old(self).writer_match_count_total,
  {
    let writer = proxy.remote_writer_guid;
    match compatible {
      true => {
        // success, update or insert
        let count_change = self.matched_writer_update(proxy);
        if count_change > 0 {
          self.writer_match_count_total += count_change;
          self.send_status_change(DataReaderStatus::SubscriptionMatched {
            total: self.writer_match_count_total, total_change: count_change,
            current: self.matched_writers.len() as i32, current_change: count_change,
            writer,
          });
        }
      }
      false => { }
    }
  }
}

fn main() {}
}
