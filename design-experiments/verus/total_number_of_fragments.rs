use vstd::prelude::*;
verus! {
pub assume_specification[ <u32 as From<bool>>::from ](b: bool) -> (r: u32) ensures r == (if b { 1u32 } else { 0u32 });
pub struct FragmentNumber(pub u32);
impl FragmentNumber { pub const INVALID: Self = Self(0); pub fn new(value: u32) -> (r: Self) ensures r.0 == value { FragmentNumber(value) } }
pub struct DataFrag { pub data_size: u32, pub fragment_size: u16 }
pub open spec fn ceil_div(a: int, b: int) -> int { if a % b == 0 { a / b } else { a / b + 1 } }
impl DataFrag {
  pub fn total_number_of_fragments(&self) -> (r: FragmentNumber)
    ensures self.fragment_size == 0 ==> r.0 == 0,
            self.fragment_size > 0 ==> r.0 == ceil_div(self.data_size as int, self.fragment_size as int),
            self.fragment_size > 0 ==> r.0 * self.fragment_size >= self.data_size && (r.0 == 0 || (r.0 - 1) * self.fragment_size < self.data_size),
  {
    let frag_size = self.fragment_size as u32;
    if frag_size < 1 {
      FragmentNumber::INVALID
    } else {
      proof {
          let a = self.data_size as int; let b = frag_size as int;
          assert(a == b * (a / b) + a % b && 0 <= a % b < b) by (nonlinear_arith) requires b > 0, a >= 0;
          assert(a / b <= a) by (nonlinear_arith) requires b > 0, a >= 0;
          assert(a % b > 0 ==> a / b < 0xFFFF_FFFF) by (nonlinear_arith) requires b > 0, 0 <= a <= 0xFFFF_FFFF, a == b * (a / b) + a % b, 0 <= a % b < b;
          let n = ceil_div(a, b);
          assert(n * b >= a && (n == 0 || (n - 1) * b < a)) by (nonlinear_arith) requires b > 0, a >= 0, a == b * (a / b) + a % b, 0 <= a % b < b, n == if a % b == 0 { a / b } else { a / b + 1 };
      }
      FragmentNumber::new((self.data_size / frag_size) + u32::from(self.data_size % frag_size > 0))
    }
  }
}
fn main() {}
}
