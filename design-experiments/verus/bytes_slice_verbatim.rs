use vstd::prelude::*;
use core::ops::{Deref, Range, RangeTo};
use std::cmp::min;
verus! {
global size_of usize == 8;

use vstd::std_specs::cmp::*;
use core::cmp::Ordering;
pub assume_specification<T: Ord + core::marker::Destruct>[ std::cmp::min ](a: T, b: T) -> (r: T)
    ensures r == (if b.cmp_spec(&a) == Ordering::Less { b } else { a });

// ---------------- shim: bytes ----------------
pub trait ByteRange { spec fn lo(&self) -> int; spec fn hi(&self, len: int) -> int; }
impl ByteRange for Range<usize> { open spec fn lo(&self) -> int { self.start as int } open spec fn hi(&self, len: int) -> int { self.end as int } }
impl ByteRange for RangeTo<usize> { open spec fn lo(&self) -> int { 0 } open spec fn hi(&self, len: int) -> int { self.end as int } }

#[verifier::external_body] pub struct Bytes { inner: Vec<u8> }
impl View for Bytes { type V = Seq<u8>; uninterp spec fn view(&self) -> Seq<u8>; }
impl Bytes {
    #[verifier::external_body] pub fn len(&self) -> (r: usize) ensures r == self@.len() { unimplemented!() }
    // bytes::Bytes::slice panics unless begin <= end <= len
    #[verifier::external_body]
    pub fn slice<R: ByteRange>(&self, r: R) -> (out: Bytes)
        requires 0 <= r.lo() <= r.hi(self@.len() as int) <= self@.len()
        ensures out@ == self@.subrange(r.lo(), r.hi(self@.len() as int))
    { unimplemented!() }
}
impl Deref for Bytes { type Target = [u8];
    #[verifier::external_body] fn deref(&self) -> (r: &[u8]) ensures r@ == self@ { unimplemented!() } }
#[verifier::external_body] pub struct BytesMut { inner: Vec<u8> }
impl View for BytesMut { type V = Seq<u8>; uninterp spec fn view(&self) -> Seq<u8>; }
impl BytesMut {
    #[verifier::external_body] pub fn with_capacity(c: usize) -> (r: BytesMut) ensures r@.len() == 0 { unimplemented!() }
    #[verifier::external_body] pub fn len(&self) -> (r: usize) ensures r == self@.len() { unimplemented!() }
    #[verifier::external_body] pub fn extend_from_slice(&mut self, s: &[u8]) ensures final(self)@ == old(self)@ + s@ { unimplemented!() }
    #[verifier::external_body] pub fn freeze(self) -> (r: Bytes) ensures r@ == self@ { unimplemented!() }
}

pub const H_LEN: usize = 4;
pub struct RepresentationIdentifier { pub bytes: [u8; 2] }
pub struct SerializedPayload {
  pub representation_identifier: RepresentationIdentifier,
  pub representation_options: [u8; 2],
  pub value: Bytes,
}

pub open spec fn umin(a: int, b: int) -> int { if a <= b { a } else { b } }

impl SerializedPayload {
  pub open spec fn full(&self) -> Seq<u8> { self.representation_identifier.bytes@ + self.representation_options@ + self.value@ }

  pub fn bytes_slice(&self, from: usize, to_before: usize) -> (r: Bytes)
    requires self.value@.len() < usize::MAX - 8
    ensures r@ =~= self.full().subrange(umin(from as int, umin(to_before as int, self.full().len() as int)), umin(to_before as int, self.full().len() as int))
  {
    // sanitize inputs. These are unsigned values, so always at least zero.
    let to_before = min(to_before, self.value.len() + H_LEN);
    let from = min(from, to_before);

    if from >= H_LEN {
      // no need to copy, can return a slice
      self.value.slice(from - H_LEN..to_before - H_LEN)
    } else {
      // We need to copy the payload on order to prefix with header
      let mut b = BytesMut::with_capacity(to_before);
      b.extend_from_slice(&self.representation_identifier.bytes);
      b.extend_from_slice(&self.representation_options);
      assert!(b.len() == H_LEN);
      if to_before > H_LEN {
        b.extend_from_slice(&self.value.slice(..to_before - H_LEN));
      }
      b.freeze().slice(from..to_before)
    }
  }
}
fn main() {}
}
