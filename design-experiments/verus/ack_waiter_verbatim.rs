use vstd::prelude::*;
verus! {
#[derive(Clone, Copy, PartialEq, Eq)] pub struct GUID(pub u128);
#[derive(Clone, Copy)] pub struct SequenceNumber(pub i64);
use vstd::std_specs::cmp::*; use core::cmp::Ordering;
impl PartialEqSpecImpl for SequenceNumber { open spec fn obeys_eq_spec() -> bool { true } open spec fn eq_spec(&self, o: &Self) -> bool { self.0 == o.0 } }
impl PartialEq for SequenceNumber { fn eq(&self, o: &Self) -> bool { self.0 == o.0 } }
impl PartialOrdSpecImpl for SequenceNumber {
    open spec fn obeys_partial_cmp_spec() -> bool { true }
    open spec fn partial_cmp_spec(&self, o: &Self) -> Option<Ordering> { if self.0 < o.0 { Some(Ordering::Less) } else if self.0 == o.0 { Some(Ordering::Equal) } else { Some(Ordering::Greater) } }
}
impl PartialOrd for SequenceNumber { fn partial_cmp(&self, o: &Self) -> Option<Ordering> { if self.0 < o.0 { Some(Ordering::Less) } else if self.0 == o.0 { Some(Ordering::Equal) } else { Some(Ordering::Greater) } } }

// shim BTreeSet<GUID>
#[verifier::external_body] pub struct BTreeSet { s: std::collections::BTreeSet<u8> }
impl View for BTreeSet { type V = Set<GUID>; uninterp spec fn view(&self) -> Set<GUID>; }
impl BTreeSet {
    #[verifier::external_body] pub fn remove(&mut self, k: &GUID) -> (r: bool) ensures final(self)@ == old(self)@.remove(*k), r == old(self)@.contains(*k) { unimplemented!() }
    #[verifier::external_body] pub fn is_empty(&self) -> (r: bool) ensures r == (self@ =~= Set::<GUID>::empty()) { unimplemented!() }
}
#[verifier::external_body] pub struct Chan { x: u8 }

pub struct AckWaiter {
  pub wait_until: SequenceNumber,
  pub complete_channel: Chan,
  pub readers_pending: BTreeSet,
}

impl AckWaiter {
  pub fn reader_acked_or_lost(&mut self, guid: GUID, acked_before: Option<SequenceNumber>) -> (r: bool) // true = waiting complete
    ensures
        final(self).wait_until == old(self).wait_until,
        // whole-set postcondition: exactly `guid` leaves, and only if lost or acked strictly beyond wait_until
        final(self).readers_pending@ =~= (if acked_before.is_none() || old(self).wait_until.0 < acked_before.unwrap().0 { old(self).readers_pending@.remove(guid) } else { old(self).readers_pending@ }),
        r == (final(self).readers_pending@ =~= Set::<GUID>::empty()),
  {
    match acked_before {
      None => {
        self.readers_pending.remove(&guid);
      }
      Some(acked_before) if self.wait_until < acked_before => {
        self.readers_pending.remove(&guid);
      }
      Some(_) => (),
    }

    // if the set of waiters is empty, then wait is complete
    self.readers_pending.is_empty()
  }
}
fn main() {}
}
