use vstd::prelude::*;
verus! {

pub open spec fn umin(a: int, b: int) -> int { if a <= b { a } else { b } }
pub open spec fn ceil_div(a: int, b: int) -> int { if a % b == 0 { a / b } else { a / b + 1 } }

// what data_frag_msg puts into fragment k (contract of the writer side)
pub open spec fn frag_lo(fs: int, k: int) -> int { (k - 1) * fs }
pub open spec fn frag_hi(fs: int, k: int, size: int) -> int { umin(k * fs, size) }
pub open spec fn frag_payload(full: Seq<u8>, fs: int, k: int) -> Seq<u8> { full.subrange(frag_lo(fs, k), frag_hi(fs, k, full.len() as int)) }

// what insert_frags does with a one-fragment DATAFRAG (contract of the reader side), on (buffer, bitmap)
pub open spec fn insert(buf: Seq<u8>, bits: Seq<bool>, fs: int, k: int, payload: Seq<u8>) -> (Seq<u8>, Seq<bool>) {
    let from = (k - 1) * fs;
    let to = umin(from + umin(fs, payload.len() as int), buf.len() as int);
    (Seq::new(buf.len(), |i: int| if from <= i < to { payload[i - from] } else { buf[i] }), bits.update(k - 1, true))
}

pub open spec fn run(buf: Seq<u8>, bits: Seq<bool>, full: Seq<u8>, fs: int, ks: Seq<int>) -> (Seq<u8>, Seq<bool>)
    decreases ks.len()
{
    if ks.len() == 0 { (buf, bits) } else {
        let (b, m) = run(buf, bits, full, fs, ks.drop_last());
        insert(b, m, fs, ks.last(), frag_payload(full, fs, ks.last()))
    }
}

proof fn lemma_frag_bounds(size: int, fs: int, k: int)
    requires 1 <= fs <= size, 1 <= k <= ceil_div(size, fs)
    ensures 0 <= frag_lo(fs, k) < size, frag_lo(fs, k) < frag_hi(fs, k, size) <= size, frag_hi(fs, k, size) - frag_lo(fs, k) <= fs,
            frag_hi(fs, k, size) == (if k == ceil_div(size, fs) { size } else { k * fs }),
{
    let n = ceil_div(size, fs);
    assert(size == fs * (size / fs) + size % fs && 0 <= size % fs < fs) by (nonlinear_arith) requires fs > 0, size >= 0;
    assert((n - 1) * fs < size && n * fs >= size) by (nonlinear_arith) requires fs > 0, size >= 1, size == fs * (size / fs) + size % fs, 0 <= size % fs < fs, n == (if size % fs == 0 { size / fs } else { size / fs + 1 });
    assert((k - 1) * fs <= (n - 1) * fs) by (nonlinear_arith) requires k <= n, fs > 0;
    assert((k - 1) * fs >= 0) by (nonlinear_arith) requires k >= 1, fs > 0;
    assert(k * fs == (k - 1) * fs + fs) by (nonlinear_arith);
    if k < n { assert(k * fs <= (n - 1) * fs) by (nonlinear_arith) requires k <= n - 1, fs > 0; }
}

// the C05 core: any order, any duplicates
proof fn lemma_reassembly(full: Seq<u8>, fs: int, ks: Seq<int>)
    requires 1 <= fs <= full.len(), forall|i: int| 0 <= i < ks.len() ==> 1 <= #[trigger] ks[i] <= ceil_div(full.len() as int, fs),
    ensures ({
        let n = ceil_div(full.len() as int, fs);
        let (b, m) = run(Seq::new(full.len(), |i: int| 0u8), Seq::new(n as nat, |i: int| false), full, fs, ks);
        &&& b.len() == full.len() && m.len() == n
        &&& forall|j: int| 0 <= j < n ==> (#[trigger] m[j] <==> ks.contains(j + 1))
        &&& forall|j: int, i: int| 0 <= j < n && #[trigger] m[j] && frag_lo(fs, j + 1) <= i < frag_hi(fs, j + 1, full.len() as int) ==> #[trigger] b[i] == full[i]
    }),
    decreases ks.len()
{
    let n = ceil_div(full.len() as int, fs);
    let size = full.len() as int;
    assert(size == fs * (size / fs) + size % fs && 0 <= size % fs < fs) by (nonlinear_arith) requires fs > 0, size >= 0;
    assert(n >= 1) by (nonlinear_arith) requires fs > 0, size >= fs, size == fs * (size / fs) + size % fs, 0 <= size % fs < fs, n == (if size % fs == 0 { size / fs } else { size / fs + 1 });
    if ks.len() == 0 {
    } else {
        let k = ks.last();
        let prev = ks.drop_last();
        lemma_reassembly(full, fs, prev);
        let (b0, m0) = run(Seq::new(full.len(), |i: int| 0u8), Seq::new(n as nat, |i: int| false), full, fs, prev);
        let (b, m) = insert(b0, m0, fs, k, frag_payload(full, fs, k));
        lemma_frag_bounds(size, fs, k);
        assert forall|j: int| 0 <= j < n implies (#[trigger] m[j] <==> ks.contains(j + 1)) by {
            if j + 1 == k { assert(ks[ks.len() - 1] == k); }
            else {
                if prev.contains(j + 1) { let t = choose|t: int| 0 <= t < prev.len() && prev[t] == j + 1; assert(ks[t] == j + 1); }
                if ks.contains(j + 1) { let t = choose|t: int| 0 <= t < ks.len() && ks[t] == j + 1; assert(t < ks.len() - 1); assert(prev[t] == j + 1); }
            }
        }
        assert forall|j: int, i: int| 0 <= j < n && #[trigger] m[j] && frag_lo(fs, j + 1) <= i < frag_hi(fs, j + 1, size) implies #[trigger] b[i] == full[i] by {
            lemma_frag_bounds(size, fs, j + 1);
            if j + 1 == k { }
            else {
                // disjoint regions
                if j + 1 < k { assert((j + 1) * fs <= (k - 1) * fs) by (nonlinear_arith) requires j + 1 <= k - 1, fs > 0; }
                else { assert(k * fs <= j * fs) by (nonlinear_arith) requires k <= j, fs > 0; }
                assert(m0[j]);
            }
        }
    }
}

// completeness: all fragments present  ==> buffer == full
proof fn lemma_complete(full: Seq<u8>, fs: int, ks: Seq<int>)
    requires 1 <= fs <= full.len(), forall|i: int| 0 <= i < ks.len() ==> 1 <= #[trigger] ks[i] <= ceil_div(full.len() as int, fs),
             forall|k: int| 1 <= k <= ceil_div(full.len() as int, fs) ==> ks.contains(k),
    ensures run(Seq::new(full.len(), |i: int| 0u8), Seq::new(ceil_div(full.len() as int, fs) as nat, |i: int| false), full, fs, ks).0 =~= full
{
    let n = ceil_div(full.len() as int, fs);
    let size = full.len() as int;
    lemma_reassembly(full, fs, ks);
    let (b, m) = run(Seq::new(full.len(), |i: int| 0u8), Seq::new(n as nat, |i: int| false), full, fs, ks);
    assert forall|i: int| 0 <= i < size implies b[i] == full[i] by {
        let j = i / fs;
        assert(i == fs * (i / fs) + i % fs && 0 <= i % fs < fs) by (nonlinear_arith) requires fs > 0, i >= 0;
        assert(size == fs * (size / fs) + size % fs && 0 <= size % fs < fs) by (nonlinear_arith) requires fs > 0, size >= 0;
        assert(j < n) by (nonlinear_arith) requires i < size, fs > 0, j == i / fs, i == fs * (i / fs) + i % fs, 0 <= i % fs < fs, size == fs * (size / fs) + size % fs, 0 <= size % fs < fs, n == (if size % fs == 0 { size / fs } else { size / fs + 1 });
        assert(j >= 0) by (nonlinear_arith) requires i >= 0, fs > 0, j == i / fs;
        lemma_frag_bounds(size, fs, j + 1);
        assert(ks.contains(j + 1));
        assert(m[j]);
        assert(frag_lo(fs, j + 1) <= i) by (nonlinear_arith) requires i == fs * j + i % fs, 0 <= i % fs, frag_lo(fs, j + 1) == j * fs;
        assert(i < (j + 1) * fs) by (nonlinear_arith) requires i == fs * j + i % fs, i % fs < fs;
    }
}
fn main() {}
}
