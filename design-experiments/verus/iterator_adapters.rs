use vstd::prelude::*;
verus! {

fn t_any(v: &Vec<u8>, x: u8) -> (r: bool)
    ensures r == (exists|i: int| 0 <= i < v.len() && v[i] == x)
{
    v.iter().any(|e: &u8| -> (b: bool) ensures b == (*e == x) { *e == x })
}

fn t_map_collect(v: &Vec<u8>) -> (r: Vec<u16>)
    ensures r.len() == v.len(), forall|i: int| 0 <= i < v.len() ==> r[i] == v[i] as u16
{
    v.iter().map(|e: &u8| -> (o: u16) ensures o == *e as u16 { *e as u16 }).collect()
}

fn main() {}
} // verus!
