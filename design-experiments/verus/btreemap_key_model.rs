use vstd::prelude::*;
use vstd::std_specs::cmp::*;
use std::collections::BTreeMap;
use core::cmp::Ordering;
verus! {

#[derive(Clone, Copy)]
pub struct SequenceNumber(pub i64);

impl PartialEqSpecImpl for SequenceNumber {
    open spec fn obeys_eq_spec() -> bool { true }
    open spec fn eq_spec(&self, other: &Self) -> bool { self.0 == other.0 }
}
impl PartialEq for SequenceNumber {
    fn eq(&self, other: &Self) -> (r: bool)
    {
        self.0 == other.0
    }
}
impl Eq for SequenceNumber {}

impl PartialOrdSpecImpl for SequenceNumber {
    open spec fn obeys_partial_cmp_spec() -> bool { true }
    open spec fn partial_cmp_spec(&self, other: &Self) -> Option<Ordering> {
        if self.0 < other.0 { Some(Ordering::Less) } else if self.0 == other.0 { Some(Ordering::Equal) } else { Some(Ordering::Greater) }
    }
}
impl PartialOrd for SequenceNumber {
    fn partial_cmp(&self, other: &Self) -> (r: Option<Ordering>)
    {
        if self.0 < other.0 { Some(Ordering::Less) } else if self.0 == other.0 { Some(Ordering::Equal) } else { Some(Ordering::Greater) }
    }
}
impl OrdSpecImpl for SequenceNumber {
    open spec fn obeys_cmp_spec() -> bool { true }
    open spec fn cmp_spec(&self, other: &Self) -> Ordering {
        if self.0 < other.0 { Ordering::Less } else if self.0 == other.0 { Ordering::Equal } else { Ordering::Greater }
    }
}
impl Ord for SequenceNumber {
    fn cmp(&self, other: &Self) -> (r: Ordering)
    {
        if self.0 < other.0 { Ordering::Less } else if self.0 == other.0 { Ordering::Equal } else { Ordering::Greater }
    }
}

fn cmp_test(a: SequenceNumber, b: SequenceNumber) -> (r: bool)
    ensures r == (a.0 < b.0)
{
    a < b
}

fn eq_test(a: SequenceNumber, b: SequenceNumber) -> (r: bool)
    ensures r == (a.0 == b.0)
{
    a == b
}

fn test_map(m: &mut BTreeMap<SequenceNumber, Option<u64>>, k: SequenceNumber)
    requires vstd::std_specs::btree::key_obeys_cmp_spec::<SequenceNumber>(),
    ensures final(m)@.contains_key(k),
{
    m.insert(k, None);
}

fn main() {}
} // verus!
verus! {
proof fn key_ok()
    ensures vstd::std_specs::btree::key_obeys_cmp_spec::<SequenceNumber>(),
{
    broadcast use vstd::std_specs::btree::group_btree_axioms;
    broadcast use vstd::laws_cmp::group_laws_cmp;
    reveal(vstd::laws_eq::obeys_eq_spec_properties);
    reveal(vstd::laws_cmp::obeys_partial_cmp_spec_properties);
    reveal(vstd::laws_cmp::obeys_cmp_partial_ord);
    reveal(vstd::laws_cmp::obeys_cmp_ord);
    assert(vstd::laws_eq::obeys_eq_spec_properties::<SequenceNumber>());
    assert(vstd::laws_cmp::obeys_partial_cmp_spec_properties::<SequenceNumber>());
    assert(vstd::laws_cmp::obeys_cmp_partial_ord::<SequenceNumber>());
    assert(vstd::laws_cmp::obeys_cmp_ord::<SequenceNumber>());
    assert(vstd::laws_cmp::obeys_cmp::<SequenceNumber>());
}
}
