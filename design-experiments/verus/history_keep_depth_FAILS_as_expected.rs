use vstd::prelude::*;
use vstd::std_specs::cmp::*;
use core::cmp::Ordering;
use std::cmp::max;
verus! {
global size_of usize == 8;

#[derive(Clone, Copy)]
pub struct SequenceNumber(pub i64);
impl PartialEqSpecImpl for SequenceNumber { open spec fn obeys_eq_spec() -> bool { true } open spec fn eq_spec(&self, o: &Self) -> bool { self.0 == o.0 } }
impl PartialEq for SequenceNumber { fn eq(&self, o: &Self) -> bool { self.0 == o.0 } }
impl Eq for SequenceNumber {}
impl PartialOrdSpecImpl for SequenceNumber {
    open spec fn obeys_partial_cmp_spec() -> bool { true }
    open spec fn partial_cmp_spec(&self, o: &Self) -> Option<Ordering> { if self.0 < o.0 { Some(Ordering::Less) } else if self.0 == o.0 { Some(Ordering::Equal) } else { Some(Ordering::Greater) } }
}
impl PartialOrd for SequenceNumber { fn partial_cmp(&self, o: &Self) -> Option<Ordering> { if self.0 < o.0 { Some(Ordering::Less) } else if self.0 == o.0 { Some(Ordering::Equal) } else { Some(Ordering::Greater) } } }
impl OrdSpecImpl for SequenceNumber { open spec fn obeys_cmp_spec() -> bool { true } open spec fn cmp_spec(&self, o: &Self) -> Ordering { if self.0 < o.0 { Ordering::Less } else if self.0 == o.0 { Ordering::Equal } else { Ordering::Greater } } }
impl Ord for SequenceNumber { fn cmp(&self, o: &Self) -> Ordering { if self.0 < o.0 { Ordering::Less } else if self.0 == o.0 { Ordering::Equal } else { Ordering::Greater } } }
impl vstd::std_specs::ops::SubSpecImpl<SequenceNumber> for SequenceNumber {
    open spec fn obeys_sub_spec() -> bool { true }
    open spec fn sub_req(self, r: SequenceNumber) -> bool { i64::MIN <= self.0 - r.0 <= i64::MAX }
    open spec fn sub_spec(self, r: SequenceNumber) -> SequenceNumber { SequenceNumber((self.0 - r.0) as i64) }
}
impl core::ops::Sub for SequenceNumber { type Output = SequenceNumber; fn sub(self, r: SequenceNumber) -> SequenceNumber { SequenceNumber(self.0 - r.0) } }
impl vstd::std_specs::convert::FromSpecImpl<usize> for SequenceNumber { open spec fn obeys_from_spec() -> bool { true } open spec fn from_spec(v: usize) -> Self { SequenceNumber(v as i64) } }
impl From<usize> for SequenceNumber { fn from(v: usize) -> Self { Self(v as i64) } }
impl SequenceNumber { pub const fn zero() -> (r: Self) ensures r.0 == 0 { Self(0) } }
pub assume_specification<T: Ord + core::marker::Destruct>[ std::cmp::max ](a: T, b: T) -> (r: T)
    ensures r == (if a.cmp_spec(&b) == Ordering::Greater { a } else { b });

#[derive(Clone, Copy, PartialEq, Eq)] pub struct GUID(pub u128);

// ---- history buffer abstracted to its SN set for this experiment (real unit keeps both maps) ----
pub struct HistoryBuffer { pub first_seq: SequenceNumber, pub last_seq: SequenceNumber, pub dom: Ghost<Set<int>> }
impl HistoryBuffer {
  pub open spec fn wf(&self) -> bool { self.dom@.finite() && (forall|k: int| self.dom@.contains(k) <==> self.first_seq.0 <= k <= self.last_seq.0) && self.first_seq.0 <= self.last_seq.0 + 1 && self.first_seq.0 >= 1 }
  fn first_change_sequence_number(&self) -> (r: SequenceNumber) ensures r == self.first_seq { self.first_seq }
  #[verifier::external_body]
  fn remove_changes_before(&mut self, remove_before_seq: SequenceNumber)
    requires old(self).wf()
    ensures final(self).wf(), final(self).last_seq == old(self).last_seq,
        old(self).dom@.contains(remove_before_seq.0 as int) ==> final(self).first_seq == remove_before_seq,
        !old(self).dom@.contains(remove_before_seq.0 as int) ==> final(self).first_seq == old(self).first_seq,
  { unimplemented!() }
}

pub struct RtpsReaderProxy { pub all_acked_before: SequenceNumber, pub reliable: bool }
impl RtpsReaderProxy { pub fn acked_up_to_before(&self) -> (r: SequenceNumber) ensures r == self.all_acked_before { self.all_acked_before } }

// ---- shim: BTreeMap<GUID, RtpsReaderProxy>::values().map(f).min() ----
#[verifier::external_body] pub struct Readers { m: std::collections::BTreeMap<u8, RtpsReaderProxy> }
impl View for Readers { type V = Map<GUID, RtpsReaderProxy>; uninterp spec fn view(&self) -> Map<GUID, RtpsReaderProxy>; }
#[verifier::external_body] pub struct Values<'a> { v: std::collections::btree_map::Values<'a, u8, RtpsReaderProxy> }
impl<'a> Values<'a> { pub uninterp spec fn src(&self) -> Map<GUID, RtpsReaderProxy>; }
#[verifier::external_body] #[verifier::reject_recursive_types(F)] pub struct MapIt<'a, F> { v: Values<'a>, f: F }
impl<'a, F> MapIt<'a, F> { pub uninterp spec fn src(&self) -> Map<GUID, RtpsReaderProxy>; pub uninterp spec fn f(&self) -> F; }
impl Readers { #[verifier::external_body] pub fn values(&self) -> (r: Values<'_>) ensures r.src() == self@ { unimplemented!() } }
impl<'a> Values<'a> {
    #[verifier::external_body]
    pub fn map<F: Fn(&'a RtpsReaderProxy) -> SequenceNumber>(self, f: F) -> (r: MapIt<'a, F>)
        requires forall|x: &'a RtpsReaderProxy| f.requires((x,))
        ensures r.src() == self.src(), r.f() == f
    { unimplemented!() }
}
impl<'a, F: Fn(&'a RtpsReaderProxy) -> SequenceNumber> MapIt<'a, F> {
    // Iterator::min over the mapped values
    #[verifier::external_body]
    pub fn min(self) -> (r: Option<SequenceNumber>)
        ensures
            r.is_none() <==> self.src().dom() =~= Set::<GUID>::empty(),
            r.is_some() ==> (exists|g: GUID| self.src().contains_key(g) && self.f().ensures((&self.src()[g],), r.unwrap()))
                && (forall|g: GUID, y: SequenceNumber| self.src().contains_key(g) && self.f().ensures((&self.src()[g],), y) ==> r.unwrap().0 <= y.0),
    { unimplemented!() }
}

pub struct Writer { pub readers: Readers, pub history_buffer: HistoryBuffer, pub like_stateless: bool }

impl Writer {
  // property C04 (b): after cleaning with depth d >= 1, what is retained is at most d plus what some matched
  // *reliable* reader has not acknowledged
  pub open spec fn needed_by_reliable(&self, k: int) -> bool {
      exists|g: GUID| self.readers@.contains_key(g) && self.readers@[g].reliable && k >= self.readers@[g].all_acked_before.0
  }

  fn remove_all_acked_changes_but_keep_depth(&mut self, depth: usize)
    requires old(self).history_buffer.wf(), 1 <= depth <= 32, !old(self).like_stateless,
        forall|g: GUID| old(self).readers@.contains_key(g) ==> 0 <= old(self).readers@[g].all_acked_before.0 < i64::MAX - 64,
    ensures
        final(self).history_buffer.wf(), final(self).readers@ == old(self).readers@,
        // (b): every retained SN is within the last `depth` ones or still needed by a matched reliable reader
        forall|k: int| final(self).history_buffer.dom@.contains(k) ==> (k > final(self).history_buffer.last_seq.0 - depth || final(self).needed_by_reliable(k + depth)),
  {
    let first_keeper = if !self.like_stateless {
      let acked_by_all_readers = self
        .readers
        .values()
        .map(RtpsReaderProxy::acked_up_to_before)
        .min()
        .unwrap_or_else(SequenceNumber::zero);
      max(
        acked_by_all_readers - SequenceNumber::from(depth),
        self.history_buffer.first_change_sequence_number(),
      )
    } else {
      self.history_buffer.first_change_sequence_number()
    };

    // actual cleaning
    self.history_buffer.remove_changes_before(first_keeper);
  }
}
fn main() {}
}
