use vstd::prelude::*;
verus! {
global size_of usize == 8;

// ---------------- shims ----------------
#[verifier::external_body]
pub struct Bytes { inner: Vec<u8> }
impl View for Bytes { type V = Seq<u8>; uninterp spec fn view(&self) -> Seq<u8>; }
impl Bytes {
    #[verifier::external_body]
    pub fn len(&self) -> (r: usize) ensures r == self@.len() { unimplemented!() }
    // `&b[..n]`  (Index<RangeTo<usize>>)
    #[verifier::external_body]
    pub fn index_to(&self, n: usize) -> (r: &[u8]) requires n <= self@.len() ensures r@ == self@.subrange(0, n as int) { unimplemented!() }
}
#[verifier::external_body]
pub struct BytesMut { inner: Vec<u8> }
impl View for BytesMut { type V = Seq<u8>; uninterp spec fn view(&self) -> Seq<u8>; }
impl BytesMut {
    #[verifier::external_body]
    pub fn len(&self) -> (r: usize) ensures r == self@.len() { unimplemented!() }
    // `self.as_mut()[a..b].copy_from_slice(src)`
    #[verifier::external_body]
    pub fn copy_into_range(&mut self, a: usize, b: usize, src: &[u8])
        requires a <= b <= old(self)@.len(), src@.len() == b - a,   // std panics otherwise
        ensures final(self)@.len() == old(self)@.len(),
                forall|i: int| 0 <= i < old(self)@.len() ==> final(self)@[i] == (if a <= i < b { src@[i - a] } else { old(self)@[i] }),
    { unimplemented!() }
}
#[verifier::external_body]
pub struct BitVec { inner: Vec<bool> }
impl View for BitVec { type V = Seq<bool>; uninterp spec fn view(&self) -> Seq<bool>; }
impl BitVec {
    #[verifier::external_body]
    pub fn set(&mut self, i: usize, x: bool)
        requires i < old(self)@.len(),     // bit-vec asserts i < nbits
        ensures final(self)@ == old(self)@.update(i as int, x)
    { unimplemented!() }
    #[verifier::external_body]
    pub fn all(&self) -> (r: bool) ensures r == (forall|i: int| 0 <= i < self@.len() ==> self@[i]) { unimplemented!() }
}
#[verifier::external_body]
pub fn u32_to_usize_unwrap(x: u32) -> (r: usize) ensures r == x as usize { x as usize }
pub assume_specification<T: Ord + core::marker::Destruct>[ std::cmp::min ](a: T, b: T) -> (r: T);

#[derive(Clone, Copy)]
pub struct FragmentNumber(pub u32);
impl From<FragmentNumber> for u32 { fn from(f: FragmentNumber) -> (r: u32) ensures r == f.0 { f.0 } }
pub struct Timestamp { pub t: u64 }
impl Timestamp { #[verifier::external_body] pub fn now() -> Timestamp { unimplemented!() } }

pub struct DataFrag {
  pub fragment_starting_num: FragmentNumber,
  pub fragments_in_submessage: u16,
  pub data_size: u32,
  pub fragment_size: u16,
  pub serialized_payload: Bytes,
}

pub struct AssemblyBuffer {
  pub buffer_bytes: BytesMut,
  pub fragment_count: usize,
  pub received_bitmap: BitVec,
  pub modified_time: Timestamp,
}

pub open spec fn umin(a: int, b: int) -> int { if a <= b { a } else { b } }

impl AssemblyBuffer {
  pub open spec fn wf(&self) -> bool { self.received_bitmap@.len() == self.fragment_count }

  pub open spec fn valid_frag(&self, df: &DataFrag, frag_size: u16) -> bool {
      &&& df.fragment_starting_num.0 >= 1
      &&& df.fragment_starting_num.0 - 1 + df.fragments_in_submessage <= self.fragment_count
      &&& (df.fragment_starting_num.0 - 1) * frag_size <= self.buffer_bytes@.len()
  }

  pub fn insert_frags(&mut self, datafrag: &DataFrag, frag_size: u16)
    requires old(self).wf(), old(self).valid_frag(datafrag, frag_size),
    ensures final(self).wf(), final(self).fragment_count == old(self).fragment_count,
            final(self).buffer_bytes@.len() == old(self).buffer_bytes@.len(),
            forall|j: int| 0 <= j < final(self).received_bitmap@.len() ==> final(self).received_bitmap@[j] ==
                (old(self).received_bitmap@[j] || (datafrag.fragment_starting_num.0 - 1 <= j < datafrag.fragment_starting_num.0 - 1 + datafrag.fragments_in_submessage)),
  {
    let frag_size = usize::from(frag_size); // - payload_header;
    let frags_in_submessage = usize::from(datafrag.fragments_in_submessage);
    let fragment_starting_num: usize = u32_to_usize_unwrap(u32::from(datafrag.fragment_starting_num));
    let start_frag_from_0 = fragment_starting_num - 1; // number of first fragment in this DataFrag, indexing from 0

    // unwrap: u32 should fit into usize
    proof { assert(start_frag_from_0 * frag_size <= 0xFFFF_FFFF * 0xFFFF) by (nonlinear_arith) requires start_frag_from_0 <= 0xFFFF_FFFF, frag_size <= 0xFFFF;
            assert(frags_in_submessage * frag_size <= 0xFFFF * 0xFFFF) by (nonlinear_arith) requires frags_in_submessage <= 0xFFFF, frag_size <= 0xFFFF; }
    let from_byte = start_frag_from_0 * frag_size;

    let to_before_byte = umin_exec(
      from_byte
        + umin_exec(
          frags_in_submessage * frag_size,
          datafrag.serialized_payload.len(),
        ),
      self.buffer_bytes.len(),
    );
    let payload_size = to_before_byte - from_byte;

    // sanity check data size
    let last_frag_in_submessage = start_frag_from_0 + frags_in_submessage;

    self.buffer_bytes.copy_into_range(from_byte, to_before_byte, datafrag.serialized_payload.index_to(payload_size));

    let mut f = 0;
    while f < frags_in_submessage
      invariant
        0 <= f <= frags_in_submessage,
        self.received_bitmap@.len() == old(self).received_bitmap@.len(),
        self.fragment_count == old(self).fragment_count,
        self.buffer_bytes@.len() == old(self).buffer_bytes@.len(),
        start_frag_from_0 + frags_in_submessage <= self.fragment_count,
        old(self).wf(),
        forall|j: int| 0 <= j < self.received_bitmap@.len() ==> self.received_bitmap@[j] == (old(self).received_bitmap@[j] || (start_frag_from_0 <= j < start_frag_from_0 + f)),
      decreases frags_in_submessage - f
    {
      self.received_bitmap.set(start_frag_from_0 + f, true);
      f = f + 1;
    }
    self.modified_time = Timestamp::now();
  }
}

#[verifier::external_body]
pub fn umin_exec(a: usize, b: usize) -> (r: usize) ensures r == umin(a as int, b as int) { std::cmp::min(a, b) }

fn main() {}
} // verus!
