use vstd::prelude::*;
verus! {
pub struct B { pub v: Vec<u8> }
impl B {
    // R17 check: closure capturing &mut self inside Option::map
    fn push_opt(&mut self, o: Option<u8>) {
        if let Some(s) = o { self.v.push(s); }
    }
}
fn t_assert(a: usize) requires a == 4 { assert!(a <= 4); }
fn t_unreach(a: u8) -> u8 requires a < 2 { match a { 0 => 1, 1 => 2, _ => unreachable!() } }
fn main() {}
}
