use vstd::prelude::*;
use vstd::std_specs::cmp::*;
use core::cmp::Ordering;
use core::ops::Bound;
use core::ops::Bound::{Included, Unbounded};
use std::cmp::max;
verus! {

// ---------- template: SequenceNumber (struct text extracted, derives replaced) ----------
#[derive(Clone, Copy)]
pub struct SequenceNumber(pub i64);

impl PartialEqSpecImpl for SequenceNumber {
    open spec fn obeys_eq_spec() -> bool { true }
    open spec fn eq_spec(&self, other: &Self) -> bool { self.0 == other.0 }
}
impl PartialEq for SequenceNumber { fn eq(&self, other: &Self) -> (r: bool) { self.0 == other.0 } }
impl Eq for SequenceNumber {}
impl PartialOrdSpecImpl for SequenceNumber {
    open spec fn obeys_partial_cmp_spec() -> bool { true }
    open spec fn partial_cmp_spec(&self, other: &Self) -> Option<Ordering> {
        if self.0 < other.0 { Some(Ordering::Less) } else if self.0 == other.0 { Some(Ordering::Equal) } else { Some(Ordering::Greater) }
    }
}
impl PartialOrd for SequenceNumber {
    fn partial_cmp(&self, other: &Self) -> (r: Option<Ordering>) {
        if self.0 < other.0 { Some(Ordering::Less) } else if self.0 == other.0 { Some(Ordering::Equal) } else { Some(Ordering::Greater) }
    }
}
impl vstd::std_specs::ops::AddSpecImpl<SequenceNumber> for SequenceNumber {
    open spec fn obeys_add_spec() -> bool { true }
    open spec fn add_req(self, rhs: SequenceNumber) -> bool { i64::MIN <= self.0 + rhs.0 <= i64::MAX }
    open spec fn add_spec(self, rhs: SequenceNumber) -> SequenceNumber { SequenceNumber((self.0 + rhs.0) as i64) }
}
impl core::ops::Add for SequenceNumber {
    type Output = SequenceNumber;
    fn add(self, rhs: SequenceNumber) -> SequenceNumber { SequenceNumber(self.0 + rhs.0) }
}
impl vstd::std_specs::ops::SubSpecImpl<SequenceNumber> for SequenceNumber {
    open spec fn obeys_sub_spec() -> bool { true }
    open spec fn sub_req(self, rhs: SequenceNumber) -> bool { i64::MIN <= self.0 - rhs.0 <= i64::MAX }
    open spec fn sub_spec(self, rhs: SequenceNumber) -> SequenceNumber { SequenceNumber((self.0 - rhs.0) as i64) }
}
impl core::ops::Sub for SequenceNumber {
    type Output = SequenceNumber;
    fn sub(self, rhs: SequenceNumber) -> SequenceNumber { SequenceNumber(self.0 - rhs.0) }
}
impl OrdSpecImpl for SequenceNumber {
    open spec fn obeys_cmp_spec() -> bool { true }
    open spec fn cmp_spec(&self, other: &Self) -> Ordering {
        if self.0 < other.0 { Ordering::Less } else if self.0 == other.0 { Ordering::Equal } else { Ordering::Greater }
    }
}
impl Ord for SequenceNumber {
    fn cmp(&self, other: &Self) -> (r: Ordering) {
        if self.0 < other.0 { Ordering::Less } else if self.0 == other.0 { Ordering::Equal } else { Ordering::Greater }
    }
}
impl SequenceNumber {
  pub fn new(value: i64) -> (r: Self) ensures r.0 == value { Self::from(value) }
  pub fn range_inclusive(begin: Self, end: Self) -> (r: SequenceNumberRange) ensures r.begin == begin, r.end == end {
    SequenceNumberRange::new(begin, end)
  }
}
impl From<i64> for SequenceNumber {
  fn from(value: i64) -> (r: Self) ensures r.0 == value { Self(value) }
}

#[derive(Clone, Copy)]
pub struct SequenceNumberRange {
  pub begin: SequenceNumber,
  pub end: SequenceNumber,
}

impl SequenceNumberRange {
  pub fn new(begin: SequenceNumber, end: SequenceNumber) -> (r: Self) ensures r.begin == begin, r.end == end {
    Self { begin, end }
  }

  pub fn begin(&self) -> (r: SequenceNumber) ensures r == self.begin {
    self.begin
  }

  pub fn end(&self) -> (r: SequenceNumber) ensures r == self.end {
    self.end
  }
}

impl SequenceNumberRange {
  pub open spec fn count(&self) -> int { if self.begin.0 > self.end.0 { 0 } else { self.end.0 - self.begin.0 + 1 } }
  fn next(&mut self) -> (r: Option<SequenceNumber>)
    requires old(self).end.0 < i64::MAX,
    ensures
        final(self).end == old(self).end,
        match r {
            None => old(self).begin.0 > old(self).end.0 && final(self).begin == old(self).begin,
            Some(b) => b == old(self).begin && old(self).begin.0 <= old(self).end.0 && final(self).begin.0 == old(self).begin.0 + 1,
        }
  {
    if self.begin > self.end {
      None
    } else {
      let b = self.begin;
      self.begin = b + SequenceNumber::new(1);
      Some(b)
    }
  }
}


pub assume_specification<T: Ord + core::marker::Destruct>[ std::cmp::max ](a: T, b: T) -> (r: T)
    ensures r == (if a.cmp_spec(&b) == Ordering::Greater { a } else { b });

// ---------- template: BTreeMap shim with contracts ----------
#[verifier::external_body]
#[verifier::reject_recursive_types(V)]
pub struct BTreeMap<V> { inner: std::collections::BTreeMap<i64, V> }

#[verifier::external_body]
#[verifier::reject_recursive_types(V)]
pub struct Range<'a, V> { inner: std::collections::btree_map::Range<'a, i64, V> }

pub open spec fn in_bounds(k: i64, lo: Bound<&SequenceNumber>, hi: Bound<&SequenceNumber>) -> bool {
    (match lo { Bound::Included(l) => l.0 <= k, Bound::Excluded(l) => l.0 < k, Bound::Unbounded => true })
    && (match hi { Bound::Included(h) => k <= h.0, Bound::Excluded(h) => k < h.0, Bound::Unbounded => true })
}

pub trait RangeBounds {
    spec fn lo(&self) -> Bound<&SequenceNumber>;
    spec fn hi(&self) -> Bound<&SequenceNumber>;
    spec fn nonneg(&self) -> bool;
}
impl<'b> RangeBounds for (Bound<&'b SequenceNumber>, Bound<&'b SequenceNumber>) {
    open spec fn lo(&self) -> Bound<&SequenceNumber> { self.0 }
    open spec fn hi(&self) -> Bound<&SequenceNumber> { self.1 }
    open spec fn nonneg(&self) -> bool { 
        match (self.0, self.1) {
            (Bound::Included(a), Bound::Included(b)) => a.0 <= b.0,
            (Bound::Included(a), Bound::Excluded(b)) => a.0 <= b.0,
            (Bound::Excluded(a), Bound::Included(b)) => a.0 <= b.0,
            (Bound::Excluded(a), Bound::Excluded(b)) => a.0 < b.0,
            _ => true,
        }
    }
}
impl RangeBounds for SequenceNumberRange {
    open spec fn lo(&self) -> Bound<&SequenceNumber> { Bound::Included(&self.begin) }
    open spec fn hi(&self) -> Bound<&SequenceNumber> { Bound::Included(&self.end) }
    open spec fn nonneg(&self) -> bool { self.begin.0 <= self.end.0 }
}
impl<V> View for BTreeMap<V> { type V = Map<i64, V>; uninterp spec fn view(&self) -> Map<i64, V>; }

impl<'a, V> Range<'a, V> {
    pub uninterp spec fn rem(&self) -> Seq<(i64, V)>;

    // Iterator::map + collect on a Range, restricted to closures that project the key
    #[verifier::external_body]
    pub fn map<F: Fn((&'a SequenceNumber, &'a V)) -> SequenceNumber>(self, f: F) -> (r: MapRange)
        requires forall|k: &'a SequenceNumber, v: &'a V| f.requires(((k, v),)),
        ensures r.items().len() == self.rem().len(),
                forall|i: int| 0 <= i < self.rem().len() ==> f.ensures(((&SequenceNumber(self.rem()[i].0), &self.rem()[i].1),), #[trigger] r.items()[i]),
    { unimplemented!() }

    #[verifier::external_body]
    pub fn next(&mut self) -> (r: Option<(&'a SequenceNumber, &'a V)>)
        ensures
            match r {
                None => old(self).rem().len() == 0 && final(self).rem() == old(self).rem(),
                Some((k, v)) => old(self).rem().len() > 0 && (k.0, *v) == old(self).rem()[0] && final(self).rem() == old(self).rem().skip(1),
            }
    { unimplemented!() }
}

#[verifier::external_body]
pub struct MapRange { v: Vec<SequenceNumber> }
impl MapRange {
    pub uninterp spec fn items(&self) -> Seq<SequenceNumber>;
    #[verifier::external_body]
    pub fn collect(self) -> (r: Vec<SequenceNumber>) ensures r@ == self.items() { unimplemented!() }
}
pub open spec fn is_range_of<V>(s: Seq<(i64, V)>, m: Map<i64, V>, lo: Bound<&SequenceNumber>, hi: Bound<&SequenceNumber>) -> bool {
    &&& forall|i: int, j: int| 0 <= i < j < s.len() ==> s[i].0 < s[j].0
    &&& forall|i: int| 0 <= i < s.len() ==> #[trigger] m.contains_key(s[i].0) && m[s[i].0] == s[i].1 && in_bounds(s[i].0, lo, hi)
    &&& forall|k: i64| #[trigger] m.contains_key(k) && in_bounds(k, lo, hi) ==> exists|i: int| 0 <= i < s.len() && s[i].0 == k
}

impl<V> BTreeMap<V> {
    #[verifier::external_body]
    pub fn new() -> (r: Self) ensures r@ == Map::<i64, V>::empty() { unimplemented!() }

    #[verifier::external_body]
    pub fn insert(&mut self, k: SequenceNumber, v: V) -> (r: Option<V>)
        ensures final(self)@ == old(self)@.insert(k.0, v),
    { unimplemented!() }

    #[verifier::external_body]
    pub fn contains_key(&self, k: &SequenceNumber) -> (r: bool)
        ensures r == self@.contains_key(k.0),
    { unimplemented!() }

    #[verifier::external_body]
    pub fn range<'a, R: RangeBounds>(&'a self, r: R) -> (it: Range<'a, V>)
        requires r.nonneg(),   // std panics "range start is greater than range end"
        ensures is_range_of(it.rem(), self@, r.lo(), r.hi())
    { unimplemented!() }

    // "Splits the collection into two at the given key. Returns everything after the given key, including the key."
    #[verifier::external_body]
    pub fn split_off(&mut self, k: &SequenceNumber) -> (r: Self)
        ensures
            forall|x: i64| #[trigger] final(self)@.contains_key(x) <==> (old(self)@.contains_key(x) && x < k.0),
            forall|x: i64| #[trigger] r@.contains_key(x) <==> (old(self)@.contains_key(x) && x >= k.0),
            forall|x: i64| final(self)@.contains_key(x) ==> final(self)@[x] == old(self)@[x],
            forall|x: i64| r@.contains_key(x) ==> r@[x] == old(self)@[x],
    { unimplemented!() }

    #[verifier::external_body]
    pub fn append(&mut self, other: &mut Self)
        ensures
            forall|x: i64| #[trigger] final(self)@.contains_key(x) <==> (old(self)@.contains_key(x) || old(other)@.contains_key(x)),
            forall|x: i64| old(other)@.contains_key(x) ==> final(self)@[x] == old(other)@[x],
            forall|x: i64| old(self)@.contains_key(x) && !old(other)@.contains_key(x) ==> final(self)@[x] == old(self)@[x],
            final(other)@ == Map::<i64, V>::empty(),
    { unimplemented!() }
}

// ---------- extracted: RtpsWriterProxy (fields pruned to those used) ----------
pub struct Timestamp { pub t: u64 }

pub struct RtpsWriterProxy {
  pub changes: BTreeMap<Option<Timestamp>>,
  pub ack_base: SequenceNumber,
}

impl RtpsWriterProxy {
  pub closed spec fn inv(&self) -> bool {
      !self.changes@.contains_key(self.ack_base.0)
  }

  fn advance_ack_base(&mut self)
      requires old(self).ack_base.0 < i64::MAX, // TODO
      ensures
          final(self).changes@ == old(self).changes@,
          final(self).ack_base.0 >= old(self).ack_base.0,
          forall|k: i64| old(self).ack_base.0 <= k < final(self).ack_base.0 ==> old(self).changes@.contains_key(k),
          !final(self).changes@.contains_key(final(self).ack_base.0),
  {
    // Start searching from current ack_base
    let mut test_sn = self.ack_base;

    let mut iter = self.changes.range((Included(&self.ack_base), Unbounded));
    let ghost all = iter.rem();
    let ghost base0 = self.ack_base.0;
    let ghost mut idx: int = 0;
    loop
        invariant_except_break
            iter.rem() == all.skip(idx),
        invariant
            self.changes@ == old(self).changes@,
            is_range_of(all, self.changes@, Included(&SequenceNumber(base0)), Unbounded),
            0 <= idx <= all.len(),
            test_sn.0 == base0 + idx,
            self.ack_base.0 == test_sn.0,
            base0 == old(self).ack_base.0,
            forall|i: int| 0 <= i < idx ==> (#[trigger] all[i]).0 == base0 + i,
        ensures
            idx == all.len() || all[idx].0 != base0 + idx,
        decreases all.len() - idx,
    {
      match iter.next() {
        None => { break; }
        Some((sn__r, _what)) => {
          let sn = *sn__r;
          if sn == test_sn {
            assume(test_sn.0 < i64::MAX);
            test_sn = test_sn + SequenceNumber::new(1);
          } else {
            break;
          }
          self.ack_base = test_sn;
          proof { idx = idx + 1; }
        }
      }
    }
    proof {
        assert forall|k: i64| base0 <= k < self.ack_base.0 implies old(self).changes@.contains_key(k) by {
            let i = k - base0;
            assert(all[i].0 == k);
            assert(self.changes@.contains_key(all[i].0));
        }
        if self.changes@.contains_key(self.ack_base.0) {
            assert(in_bounds(self.ack_base.0, Included(&SequenceNumber(base0)), Unbounded));
            let i = choose|i: int| 0 <= i < all.len() && all[i].0 == self.ack_base.0;
            if i < idx { assert(all[i].0 == base0 + i); }
            else if i > idx { 
                assert(all[idx].0 < all[i].0);
                if idx > 0 { assert(all[idx-1].0 < all[idx].0); assert(all[idx-1].0 == base0 + idx - 1); }
                else { assert(self.changes@.contains_key(all[0].0)); assert(in_bounds(all[0].0, Included(&SequenceNumber(base0)), Unbounded)); }
            }
        }
    }
  }
}


impl RtpsWriterProxy {
  // Check if we have already received this sequence number
  // or it has been marked as not_available
  pub fn should_ignore_change(&self, seqnum: SequenceNumber) -> (r: bool)
      ensures r == (seqnum.0 < self.ack_base.0 || self.changes@.contains_key(seqnum.0))
  {
    seqnum < self.ack_base || self.changes.contains_key(&seqnum)
  }

}


impl RtpsWriterProxy {
  pub open spec fn covered(&self, k: i64) -> bool {
      k < self.ack_base.0 || self.changes@.contains_key(k)
  }
  pub open spec fn wf(&self) -> bool { !self.changes@.contains_key(self.ack_base.0) }

  pub fn irrelevant_changes_range(
    &mut self,
    remove_from: SequenceNumber,
    remove_until_before: SequenceNumber,
  )
    requires old(self).wf(), remove_until_before.0 < i64::MAX, old(self).ack_base.0 < i64::MAX,
             forall|k: i64| old(self).changes@.contains_key(k) ==> k < i64::MAX,
             remove_until_before.0 > i64::MIN,
    ensures final(self).wf(),
            final(self).ack_base.0 >= old(self).ack_base.0,
            forall|k: i64| #[trigger] final(self).covered(k) <==> (old(self).covered(k) || remove_from.0 <= k < remove_until_before.0),
  {
    // check sanity
    if remove_from > remove_until_before {
      return;
    }
    if remove_from <= self.ack_base {
      let mut removed_and_after = self.changes.split_off(&remove_from);
      let mut after = removed_and_after.split_off(&remove_until_before);
      // let removed = removed_and_after;
      self.changes.append(&mut after);

      if remove_until_before > self.ack_base {
        // Move the base to skip the irrelevant changes
        self.ack_base = remove_until_before;
        self.advance_ack_base();
      }
      proof {
        assert forall|k: i64| #[trigger] self.covered(k) <==> (old(self).covered(k) || remove_from.0 <= k < remove_until_before.0) by {
            if self.covered(k) { if k < self.ack_base.0 { if k >= remove_until_before.0 && k >= old(self).ack_base.0 { assert(self.changes@.contains_key(k)); } } }
        }
      }
    } else {
      let mut it_0 = SequenceNumber::range_inclusive(remove_from, remove_until_before - SequenceNumber::new(1));
      loop
        invariant_except_break
            it_0.begin.0 <= it_0.end.0 + 1,
        invariant
            it_0.end.0 == remove_until_before.0 - 1,
            remove_from.0 <= it_0.begin.0 <= remove_until_before.0,
            self.ack_base == old(self).ack_base,
            remove_from.0 > self.ack_base.0,
            forall|k: i64| #[trigger] self.changes@.contains_key(k) <==> (old(self).changes@.contains_key(k) || remove_from.0 <= k < it_0.begin.0),
        ensures it_0.begin.0 == remove_until_before.0 || remove_from.0 == remove_until_before.0
        decreases it_0.count()
      {
        match it_0.next() { None => break, Some(na) => {
        self.changes.insert(na, None);
        }}
      }
      proof {
        assert(it_0.begin.0 == remove_until_before.0);
        assert forall|k: i64| #[trigger] self.covered(k) <==> (old(self).covered(k) || remove_from.0 <= k < remove_until_before.0) by { }
      }
    }
  }
}

fn main() {}
} // verus!
