#!/bin/bash
# tools_seedwt.sh <seed-id> : scratch worktree /var/tmp/swt-<seed-id> of /repo HEAD with seeded/<seed-id>/patch.diff applied
# (dev helper for strengthening a check against a stored seed; remove with: git -C /repo worktree remove --force <dir>)
SID=$1; WT=/var/tmp/swt-$SID
git -C /repo worktree remove --force $WT 2>/dev/null
git -C /repo worktree add -q $WT HEAD || exit 3
cp /repo/Cargo.lock $WT/ 2>/dev/null
git -C $WT apply /verif/seeded/$SID/patch.diff || exit 3
echo $WT
