// ---------------------------------------------------------------------------------------------
// SHIM (assumed contract, trusted): std::collections::BTreeSet<K> as used by RtpsReaderProxy and
// MessageBuilder::gap_msg.  view: Set<K>; element order: K's OrdSpec (cmp_spec).  Every fn is
// external_body: the contract is the *assumed* specification of the standard library.
// (Same view type as shims/number_set_btreeset.rs of unit number_set.)
// ---------------------------------------------------------------------------------------------
#[verifier::external_body]
#[verifier::reject_recursive_types(K)]
pub struct BTreeSet<K> { inner: std::collections::BTreeSet<K> }

impl<K> View for BTreeSet<K> { type V = Set<K>; uninterp spec fn view(&self) -> Set<K>; }

// s is the strictly ascending sequence of exactly the elements of m
pub open spec fn is_set_iter_of<K: Ord>(s: Seq<K>, m: Set<K>) -> bool {
    &&& forall|i: int, j: int| 0 <= i < j < s.len() ==> klt(#[trigger] s[i], #[trigger] s[j])
    &&& forall|i: int| 0 <= i < s.len() ==> m.contains(#[trigger] s[i])
    &&& forall|k: K| #[trigger] m.contains(k) ==> exists|i: int| 0 <= i < s.len() && s[i] == k
}

#[verifier::external_body]
#[verifier::reject_recursive_types(K)]
pub struct BSetIter<'a, K> { inner: std::collections::btree_set::Iter<'a, K> }

impl<'a, K> BSetIter<'a, K> {
    // elements still to come (ascending); next takes from the front, next_back from the back
    pub uninterp spec fn rem(&self) -> Seq<K>;

    #[verifier::external_body]
    pub fn next(&mut self) -> (r: Option<&'a K>)
        ensures
            match r {
                None => old(self).rem().len() == 0 && final(self).rem() == old(self).rem(),
                Some(k) => old(self).rem().len() > 0 && *k == old(self).rem()[0] && final(self).rem() == old(self).rem().skip(1),
            }
    { unimplemented!() }

    #[verifier::external_body]
    pub fn next_back(&mut self) -> (r: Option<&'a K>)
        ensures
            match r {
                None => old(self).rem().len() == 0 && final(self).rem() == old(self).rem(),
                Some(k) => old(self).rem().len() > 0 && *k == old(self).rem().last() && final(self).rem() == old(self).rem().drop_last(),
            }
    { unimplemented!() }
}

pub trait SetSource<K> { spec fn elems(&self) -> Set<K>; }
impl<K> SetSource<K> for BTreeSet<K> { open spec fn elems(&self) -> Set<K> { self@ } }
impl<'a, K> SetSource<K> for &'a BTreeSet<K> { open spec fn elems(&self) -> Set<K> { (**self)@ } }

impl<K: Ord> BTreeSet<K> {
    #[verifier::external_body]
    pub fn new() -> (r: Self) ensures r@ == Set::<K>::empty() { unimplemented!() }

    #[verifier::external_body]
    pub fn insert(&mut self, k: K) -> (r: bool)
        ensures final(self)@ == old(self)@.insert(k), r == !old(self)@.contains(k),
    { unimplemented!() }

    #[verifier::external_body]
    pub fn remove(&mut self, k: &K) -> (r: bool)
        ensures final(self)@ == old(self)@.remove(*k), r == old(self)@.contains(*k),
    { unimplemented!() }

    #[verifier::external_body]
    pub fn contains(&self, k: &K) -> (r: bool)
        ensures r == self@.contains(*k),
    { unimplemented!() }

    // "Splits the collection into two at the value. Returns a new collection with all elements
    //  greater than or equal to the value."
    #[verifier::external_body]
    pub fn split_off(&mut self, k: &K) -> (r: Self)
        ensures
            forall|x: K| #[trigger] final(self)@.contains(x) <==> (old(self)@.contains(x) && klt(x, *k)),
            forall|x: K| #[trigger] r@.contains(x) <==> (old(self)@.contains(x) && !klt(x, *k)),
    { unimplemented!() }

    // Extend<K>::extend / Extend<&K>::extend, restricted to a BTreeSet (by value or by reference) as the source
    #[verifier::external_body]
    pub fn extend<S: SetSource<K>>(&mut self, other: S)
        ensures final(self)@ == old(self)@.union(other.elems()),
    { unimplemented!() }

    #[verifier::external_body]
    pub fn is_empty(&self) -> (r: bool)
        ensures r == (forall|x: K| !self@.contains(x)),
    { unimplemented!() }

    #[verifier::external_body]
    pub fn iter<'a>(&'a self) -> (it: BSetIter<'a, K>)
        ensures is_set_iter_of(it.rem(), self@)
    { unimplemented!() }

    #[verifier::external_body]
    pub fn first(&self) -> (r: Option<&K>)
        ensures match r {
            None => forall|x: K| !self@.contains(x),
            Some(k) => self@.contains(*k) && forall|x: K| #[trigger] self@.contains(x) ==> kle(*k, x),
        }
    { unimplemented!() }

    #[verifier::external_body]
    pub fn last(&self) -> (r: Option<&K>)
        ensures match r {
            None => forall|x: K| !self@.contains(x),
            Some(k) => self@.contains(*k) && forall|x: K| #[trigger] self@.contains(x) ==> kle(x, *k),
        }
    { unimplemented!() }

    // Clone::clone (inherent here: Verus cannot attach an ensures to a trait-impl method)
    #[verifier::external_body]
    pub fn clone(&self) -> (r: Self) where K: Clone
        ensures r@ == self@,
    { unimplemented!() }
}

// FromIterator for a SequenceNumberRange source: collects exactly what SequenceNumberRange::next
// yields, i.e. begin..=end.  The real call runs `end - begin + 1` iterations (work linear in the
// argument, see term.rp.gap_up_to) and the iterator's `next` overflows at i64::MAX (sn.rs:
// nopanic.snr.next) — both are stated as `requires`.
impl BTreeSet<SequenceNumber> {
    #[verifier::external_body]
    pub fn from_iter(r: SequenceNumberRange) -> (s: Self)
        requires r.end.0 < i64::MAX,
        ensures forall|k: SequenceNumber| #[trigger] s@.contains(k) <==> r.begin.0 <= k.0 <= r.end.0,
    { unimplemented!() }
}
