// ---------------------------------------------------------------------------------------------
// structure/guid.rs : GuidPrefix, EntityKind, EntityId, GUID (extracted) + R2 template impls for
// the derives (PartialEq, Eq, PartialOrd, Ord = lexicographic in declaration order; arrays compare
// lexicographically).  The exec bodies of the comparison impls are external_body (trusted: they
// stand for the derive expansion, R2); what the unit reasons with is the ...SpecImpl spec.
// Also: EntityKind/EntityId MIN/MAX (extracted consts), GUID::new, GuidPrefix::range (extracted)
// and the proof that `prefix.range()` covers exactly the GUIDs carrying that prefix.
// ---------------------------------------------------------------------------------------------

// lexicographic order on byte strings of equal length (what `[u8; N]: Ord` computes)
pub open spec fn first_diff_lt(a: Seq<u8>, b: Seq<u8>, i: int) -> bool {
    &&& 0 <= i < a.len() && i < b.len()
    &&& a[i] < b[i]
    &&& forall|j: int| 0 <= j < i ==> a[j] == b[j]
}
pub open spec fn bytes_lt(a: Seq<u8>, b: Seq<u8>) -> bool {
    exists|i: int| #[trigger] first_diff_lt(a, b, i)
}
pub open spec fn bytes_cmp(a: Seq<u8>, b: Seq<u8>) -> Ordering {
    if a =~= b { Ordering::Equal } else if bytes_lt(a, b) { Ordering::Less } else { Ordering::Greater }
}
pub open spec fn then_cmp(first: Ordering, second: Ordering) -> Ordering {
    match first { Ordering::Equal => second, o => o }
}
pub open spec fn u8_cmp(a: u8, b: u8) -> Ordering {
    if a < b { Ordering::Less } else if a == b { Ordering::Equal } else { Ordering::Greater }
}

@@extract struct src/structure/guid.rs GuidPrefix derive=Clone,Copy

impl PartialEqSpecImpl for GuidPrefix {
    open spec fn obeys_eq_spec() -> bool { true }
    open spec fn eq_spec(&self, other: &Self) -> bool { self.bytes@ =~= other.bytes@ }
}
impl PartialEq for GuidPrefix { #[verifier::external_body] fn eq(&self, other: &Self) -> (r: bool) { self.bytes == other.bytes } }
impl Eq for GuidPrefix {}
impl PartialOrdSpecImpl for GuidPrefix {
    open spec fn obeys_partial_cmp_spec() -> bool { true }
    open spec fn partial_cmp_spec(&self, other: &Self) -> Option<Ordering> { Some(bytes_cmp(self.bytes@, other.bytes@)) }
}
impl PartialOrd for GuidPrefix { #[verifier::external_body] fn partial_cmp(&self, other: &Self) -> (r: Option<Ordering>) { self.bytes.partial_cmp(&other.bytes) } }
impl OrdSpecImpl for GuidPrefix {
    open spec fn obeys_cmp_spec() -> bool { true }
    open spec fn cmp_spec(&self, other: &Self) -> Ordering { bytes_cmp(self.bytes@, other.bytes@) }
}
impl Ord for GuidPrefix { #[verifier::external_body] fn cmp(&self, other: &Self) -> (r: Ordering) { self.bytes.cmp(&other.bytes) } }

@@extract struct src/structure/guid.rs EntityKind derive=Clone,Copy

impl PartialEqSpecImpl for EntityKind {
    open spec fn obeys_eq_spec() -> bool { true }
    open spec fn eq_spec(&self, other: &Self) -> bool { self.0 == other.0 }
}
impl PartialEq for EntityKind { fn eq(&self, other: &Self) -> (r: bool) { self.0 == other.0 } }
impl Eq for EntityKind {}

impl EntityKind {
@@extract const_exec src/structure/guid.rs EntityKind::MIN ensures="EntityKind::MIN.0 == 0"
@@extract const_exec src/structure/guid.rs EntityKind::MAX ensures="EntityKind::MAX.0 == 0xFF"
}

@@extract struct src/structure/guid.rs EntityId derive=Clone,Copy

pub open spec fn eid_cmp(a: EntityId, b: EntityId) -> Ordering {
    then_cmp(bytes_cmp(a.entity_key@, b.entity_key@), u8_cmp(a.entity_kind.0, b.entity_kind.0))
}
pub open spec fn eid_is_min(e: EntityId) -> bool { e.entity_key@ =~= seq![0u8, 0u8, 0u8] && e.entity_kind.0 == 0 }
pub open spec fn eid_is_max(e: EntityId) -> bool { e.entity_key@ =~= seq![0xFFu8, 0xFFu8, 0xFFu8] && e.entity_kind.0 == 0xFF }

pub open spec fn eid_eq(a: EntityId, b: EntityId) -> bool { a.entity_key@ =~= b.entity_key@ && a.entity_kind.0 == b.entity_kind.0 }
impl PartialEqSpecImpl for EntityId {
    open spec fn obeys_eq_spec() -> bool { true }
    open spec fn eq_spec(&self, other: &Self) -> bool { eid_eq(*self, *other) }
}
impl PartialEq for EntityId { #[verifier::external_body] fn eq(&self, other: &Self) -> (r: bool) { self.entity_key == other.entity_key && self.entity_kind.0 == other.entity_kind.0 } }
impl Eq for EntityId {}
impl PartialOrdSpecImpl for EntityId {
    open spec fn obeys_partial_cmp_spec() -> bool { true }
    open spec fn partial_cmp_spec(&self, other: &Self) -> Option<Ordering> { Some(eid_cmp(*self, *other)) }
}
impl PartialOrd for EntityId { #[verifier::external_body] fn partial_cmp(&self, other: &Self) -> (r: Option<Ordering>) { Some(self.cmp(other)) } }
impl OrdSpecImpl for EntityId {
    open spec fn obeys_cmp_spec() -> bool { true }
    open spec fn cmp_spec(&self, other: &Self) -> Ordering { eid_cmp(*self, *other) }
}
impl Ord for EntityId { #[verifier::external_body] fn cmp(&self, other: &Self) -> (r: Ordering) { self.entity_key.cmp(&other.entity_key).then(self.entity_kind.0.cmp(&other.entity_kind.0)) } }

impl EntityId {
@@extract const_exec src/structure/guid.rs EntityId::MIN ensures="eid_is_min(EntityId::MIN)"
@@extract const_exec src/structure/guid.rs EntityId::MAX ensures="eid_is_max(EntityId::MAX)"
}

@@extract struct src/structure/guid.rs GUID derive=Clone,Copy

pub open spec fn guid_cmp(a: GUID, b: GUID) -> Ordering {
    then_cmp(bytes_cmp(a.prefix.bytes@, b.prefix.bytes@), eid_cmp(a.entity_id, b.entity_id))
}
impl PartialEqSpecImpl for GUID {
    open spec fn obeys_eq_spec() -> bool { true }
    open spec fn eq_spec(&self, other: &Self) -> bool {
        self.prefix.bytes@ =~= other.prefix.bytes@ && self.entity_id.entity_key@ =~= other.entity_id.entity_key@
        && self.entity_id.entity_kind.0 == other.entity_id.entity_kind.0
    }
}
impl PartialEq for GUID { #[verifier::external_body] fn eq(&self, other: &Self) -> (r: bool) { self.prefix == other.prefix && self.entity_id == other.entity_id } }
impl Eq for GUID {}
impl PartialOrdSpecImpl for GUID {
    open spec fn obeys_partial_cmp_spec() -> bool { true }
    open spec fn partial_cmp_spec(&self, other: &Self) -> Option<Ordering> { Some(guid_cmp(*self, *other)) }
}
impl PartialOrd for GUID { #[verifier::external_body] fn partial_cmp(&self, other: &Self) -> (r: Option<Ordering>) { Some(self.cmp(other)) } }
impl OrdSpecImpl for GUID {
    open spec fn obeys_cmp_spec() -> bool { true }
    open spec fn cmp_spec(&self, other: &Self) -> Ordering { guid_cmp(*self, *other) }
}
impl Ord for GUID { #[verifier::external_body] fn cmp(&self, other: &Self) -> (r: Ordering) { self.prefix.cmp(&other.prefix).then(self.entity_id.cmp(&other.entity_id)) } }

impl GUID {
@@extract fn src/structure/guid.rs GUID::new_with_prefix_and_id
@@ret r
@@ensures guid.new
    r.prefix == prefix, r.entity_id == entity_id
@@end
@@extract fn src/structure/guid.rs GUID::new
@@ret r
@@ensures guid.new
    r.prefix == prefix, r.entity_id == entity_id
@@end
}

// `lo..=hi` handed to BTreeMap::range (std: start_bound = Included(start); end_bound =
// Included(end), or Excluded(end) once the range has been iterated to exhaustion)
impl VRangeBounds<GUID> for core::ops::RangeInclusive<GUID> {
    open spec fn lo(&self) -> Bound<GUID> { Bound::Included(self@.start) }
    open spec fn hi(&self) -> Bound<GUID> { if self@.exhausted { Bound::Excluded(self@.end) } else { Bound::Included(self@.end) } }
}

impl GuidPrefix {
    // g lies in the key range that `self.range()` denotes
    pub open spec fn range_covers(&self, g: GUID) -> bool { g.prefix == *self }

// R8-style type substitution: the opaque return type `impl RangeBounds<GUID>` is spelled out as
// the concrete type of the body expression (rustc checks it)
@@extract fn src/structure/guid.rs GuidPrefix::range
@@subst impl RangeBounds<GUID>=core::ops::RangeInclusive<GUID>
@@ret r
@@ensures guid.prefix.range
    bounds_ok(r.lo(), r.hi()),
    forall|g: GUID| #[trigger] in_bounds(g, r.lo(), r.hi()) <==> g.prefix == *self,
@@body_start
    proof {
        // (the two exec consts cannot be named in proof code: quantify over every pair of bounds
        //  with this prefix and the MIN / MAX entity ids)
        assert forall|lo: GUID, hi: GUID, g: GUID| lo.prefix == *self && hi.prefix == *self && eid_is_min(lo.entity_id) && eid_is_max(hi.entity_id)
            implies (#[trigger] in_bounds(g, Bound::Included(lo), Bound::Included(hi)) <==> g.prefix == *self) by {
            lemma_prefix_range(*self, lo, hi, g);
        }
        assert forall|lo: GUID, hi: GUID| lo.prefix == *self && hi.prefix == *self && eid_is_min(lo.entity_id) && eid_is_max(hi.entity_id)
            implies #[trigger] kle(lo, hi) by {
            lemma_prefix_range(*self, lo, hi, lo);
        }
    }
@@end
}

// ---- order lemmas ----
pub proof fn lemma_bytes_lt_asym(a: Seq<u8>, b: Seq<u8>)
    requires bytes_lt(a, b)
    ensures !bytes_lt(b, a), !(a =~= b)
{
    let i = choose|i: int| #[trigger] first_diff_lt(a, b, i);
    if bytes_lt(b, a) {
        let k = choose|k: int| #[trigger] first_diff_lt(b, a, k);
        if i < k { assert(b[i] == a[i]); } else if k < i { assert(a[k] == b[k]); }
    }
    if a =~= b { assert(a[i] == b[i]); }
}

pub proof fn lemma_prefix_eq(p: GuidPrefix, q: GuidPrefix)
    ensures (p.bytes@ =~= q.bytes@) <==> p == q
{
    if p.bytes@ =~= q.bytes@ { assert(p.bytes =~= q.bytes); }
}

// every 3-byte key + kind lies between MIN and MAX
pub proof fn lemma_eid_min_max(lo: EntityId, hi: EntityId, e: EntityId)
    requires eid_is_min(lo), eid_is_max(hi)
    ensures eid_cmp(lo, e) != Ordering::Greater, eid_cmp(e, hi) != Ordering::Greater
{
    let k = e.entity_key@;
    assert(k.len() == 3);
    if !(lo.entity_key@ =~= k) {
        let i0: int = if k[0] != 0 { 0 } else if k[1] != 0 { 1 } else { 2 };
        assert(first_diff_lt(lo.entity_key@, k, i0));
    }
    if !(k =~= hi.entity_key@) {
        let i0: int = if k[0] != 0xFF { 0 } else if k[1] != 0xFF { 1 } else { 2 };
        assert(first_diff_lt(k, hi.entity_key@, i0));
    }
}

// the range GUID{p, MIN} ..= GUID{p, MAX} contains exactly the GUIDs with prefix p
pub proof fn lemma_prefix_range(p: GuidPrefix, lo: GUID, hi: GUID, g: GUID)
    requires lo.prefix == p, hi.prefix == p, eid_is_min(lo.entity_id), eid_is_max(hi.entity_id)
    ensures
        in_bounds(g, Bound::Included(lo), Bound::Included(hi)) <==> g.prefix == p,
        kle(lo, hi),
{
    lemma_prefix_eq(g.prefix, p);
    lemma_eid_min_max(lo.entity_id, hi.entity_id, g.entity_id);
    lemma_eid_min_max(lo.entity_id, hi.entity_id, hi.entity_id);
    if g.prefix == p {
        assert(guid_cmp(lo, g) == eid_cmp(lo.entity_id, g.entity_id));
        assert(guid_cmp(g, hi) == eid_cmp(g.entity_id, hi.entity_id));
    } else {
        if bytes_lt(p.bytes@, g.prefix.bytes@) {
            lemma_bytes_lt_asym(p.bytes@, g.prefix.bytes@);
            assert(guid_cmp(g, hi) == Ordering::Greater);
        } else {
            assert(guid_cmp(lo, g) == Ordering::Greater);
        }
    }
    assert(guid_cmp(lo, hi) == eid_cmp(lo.entity_id, hi.entity_id));
}

// ---- the derived order on GUID is a total order (sanity of the key model: the BTreeMap shim's
//      `is_range_of` contract is only satisfiable for a strict total order on the keys) ----
pub proof fn lemma_first_diff(a: Seq<u8>, b: Seq<u8>, k: int) -> (i: int)
    requires a.len() == b.len(), 0 <= k <= a.len(), !(a =~= b), forall|j: int| 0 <= j < k ==> a[j] == b[j]
    ensures k <= i < a.len(), a[i] != b[i], forall|j: int| 0 <= j < i ==> a[j] == b[j]
    decreases a.len() - k
{
    if k == a.len() { assert(a =~= b); k }
    else if a[k] != b[k] { k }
    else { lemma_first_diff(a, b, k + 1) }
}

pub proof fn lemma_bytes_cmp_laws(a: Seq<u8>, b: Seq<u8>, c: Seq<u8>)
    requires a.len() == b.len(), b.len() == c.len()
    ensures
        bytes_cmp(a, a) == Ordering::Equal,
        bytes_cmp(a, b) == Ordering::Equal <==> a == b,
        bytes_cmp(a, b) == Ordering::Less <==> bytes_cmp(b, a) == Ordering::Greater,
        bytes_cmp(a, b) == Ordering::Less && bytes_cmp(b, c) == Ordering::Less ==> bytes_cmp(a, c) == Ordering::Less,
{
    if bytes_lt(a, b) { lemma_bytes_lt_asym(a, b); }
    if bytes_lt(b, a) { lemma_bytes_lt_asym(b, a); }
    if !(a =~= b) {
        let i = lemma_first_diff(a, b, 0);
        if a[i] < b[i] { assert(first_diff_lt(a, b, i)); } else { assert(first_diff_lt(b, a, i)); }
    }
    if bytes_lt(a, b) && bytes_lt(b, c) {
        let i = choose|i: int| #[trigger] first_diff_lt(a, b, i);
        let k = choose|k: int| #[trigger] first_diff_lt(b, c, k);
        let m = if i <= k { i } else { k };
        assert(first_diff_lt(a, c, m));
        lemma_bytes_lt_asym(a, c);
    }
}

pub proof fn lemma_guid_order_total(a: GUID, b: GUID, c: GUID)
    ensures
        guid_cmp(a, a) == Ordering::Equal,                                                                          // [guid.order]
        guid_cmp(a, b) == Ordering::Equal <==> a == b,                                                              // [guid.order]
        guid_cmp(a, b) == Ordering::Less <==> guid_cmp(b, a) == Ordering::Greater,                                  // [guid.order]
        guid_cmp(a, b) == Ordering::Less && guid_cmp(b, c) == Ordering::Less ==> guid_cmp(a, c) == Ordering::Less,  // [guid.order]
{
    lemma_bytes_cmp_laws(a.prefix.bytes@, b.prefix.bytes@, c.prefix.bytes@);
    lemma_bytes_cmp_laws(b.prefix.bytes@, a.prefix.bytes@, c.prefix.bytes@);
    lemma_bytes_cmp_laws(a.entity_id.entity_key@, b.entity_id.entity_key@, c.entity_id.entity_key@);
    lemma_bytes_cmp_laws(b.entity_id.entity_key@, a.entity_id.entity_key@, c.entity_id.entity_key@);
    lemma_bytes_cmp_laws(a.prefix.bytes@, c.prefix.bytes@, c.prefix.bytes@);
    lemma_bytes_cmp_laws(a.entity_id.entity_key@, c.entity_id.entity_key@, c.entity_id.entity_key@);
    if guid_cmp(a, b) == Ordering::Equal {
        assert(a.prefix.bytes =~= b.prefix.bytes);
        assert(a.entity_id.entity_key =~= b.entity_id.entity_key);
        assert(a.entity_id.entity_kind == b.entity_id.entity_kind);
        assert(a.entity_id == b.entity_id);
        assert(a == b);
    }
}
