// ---------------------------------------------------------------------------------------------
// structure/sequence_number.rs : FragmentNumber (extracted) + R2 template impls for the derives
// NumberSet<FragmentNumber> relies on (PartialEq, Eq, PartialOrd, Ord; NumOps -> Add/Sub on the
// inner u32, overflow = panic in debug builds, hence add_req/sub_req) + the two real conversions
// "to make this fit into NumberSet<N>" (extracted).
// ---------------------------------------------------------------------------------------------
@@extract struct src/structure/sequence_number.rs FragmentNumber derive=Clone,Copy

impl PartialEqSpecImpl for FragmentNumber {
    open spec fn obeys_eq_spec() -> bool { true }
    open spec fn eq_spec(&self, other: &Self) -> bool { self.0 == other.0 }
}
impl PartialEq for FragmentNumber { fn eq(&self, other: &Self) -> (r: bool) { self.0 == other.0 } }
impl Eq for FragmentNumber {}
impl PartialOrdSpecImpl for FragmentNumber {
    open spec fn obeys_partial_cmp_spec() -> bool { true }
    open spec fn partial_cmp_spec(&self, other: &Self) -> Option<Ordering> {
        if self.0 < other.0 { Some(Ordering::Less) } else if self.0 == other.0 { Some(Ordering::Equal) } else { Some(Ordering::Greater) }
    }
}
impl PartialOrd for FragmentNumber {
    fn partial_cmp(&self, other: &Self) -> (r: Option<Ordering>) {
        if self.0 < other.0 { Some(Ordering::Less) } else if self.0 == other.0 { Some(Ordering::Equal) } else { Some(Ordering::Greater) }
    }
}
impl OrdSpecImpl for FragmentNumber {
    open spec fn obeys_cmp_spec() -> bool { true }
    open spec fn cmp_spec(&self, other: &Self) -> Ordering {
        if self.0 < other.0 { Ordering::Less } else if self.0 == other.0 { Ordering::Equal } else { Ordering::Greater }
    }
}
impl Ord for FragmentNumber {
    fn cmp(&self, other: &Self) -> (r: Ordering) {
        if self.0 < other.0 { Ordering::Less } else if self.0 == other.0 { Ordering::Equal } else { Ordering::Greater }
    }
}
impl AddSpecImpl<FragmentNumber> for FragmentNumber {
    open spec fn obeys_add_spec() -> bool { true }
    open spec fn add_req(self, rhs: FragmentNumber) -> bool { self.0 + rhs.0 <= u32::MAX }   // [nopanic.fn.add]
    open spec fn add_spec(self, rhs: FragmentNumber) -> FragmentNumber { FragmentNumber((self.0 + rhs.0) as u32) }
}
impl core::ops::Add for FragmentNumber {
    type Output = FragmentNumber;
    fn add(self, rhs: FragmentNumber) -> FragmentNumber { FragmentNumber(self.0 + rhs.0) }
}
impl SubSpecImpl<FragmentNumber> for FragmentNumber {
    open spec fn obeys_sub_spec() -> bool { true }
    open spec fn sub_req(self, rhs: FragmentNumber) -> bool { self.0 - rhs.0 >= 0 }   // [nopanic.fn.sub]
    open spec fn sub_spec(self, rhs: FragmentNumber) -> FragmentNumber { FragmentNumber((self.0 - rhs.0) as u32) }
}
impl core::ops::Sub for FragmentNumber {
    type Output = FragmentNumber;
    fn sub(self, rhs: FragmentNumber) -> FragmentNumber { FragmentNumber(self.0 - rhs.0) }
}

// std one-liner (assumed): `x.into()` / `i64::from(x)` for x: u32 is the widening conversion
#[verifier::external_body]
pub proof fn axiom_i64_from_u32()
    ensures <i64 as vstd::std_specs::convert::FromSpec<u32>>::obeys_from_spec(),
            forall|x: u32| #[trigger] <i64 as vstd::std_specs::convert::FromSpec<u32>>::from_spec(x) == x as i64,
{}

// `impl From<i64> for FragmentNumber { Self(value as u32) }` — truncating cast (real text)
impl FromSpecImpl<i64> for FragmentNumber {
    open spec fn obeys_from_spec() -> bool { true }
    open spec fn from_spec(v: i64) -> Self { FragmentNumber(v as u32) }
}
impl From<i64> for FragmentNumber {
@@extract fn src/structure/sequence_number.rs "From<i64> for FragmentNumber::from"
@@nopub
@@ret r
@@ensures fn.from_i64
    r.0 == value as u32
@@end
}
impl FromSpecImpl<FragmentNumber> for i64 {
    open spec fn obeys_from_spec() -> bool { true }
    open spec fn from_spec(v: FragmentNumber) -> Self { v.0 as i64 }
}
impl From<FragmentNumber> for i64 {
@@extract fn src/structure/sequence_number.rs "From<FragmentNumber> for i64::from"
@@nopub
@@ret r
@@ensures fn.into_i64
    r == fragment_number.0 as i64
@@body_start
    proof { axiom_i64_from_u32(); }
@@end
}
