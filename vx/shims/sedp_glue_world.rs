// ---------------------------------------------------------------------------------------------
// Unit sedp_glue — SHIM / STUBS (assumed, trusted).  Everything Discovery::handle_subscription_reader /
// handle_publication_reader / handle_topic_reader reach through interior mutability (the DiscoveryDB behind
// `Arc<RwLock<..>>`, the `&self` channel sends, the caches of the built-in DDS readers) is made explicit as
// ONE ghost object `World`, handed to the code as an erased `Tracked<&mut World>` argument (added by @@subst
// at the signature and at each call; ghost arguments do not exist at run time: the executable text is the
// text of /repo).
//
//   trace        everything the discovery thread DOES, in program order, as ONE sequence, so that order and
//                number of the effects are part of the contracts:
//                  Ev::Db(op)      a mutating DiscoveryDB operation with the argument it was called with
//                  Ev::Notify(n)   a DiscoveryNotificationType handed to the dp_event_loop thread
//                  Ev::Status(e)   a DomainParticipantStatusEvent handed to the application
//   sub_taken    every sample the DCPSSubscription reader has handed out so far (removed from its cache)
//   pub_taken    the same for the DCPSPublication reader
//   topic_taken  the same for the DCPSTopic reader (with the SampleInfo it came with)
//
// The DiscoveryDB operations are NOT restated here: their real text is under contract in unit `announce`
// (update_subscription / update_publication: announce.consume.db) and unit `db_frame` (remove_topic_reader /
// remove_topic_writer: match.db.remove.*).  Here an operation only appends itself to the trace; what it
// RETURNS is an uninterpreted function of (the trace up to the call, the argument): nothing is assumed about
// the answer — the DB is shared with other threads — except that the call has ONE answer, the value
// the code got back.  The listing queries of handle_topic_reader are read-only and not entered into the
// trace; their answer is an uninterpreted function of (the trace when the read lock was taken, the arguments).
// ---------------------------------------------------------------------------------------------
pub enum DbOp {
    UpdateSubscription(DiscoveredReaderData),
    UpdatePublication(DiscoveredWriterData),
    RemoveTopicReader(GUID),
    RemoveTopicWriter(GUID),
    UpdateTopicData(DiscoveredTopicData, GUID, DiscoveredVia),
}
pub enum Ev {
    Db(DbOp),
    Notify(DiscoveryNotificationType),
    Status(DomainParticipantStatusEvent),
}
pub tracked struct World {
    pub ghost trace: Seq<Ev>,
    pub ghost sub_taken: Seq<Sample<DiscoveredReaderData, Endpoint_GUID>>,
    pub ghost pub_taken: Seq<Sample<DiscoveredWriterData, Endpoint_GUID>>,
    pub ghost topic_taken: Seq<DataSample<DiscoveredTopicData>>,
}

// ---- placeholders (R9): values that are only moved / compared as a whole ----
#[verifier::external_body] pub struct Rest { opaque: u8 }                 // Locator lists, builtin-topic data, content filter, timestamps
#[verifier::external_body] pub struct TopicData { opaque: u8 }
#[verifier::external_body] pub struct EndpointDescription { opaque: u8 }
#[verifier::external_body] pub struct QosPolicies { opaque: u8 }
#[verifier::external_body] pub struct ReadError { opaque: u8 }
#[verifier::external_body] pub struct DbHandle { opaque: u8 }             // Arc<RwLock<DiscoveryDB>>
#[verifier::external_body] pub struct SubReader { opaque: u8 }            // DataReaderPlCdr<DiscoveredReaderData>
#[verifier::external_body] pub struct PubReader { opaque: u8 }            // DataReaderPlCdr<DiscoveredWriterData>
#[verifier::external_body] pub struct TopicReader { opaque: u8 }          // DataReaderPlCdr<DiscoveredTopicData>
pub struct SubTopicHandle { pub reader: SubReader }                       // with_key::DiscoveryTopicPlCdr<..>, field `reader`
pub struct PubTopicHandle { pub reader: PubReader }
pub struct TopicTopicHandle { pub reader: TopicReader }
#[verifier::external_body] pub struct SampleInfo { opaque: u8 }
#[verifier::external_body] pub struct ReadCondition { opaque: u8 }
impl ReadCondition {
    #[verifier::external_body] pub fn any() -> (r: Self) { unimplemented!() }
    #[verifier::external_body] pub fn not_read() -> (r: Self) { unimplemented!() }
}
impl SampleInfo {
    pub uninterp spec fn sp_writer_guid(&self) -> GUID;
    #[verifier::external_body] pub fn writer_guid(&self) -> (r: GUID) ensures r == self.sp_writer_guid() { unimplemented!() }
}

// `impl Keyed for Discovered{Reader,Writer,Topic}Data { type K = Endpoint_GUID; }` (sedp_messages.rs)
pub trait Keyed { type K; }
impl Keyed for DiscoveredReaderData { type K = Endpoint_GUID; }
impl Keyed for DiscoveredWriterData { type K = Endpoint_GUID; }
impl Keyed for DiscoveredTopicData { type K = Endpoint_GUID; }

// ---------------------------------------------------------------------------------------------
// The iterator a DDS reader hands out and the std adapters the glue applies to it (map / filter / collect;
// take / next so that a change which stops after the first item is judged on its text).  LAZINESS IS DROPPED:
// an adapter is specified by the sequence of items it yields (the closures used here are pure).
// `map` and `filter` take the spec-level meaning of their closure as an erased Ghost argument (added by @@subst
// at the call): the `requires` clause checks it against the closure's verified `ensures`, the result is then
// the closed form  items.map_values(g)  /  kept(items, pred).
// ---------------------------------------------------------------------------------------------
#[verifier::external_body]
#[verifier::reject_recursive_types(T)]
pub struct SedpIter<T> { v: Vec<T> }
// the subsequence of the items satisfying pred, in order
pub open spec fn kept<T>(s: Seq<T>, pred: spec_fn(T) -> bool) -> Seq<T>
    decreases s.len()
{
    if s.len() == 0 { Seq::<T>::empty() } else {
        let r = kept(s.drop_last(), pred);
        if pred(s.last()) { r.push(s.last()) } else { r }
    }
}
impl<T> SedpIter<T> {
    pub uninterp spec fn items(&self) -> Seq<T>;
    // std: "Takes a closure and creates an iterator which calls that closure on each element"
    #[verifier::external_body]
    pub fn map<U, F: Fn(T) -> U>(self, Ghost(g): Ghost<spec_fn(T) -> U>, f: F) -> (r: SedpIter<U>)
        requires forall|x: T| f.requires((x,)),
                 forall|x: T, o: U| f.ensures((x,), o) ==> o == g(x),
        ensures r.items() == self.items().map_values(g),
    { unimplemented!() }
    // std: "Creates an iterator which uses a closure to determine if an element should be yielded" (true = yielded)
    #[verifier::external_body]
    pub fn filter<P: Fn(&T) -> bool>(self, Ghost(pred): Ghost<spec_fn(T) -> bool>, p: P) -> (r: SedpIter<T>)
        requires forall|x: &T| p.requires((x,)),
                 forall|x: &T, o: bool| p.ensures((x,), o) ==> o == pred(*x),
        ensures r.items() == kept(self.items(), pred),
    { unimplemented!() }
    #[verifier::external_body]
    pub fn collect(self) -> (r: Vec<T>) ensures r@ == self.items() { unimplemented!() }
    // std: "Creates an iterator that yields the first n elements, or fewer if the underlying iterator ends sooner"
    #[verifier::external_body]
    pub fn take(self, n: usize) -> (r: SedpIter<T>)
        ensures r.items() == self.items().take(if n <= self.items().len() { n as int } else { self.items().len() as int }),
    { unimplemented!() }
    #[verifier::external_body]
    pub fn next(&mut self) -> (r: Option<T>)
        ensures old(self).items().len() == 0 ==> r is None && final(self).items() == old(self).items(),
                old(self).items().len() > 0 ==> r == Some(old(self).items()[0]) && final(self).items() == old(self).items().skip(1),
    { unimplemented!() }
}
// what DataReader::take(max, condition) hands out (a Vec<DataSample<D>>); `.iter()` yields references to its items
#[verifier::external_body]
#[verifier::reject_recursive_types(T)]
pub struct TakenVec<T> { v: Vec<T> }
impl<T> TakenVec<T> {
    pub uninterp spec fn items(&self) -> Seq<T>;
    #[verifier::external_body]
    pub fn iter<'a>(&'a self) -> (r: SedpIter<&'a T>)
        ensures r.items().len() == self.items().len(), forall|i: int| 0 <= i < self.items().len() ==> *(#[trigger] r.items()[i]) == self.items()[i],
    { unimplemented!() }
}

// ---- STUBS: the three built-in readers.  ASSUMED: a call hands out an arbitrary finite sequence of samples
// (Ok) — recorded in World::*_taken — or fails (Err) and then hands out nothing; it does nothing else. ----
impl SubReader {
    #[verifier::external_body]
    pub fn into_iterator(&mut self, Tracked(w): Tracked<&mut World>) -> (r: Result<SedpIter<Sample<DiscoveredReaderData, Endpoint_GUID>>, ReadError>)
        ensures
            match r {
                Ok(it) => final(w).sub_taken == old(w).sub_taken + it.items()
                    // (the same, said with take / skip)
                    && final(w).sub_taken.len() >= old(w).sub_taken.len() && final(w).sub_taken.take(old(w).sub_taken.len() as int) == old(w).sub_taken
                    && it.items() == final(w).sub_taken.skip(old(w).sub_taken.len() as int),
                Err(_) => final(w).sub_taken == old(w).sub_taken },
            final(w).trace == old(w).trace, final(w).pub_taken == old(w).pub_taken, final(w).topic_taken == old(w).topic_taken,
    { unimplemented!() }
}
impl PubReader {
    #[verifier::external_body]
    pub fn into_iterator(&mut self, Tracked(w): Tracked<&mut World>) -> (r: Result<SedpIter<Sample<DiscoveredWriterData, Endpoint_GUID>>, ReadError>)
        ensures
            match r {
                Ok(it) => final(w).pub_taken == old(w).pub_taken + it.items()
                    // (the same, said with take / skip)
                    && final(w).pub_taken.len() >= old(w).pub_taken.len() && final(w).pub_taken.take(old(w).pub_taken.len() as int) == old(w).pub_taken
                    && it.items() == final(w).pub_taken.skip(old(w).pub_taken.len() as int),
                Err(_) => final(w).pub_taken == old(w).pub_taken },
            final(w).trace == old(w).trace, final(w).sub_taken == old(w).sub_taken, final(w).topic_taken == old(w).topic_taken,
    { unimplemented!() }
}
impl TopicReader {
    #[verifier::external_body]
    pub fn take(&mut self, Tracked(w): Tracked<&mut World>, max_samples: usize, read_condition: ReadCondition) -> (r: Result<TakenVec<DataSample<DiscoveredTopicData>>, ReadError>)
        ensures
            match r {
                Ok(v) => final(w).topic_taken == old(w).topic_taken + v.items()
                    // (the same, said with take / skip)
                    && final(w).topic_taken.len() >= old(w).topic_taken.len() && final(w).topic_taken.take(old(w).topic_taken.len() as int) == old(w).topic_taken
                    && v.items() == final(w).topic_taken.skip(old(w).topic_taken.len() as int),
                Err(_) => final(w).topic_taken == old(w).topic_taken },
            final(w).trace == old(w).trace, final(w).sub_taken == old(w).sub_taken, final(w).pub_taken == old(w).pub_taken,
    { unimplemented!() }
}

// ---- STUBS: the DiscoveryDB behind its lock ----
#[verifier::external_body] pub struct DiscoveryDB { opaque: u8 }
// what the DB answered (see the header): uninterpreted functions of (trace up to the call, arguments)
pub uninterp spec fn sub_returned(t: Seq<Ev>, d: DiscoveredReaderData) -> DiscoveredReaderData;
pub uninterp spec fn pub_returned(t: Seq<Ev>, d: DiscoveredWriterData) -> DiscoveredWriterData;
pub uninterp spec fn writers_listed(t: Seq<Ev>, topic_name: Seq<char>, participant: GuidPrefix) -> Seq<DiscoveredWriterData>;
pub uninterp spec fn readers_listed(t: Seq<Ev>, topic_name: Seq<char>, participant: GuidPrefix) -> Seq<DiscoveredReaderData>;
impl DiscoveryDB {
    // the trace as seen through the guard: World::trace when the lock was taken + the operations made through the guard
    pub uninterp spec fn evs(&self) -> Seq<Ev>;

    #[verifier::external_body]
    pub fn update_subscription(&mut self, data: &DiscoveredReaderData) -> (r: DiscoveredReaderData)
        ensures final(self).evs() == old(self).evs().push(Ev::Db(DbOp::UpdateSubscription(*data))),
                r == sub_returned(old(self).evs(), *data),
    { unimplemented!() }
    #[verifier::external_body]
    pub fn update_publication(&mut self, data: &DiscoveredWriterData) -> (r: DiscoveredWriterData)
        ensures final(self).evs() == old(self).evs().push(Ev::Db(DbOp::UpdatePublication(*data))),
                r == pub_returned(old(self).evs(), *data),
    { unimplemented!() }
    #[verifier::external_body]
    pub fn remove_topic_reader(&mut self, guid: GUID)
        ensures final(self).evs() == old(self).evs().push(Ev::Db(DbOp::RemoveTopicReader(guid))),
    { unimplemented!() }
    #[verifier::external_body]
    pub fn remove_topic_writer(&mut self, guid: GUID)
        ensures final(self).evs() == old(self).evs().push(Ev::Db(DbOp::RemoveTopicWriter(guid))),
    { unimplemented!() }
    #[verifier::external_body]
    pub fn update_topic_data(&mut self, dtd: &DiscoveredTopicData, updater: GUID, discovered_via: DiscoveredVia)
        ensures final(self).evs() == old(self).evs().push(Ev::Db(DbOp::UpdateTopicData(*dtd, updater, discovered_via))),
    { unimplemented!() }
    #[verifier::external_body]
    pub fn writers_on_topic_and_participant(&self, topic_name: &str, participant: GuidPrefix) -> (r: Vec<DiscoveredWriterData>)
        ensures r@ == writers_listed(self.evs(), topic_name@, participant),
    { unimplemented!() }
    #[verifier::external_body]
    pub fn readers_on_topic_and_participant(&self, topic_name: &str, participant: GuidPrefix) -> (r: Vec<DiscoveredReaderData>)
        ensures r@ == readers_listed(self.evs(), topic_name@, participant),
    { unimplemented!() }
}
// STUB: write-lock acquisition.  The returned `&mut DiscoveryDB` stands for the RwLockWriteGuard (DerefMut): it borrows
// the World, so nothing else can be appended to the trace while the guard lives; `*final(g)` is the state when the guard
// is dropped.
#[verifier::external_body]
pub fn discovery_db_write<'a>(Tracked(w): Tracked<&'a mut World>, discovery_db: &'a DbHandle) -> (g: &'a mut DiscoveryDB)
    ensures
        g.evs() == old(w).trace, final(w).trace == final(g).evs(),
        final(w).sub_taken == old(w).sub_taken, final(w).pub_taken == old(w).pub_taken, final(w).topic_taken == old(w).topic_taken,
{ unimplemented!() }
// STUB: read-lock acquisition (RwLockReadGuard, Deref): no effect
#[verifier::external_body]
pub fn discovery_db_read<'a>(Tracked(w): Tracked<&'a mut World>, discovery_db: &'a DbHandle) -> (g: &'a DiscoveryDB)
    ensures g.evs() == old(w).trace, *final(w) == *old(w),
{ unimplemented!() }
