// ---------------------------------------------------------------------------------------------
// Stubs around DataFrag::deserialize (unit `fragments`): the speedy readers return ARBITRARY values
// (no contract on the value read); a successful read leaves the cursor inside the buffer.
// ---------------------------------------------------------------------------------------------
pub type Error = SpeedyError;       // `speedy::Error` in data_frag.rs

pub trait SpeedyReadable: Sized {
    // speedy::Readable::read_from_stream_unbuffered_with_ctx(ctx, &mut cursor)
    fn read_from_stream_unbuffered_with_ctx<'a>(ctx: Endianness, stream: &mut io::Cursor<&'a &'a Bytes>) -> (r: Result<Self, SpeedyError>)
        ensures
            final(stream).data() == old(stream).data(),
            r.is_ok() ==> old(stream).pos() <= final(stream).pos() <= old(stream).data().len();
}
impl SpeedyReadable for u16 {
    #[verifier::external_body]
    fn read_from_stream_unbuffered_with_ctx<'a>(ctx: Endianness, stream: &mut io::Cursor<&'a &'a Bytes>) -> (r: Result<Self, SpeedyError>) { unimplemented!() }
}
impl SpeedyReadable for u32 {
    #[verifier::external_body]
    fn read_from_stream_unbuffered_with_ctx<'a>(ctx: Endianness, stream: &mut io::Cursor<&'a &'a Bytes>) -> (r: Result<Self, SpeedyError>) { unimplemented!() }
}
impl SpeedyReadable for EntityId {
    #[verifier::external_body]
    fn read_from_stream_unbuffered_with_ctx<'a>(ctx: Endianness, stream: &mut io::Cursor<&'a &'a Bytes>) -> (r: Result<Self, SpeedyError>) { unimplemented!() }
}
impl SpeedyReadable for SequenceNumber {
    #[verifier::external_body]
    fn read_from_stream_unbuffered_with_ctx<'a>(ctx: Endianness, stream: &mut io::Cursor<&'a &'a Bytes>) -> (r: Result<Self, SpeedyError>) { unimplemented!() }
}
impl SpeedyReadable for FragmentNumber {
    #[verifier::external_body]
    fn read_from_stream_unbuffered_with_ctx<'a>(ctx: Endianness, stream: &mut io::Cursor<&'a &'a Bytes>) -> (r: Result<Self, SpeedyError>) { unimplemented!() }
}
impl SpeedyReadable for ParameterList {
    #[verifier::external_body]
    fn read_from_stream_unbuffered_with_ctx<'a>(ctx: Endianness, stream: &mut io::Cursor<&'a &'a Bytes>) -> (r: Result<Self, SpeedyError>) { unimplemented!() }
}

impl<T: io::AsByteSeq> io::Cursor<T> {
    #[verifier::external_body]
    pub fn position(&self) -> (r: u64) ensures r as int == self.pos() { unimplemented!() }
    #[verifier::external_body]
    pub fn set_position(&mut self, pos: u64) ensures final(self).pos() == pos as int, final(self).data() == old(self).data() { unimplemented!() }
}
impl Bytes {
    // "Splits the bytes into two at the given index. Afterwards self contains elements [0, at), and
    //  the returned Bytes contains elements [at, len).  Panics if at > len."
    #[verifier::external_body]
    pub fn split_off(&mut self, at: usize) -> (r: Bytes)
        requires at <= old(self)@.len(),
        ensures final(self)@ == old(self)@.subrange(0, at as int), r@ == old(self)@.subrange(at as int, old(self)@.len() as int),
    { unimplemented!() }
}
// submessage_flag.rs::endianness_flag: bit 0 of the flags byte -> speedy::Endianness (placeholder type)
#[verifier::external_body]
pub fn endianness_flag(flags: u8) -> Endianness { unimplemented!() }

// R2 template impls for the derived PartialEq / PartialOrd of FragmentNumber (inner u32)
impl PartialEqSpecImpl for FragmentNumber {
    open spec fn obeys_eq_spec() -> bool { true }
    open spec fn eq_spec(&self, other: &Self) -> bool { self.0 == other.0 }
}
impl PartialEq for FragmentNumber { fn eq(&self, other: &Self) -> (r: bool) { self.0 == other.0 } }
impl PartialOrdSpecImpl for FragmentNumber {
    open spec fn obeys_partial_cmp_spec() -> bool { true }
    open spec fn partial_cmp_spec(&self, other: &Self) -> Option<Ordering> {
        if self.0 < other.0 { Some(Ordering::Less) } else if self.0 == other.0 { Some(Ordering::Equal) } else { Some(Ordering::Greater) }
    }
}
impl PartialOrd for FragmentNumber {
    fn partial_cmp(&self, other: &Self) -> (r: Option<Ordering>) {
        if self.0 < other.0 { Some(Ordering::Less) } else if self.0 == other.0 { Some(Ordering::Equal) } else { Some(Ordering::Greater) }
    }
}
// R16: `format!(..)` -> opaque String placeholder (feeds error values only)
#[verifier::external_body]
pub fn verif_fmt() -> String { unimplemented!() }
