// ---------------------------------------------------------------------------------------------
// Own shim file of unit `data_body`: structure/sequence_number.rs -- SequenceNumber / FragmentNumber as the DATA_FRAG
// parser uses them (`writer_sn < SequenceNumber::new(1)`, `fragment_starting_num > expected_total`): the extracted
// structs, their real constructors, and the R2 template impls of the derived PartialEq / PartialOrd (same text as
// shims/fragments_sn.rs / fragments_fn.rs / fragments_parse.rs; own copy so that this unit depends only on its own files).
// ---------------------------------------------------------------------------------------------
@@extract struct src/structure/sequence_number.rs SequenceNumber derive=Clone,Copy
impl PartialEqSpecImpl for SequenceNumber {
    open spec fn obeys_eq_spec() -> bool { true }
    open spec fn eq_spec(&self, other: &Self) -> bool { self.0 == other.0 }
}
impl PartialEq for SequenceNumber { fn eq(&self, other: &Self) -> (r: bool) { self.0 == other.0 } }
impl PartialOrdSpecImpl for SequenceNumber {
    open spec fn obeys_partial_cmp_spec() -> bool { true }
    open spec fn partial_cmp_spec(&self, other: &Self) -> Option<Ordering> {
        if self.0 < other.0 { Some(Ordering::Less) } else if self.0 == other.0 { Some(Ordering::Equal) } else { Some(Ordering::Greater) }
    }
}
impl PartialOrd for SequenceNumber {
    fn partial_cmp(&self, other: &Self) -> (r: Option<Ordering>) {
        if self.0 < other.0 { Some(Ordering::Less) } else if self.0 == other.0 { Some(Ordering::Equal) } else { Some(Ordering::Greater) }
    }
}
impl SequenceNumber {
@@extract fn src/structure/sequence_number.rs SequenceNumber::new
@@ret r
@@ensures frag.parse.sn
    r.0 == value
@@end
}
impl FromSpecImpl<i64> for SequenceNumber {
    open spec fn obeys_from_spec() -> bool { true }
    open spec fn from_spec(v: i64) -> Self { SequenceNumber(v) }
}
impl From<i64> for SequenceNumber {
@@extract fn src/structure/sequence_number.rs "From<i64> for SequenceNumber::from"
@@nopub
@@ret r
@@ensures frag.parse.sn
    r.0 == value
@@end
}
@@extract struct src/structure/sequence_number.rs FragmentNumber derive=Clone,Copy
impl PartialEqSpecImpl for FragmentNumber {
    open spec fn obeys_eq_spec() -> bool { true }
    open spec fn eq_spec(&self, other: &Self) -> bool { self.0 == other.0 }
}
impl PartialEq for FragmentNumber { fn eq(&self, other: &Self) -> (r: bool) { self.0 == other.0 } }
impl PartialOrdSpecImpl for FragmentNumber {
    open spec fn obeys_partial_cmp_spec() -> bool { true }
    open spec fn partial_cmp_spec(&self, other: &Self) -> Option<Ordering> {
        if self.0 < other.0 { Some(Ordering::Less) } else if self.0 == other.0 { Some(Ordering::Equal) } else { Some(Ordering::Greater) }
    }
}
impl PartialOrd for FragmentNumber {
    fn partial_cmp(&self, other: &Self) -> (r: Option<Ordering>) {
        if self.0 < other.0 { Some(Ordering::Less) } else if self.0 == other.0 { Some(Ordering::Equal) } else { Some(Ordering::Greater) }
    }
}
impl FragmentNumber {
    pub open spec fn val(&self) -> u32 { self.0 }
@@extract const src/structure/sequence_number.rs FragmentNumber::INVALID
@@extract fn src/structure/sequence_number.rs FragmentNumber::new
@@ret r
@@ensures frag.parse.fn
    r.0 == value
@@end
}
impl FromSpecImpl<FragmentNumber> for usize {
    open spec fn obeys_from_spec() -> bool { true }
    open spec fn from_spec(v: FragmentNumber) -> Self { v.0 as usize }
}
impl From<FragmentNumber> for usize {
@@extract fn src/structure/sequence_number.rs "From<FragmentNumber> for usize::from"
@@nopub
@@ret r
@@ensures frag.parse.fn
    r == fragment_number.0 as usize
@@end
}
pub assume_specification[ <u32 as From<bool>>::from ](b: bool) -> (r: u32)
    ensures r == (if b { 1u32 } else { 0u32 });
