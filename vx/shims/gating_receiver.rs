// ---------------------------------------------------------------------------------------------
// rtps/message_receiver.rs: MessageReceiver pruned (R9) + the exit points of the receive path as
// stubs whose `requires` is property C17 (labels gate.*).
// ---------------------------------------------------------------------------------------------

// the participant's plugin instance (ambient constant: every contract below holds for any value
// of it; the receiver is well-formed when its own handle is that instance)
pub uninterp spec fn the_plugins() -> Option<SecurityPluginsHandle>;

// payload-level gate (statement: "... or of its payload, traffic that arrives without that
// protection and is addressed to such an endpoint is never delivered")
pub open spec fn payload_gate(dst: GUID, payload: Option<Bytes>) -> bool {
    payload matches Some(p) ==> (
        the_plugins() is None
        || the_plugins().unwrap().sp().payload_not_protected@.contains(dst)
        || crypto_plain_payload(p@))
}

pub open spec fn plugins_are_ambient(p: Option<&SecurityPluginsHandle>) -> bool {
    match p { None => the_plugins() is None, Some(h) => the_plugins() == Some(*h) }
}

// ---- rtps/reader.rs: unverified endpoint (behaviour after delivery is out of scope) ----------
#[verifier::external_body] pub struct Reader { p: u8 }
impl Reader {
    pub uninterp spec fn guid_spec(&self) -> GUID;
    #[verifier::external_body] pub fn guid(&self) -> (g: GUID) ensures g == self.guid_spec() { unimplemented!() }
    #[verifier::external_body] pub fn entity_id(&self) -> (e: EntityId) ensures e == self.guid_spec().entity_id { unimplemented!() }
    #[verifier::external_body] pub fn contains_writer(&self, entity_id: EntityId) -> bool { unimplemented!() }
    // NOTE: the real methods take `&mut self`; the stubs take `&self` because the real callers invoke
    // them from inside closures and Verus cannot capture `&mut` in a closure.  Nothing is claimed
    // about the reader's state.
    #[verifier::external_body]
    pub fn handle_data_msg(&self, data: Data, data_flags: BitFlags<DATA_Flags>, mr_state: &MessageReceiverState)
        requires payload_gate(self.guid_spec(), data.serialized_payload),   // [gate.payload]
    { unimplemented!() }
    #[verifier::external_body]
    pub fn handle_datafrag_msg(&self, datafrag: &DataFrag, datafrag_flags: BitFlags<DATAFRAG_Flags>, mr_state: &MessageReceiverState)
        requires payload_gate(self.guid_spec(), Some(datafrag.serialized_payload)),   // [gate.payload]
    { unimplemented!() }
    #[verifier::external_body]
    pub fn handle_heartbeat_msg(&mut self, heartbeat: &Heartbeat, final_flag_set: bool, mr_state: &MessageReceiverState) -> bool
        ensures final(self).guid_spec() == old(self).guid_spec()
    { unimplemented!() }
    #[verifier::external_body]
    pub fn handle_gap_msg(&mut self, gap: &Gap, mr_state: &MessageReceiverState)
        ensures final(self).guid_spec() == old(self).guid_spec()
    { unimplemented!() }
    #[verifier::external_body]
    pub fn handle_heartbeatfrag_msg(&mut self, heartbeatfrag: &HeartbeatFrag, mr_state: &MessageReceiverState)
        ensures final(self).guid_spec() == old(self).guid_spec()
    { unimplemented!() }
}

// BTreeMap<EntityId, Reader>: opaque; the ghost view records which readers were looked up for
// delivery (used for the converse "unprotected traffic keeps flowing")
#[verifier::external_body] pub struct ReaderMap { p: u8 }
impl ReaderMap {
    pub uninterp spec fn lookups(&self) -> Seq<EntityId>;
    // BTreeMap::values() and the iterator adapters the receiver uses on it (which readers exist is
    // not modelled: the adapters return arbitrary elements, `find` only ones its predicate accepted)
    #[verifier::external_body] pub fn values(&self) -> ReaderValues<'_> { unimplemented!() }
}
#[verifier::external_body] pub struct ReaderValues<'a> { p: &'a u8 }
#[verifier::external_body] #[verifier::reject_recursive_types(P)] pub struct ReaderFilter<'a, P> { p: &'a u8, q: P }
#[verifier::external_body] #[verifier::reject_recursive_types(P)] #[verifier::reject_recursive_types(F)] pub struct ReaderFilterMap<'a, P, F> { p: &'a u8, q: P, f: F }
impl<'a> ReaderValues<'a> {
    #[verifier::external_body]
    pub fn filter<P: Fn(&&'a Reader) -> bool>(self, predicate: P) -> ReaderFilter<'a, P>
        requires forall|r: &&'a Reader| predicate.requires((r,))
    { unimplemented!() }
    #[verifier::external_body]
    pub fn find<P: Fn(&&'a Reader) -> bool>(&mut self, predicate: P) -> (o: Option<&'a Reader>)
        requires forall|r: &&'a Reader| predicate.requires((r,))
        ensures o matches Some(rd) ==> predicate.ensures((&rd,), true)
    { unimplemented!() }
}
impl<'a, P: Fn(&&'a Reader) -> bool> ReaderFilter<'a, P> {
    #[verifier::external_body]
    pub fn map<F: Fn(&'a Reader) -> EntityId>(self, f: F) -> ReaderFilterMap<'a, P, F>
        requires forall|r: &'a Reader| f.requires((r,))
    { unimplemented!() }
}
impl<'a, P: Fn(&&'a Reader) -> bool, F: Fn(&'a Reader) -> EntityId> ReaderFilterMap<'a, P, F> {
    #[verifier::external_body] pub fn collect(self) -> Vec<EntityId> { unimplemented!() }
}

// mio_extras::channel::{SyncSender, TrySendError}
pub enum TrySendError<T> { Io(IoError), Full(T), Disconnected(T) }
#[verifier::external_body] pub struct IoError { p: u8 }
#[verifier::external_body] pub struct AckNackSender { p: u8 }      // SyncSender<(GuidPrefix, AckSubmessage)>
#[verifier::external_body] pub struct LivenessSender { p: u8 }     // SyncSender<GuidPrefix>
impl LivenessSender {
    #[verifier::external_body] pub fn try_send(&self, t: GuidPrefix) -> Result<(), TrySendError<GuidPrefix>> { unimplemented!() }
}
pub assume_specification<T, E, F: FnOnce(E) -> T>[ Result::<T, E>::unwrap_or_else ](r: Result<T, E>, op: F) -> (o: T)
    requires r matches Err(e) ==> op.requires((e,)),
    ensures r matches Ok(t) ==> o == t, r matches Err(e) ==> op.ensures((e,), o);

@@extract enum src/rtps/message_receiver.rs SecureReceiverState
@@extract struct src/rtps/message_receiver.rs SecureWrapping
@@extract struct src/rtps/message_receiver.rs MessageReceiverState
impl Clone for SecureWrapping { #[verifier::external_body] fn clone(&self) -> (r: SecureWrapping) ensures r == *self { unimplemented!() } }
@@extract struct src/rtps/message_receiver.rs MessageReceiver opaque=available_readers:ReaderMap;acknack_sender:AckNackSender;spdp_liveness_sender:LivenessSender

impl MessageReceiver {
    // "addressed to such an endpoint": the destination prefix is ours (or the unknown prefix)
    pub open spec fn addressed_to_us(&self) -> bool {
        self.dest_guid_prefix == self.own_guid_prefix || prefix_is_unknown(self.dest_guid_prefix)
    }
    // message-level gate: an RTPS message that arrived without RTPS protection although the
    // governance requires it (flag set) may only reach the three bootstrap endpoints
    pub open spec fn rtps_gate_reader(&self, id: EntityId) -> bool {
        self.must_be_rtps_protection_special_case ==> exempt_reader(id)
    }
    pub open spec fn rtps_gate_writer(&self, id: EntityId) -> bool {
        self.must_be_rtps_protection_special_case ==> exempt_writer(id)
    }
    // the RTPS-level flag may be false only for a reason the statement accepts: no security plugins,
    // the governance does not require RTPS protection for this participant, or the message is
    // the output of a successful decode_rtps_message
    pub open spec fn flag_justified(&self, m: Message) -> bool {
        !self.must_be_rtps_protection_special_case ==> (
            self.security_plugins is None
            || self.security_plugins.unwrap().sp().rtps_not_protected@.contains(self.own_guid_prefix)
            || crypto_plain_message(m))
    }
    // the part of the receiver the gates depend on and no submessage handler may change
    pub open spec fn gate_fixed_eq(&self, o: &MessageReceiver) -> bool {
        &&& self.own_guid_prefix == o.own_guid_prefix
        &&& self.security_plugins == o.security_plugins
        &&& self.must_be_rtps_protection_special_case == o.must_be_rtps_protection_special_case
    }
    // everything the gates read (frame of the entity submessage handlers: only the reader map changes)
    pub open spec fn frame_eq(&self, o: &MessageReceiver) -> bool {
        &&& self.own_guid_prefix == o.own_guid_prefix
        &&& self.source_guid_prefix == o.source_guid_prefix
        &&& self.dest_guid_prefix == o.dest_guid_prefix
        &&& self.security_plugins == o.security_plugins
        &&& self.must_be_rtps_protection_special_case == o.must_be_rtps_protection_special_case
        &&& self.secure_receiver_state == o.secure_receiver_state
        &&& self.submessage_count == o.submessage_count
        &&& self.acknack_sender == o.acknack_sender
        &&& self.spdp_liveness_sender == o.spdp_liveness_sender
    }

    // EXIT towards a Reader (the only access to the reader map for delivery).
    #[verifier::external_body]
    pub fn reader_mut(&mut self, reader_id: EntityId) -> (r: Option<&mut Reader>)
        requires
            old(self).addressed_to_us(),   // [gate.addr]
            old(self).rtps_gate_reader(reader_id),   // [gate.rtps.r]
        ensures
            final(self).frame_eq(old(self)),
            final(self).available_readers.lookups() == old(self).available_readers.lookups().push(reader_id),
    { unimplemented!() }

    // EXIT towards a Writer: `self.acknack_sender.try_send(..)` (call path lifted to the receiver so
    // that the precondition can mention the receiver state; see @@subst in the unit)
    #[verifier::external_body]
    pub fn acknack_sender_try_send(&self, t: (GuidPrefix, AckSubmessage)) -> (r: Result<(), TrySendError<(GuidPrefix, AckSubmessage)>>)
        requires
            self.addressed_to_us(),   // [gate.addr]
            self.rtps_gate_writer(t.1.writer_id_spec()),   // [gate.rtps.w]
    { unimplemented!() }

@@extract fn src/rtps/message_receiver.rs MessageReceiver::clone_partial_message_receiver_state
@@ret r
@@ensures gate.frame.state
    r.source_guid_prefix == self.source_guid_prefix
@@ensures interp.state
    // what the Reader is given as "the state in force for this submessage"
    r.source_timestamp == self.source_timestamp, r.source_guid_prefix == self.source_guid_prefix,
    r.unicast_reply_locator_list@ == self.unicast_reply_locator_list@,
@@end
}
