// ---------------------------------------------------------------------------------------------
// Units `writer_push` / `writer_push_scc`: placeholders (R9) for values that are only moved, the
// waker slot of the DataWriter -> Writer command queue, the R22 key snapshot of BTreeMap, and the
// ghost vocabulary shared with unit writer_acknack (HEARTBEAT counts) and unit history (clock).
// Own `impl` blocks only; the shared shims are not changed.
// ---------------------------------------------------------------------------------------------

// ---- values that are only moved / passed on (R9) ----------------------------------------------
#[verifier::external_body] pub struct DDSData { x: u8 }
impl DDSData {
    pub uninterp spec fn spec_payload_size(&self) -> usize;
    #[verifier::external_body]
    pub fn payload_size(&self) -> (r: usize) ensures r == self.spec_payload_size() { unimplemented!() }
}
#[verifier::external_body] #[derive(Clone, Copy)] pub struct Endianness { x: u8 }     // speedy::Endianness

// ---- Writer.writer_command_receiver_waker: Arc<Mutex<Option<Waker>>> -----------------------------
// "Signal that there is now space in the DataWriter to Writer queue": lock, look at the slot, wake
// the waker if one is registered.  No effect on anything the property talks about.  Poisoning is not
// modelled (as in shims/take_loop_sync.rs): `unwrap()` on the lock result has no precondition.
#[verifier::external_body] pub struct WakerSlot { x: u8 }
#[verifier::external_body] pub struct WakerLockResult<'a> { x: &'a u8 }
#[verifier::external_body] pub struct WakerGuard<'a> { x: &'a u8 }
#[verifier::external_body] pub struct Waker { x: u8 }
impl WakerSlot {
    #[verifier::external_body]
    pub fn lock(&self) -> (r: WakerLockResult<'_>) { unimplemented!() }
}
impl<'a> WakerLockResult<'a> {
    #[verifier::external_body]
    pub fn unwrap(self) -> (r: WakerGuard<'a>) { unimplemented!() }
}
impl<'a> WakerGuard<'a> {
    // Deref to Option<Waker>, then Option::as_ref
    #[verifier::external_body]
    pub fn as_ref(&self) -> (r: Option<&Waker>) { unimplemented!() }
}
impl Waker {
    #[verifier::external_body]
    pub fn wake_by_ref(&self) { unimplemented!() }
}

// ---- R22: the keys of a BTreeMap, each exactly once (same contract as in unit fanout) -------------
impl<K: Ord, V> BTreeMap<K, V> {
    #[verifier::external_body]
    pub fn vx_keys(&self) -> (r: Vec<K>)
        ensures r@.no_duplicates(), forall|k: K| r@.contains(k) <==> self@.contains_key(k),
    { unimplemented!() }
}

// ---- HEARTBEAT count (as in shims/writer_acknack_types.rs): c was taken from the writer's heartbeat
// counter by a fetch_add with a positive increment — established only by Writer::next_heartbeat_count
// (under contract in unit writer_acknack: wack.hb.count)
pub uninterp spec fn is_hb_count(c: i32) -> bool;

// ---- wall clock (as in unit history): the latest Timestamp::now() reading handed out so far ----------
pub uninterp spec fn clock_floor() -> Timestamp;

// ---- the DataWriter -> Writer command queue (part 3 of unit writer_push: the dispatch loop) -------
// dds/statusevents.rs StatusChannelSender<T>: only moved here (unit ack_waiter owns it)
#[verifier::external_body]
#[verifier::reject_recursive_types(T)]
pub struct StatusChannelSender<T> { x: core::marker::PhantomData<T> }
// Writer.ack_waiter: opaque here (unit ack_waiter owns it)
#[verifier::external_body] pub struct AckWaiter { x: u8 }
#[verifier::external_body] pub struct CmdReceiver { x: u8 }              // mio_channel::Receiver<WriterCommand>
#[verifier::external_body] pub struct TryRecvError { x: u8 }
// R30: "did the arm leave the enclosing function through its `return;`?" - unconstrained
#[verifier::external_body]
pub fn vx_arm_returned() -> (r: bool) { unimplemented!() }
