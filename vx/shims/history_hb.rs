// ---------------------------------------------------------------------------------------------
// rtps/writer.rs : HistoryBuffer (extracted) with its abstraction (has / sample), representation
// invariant wf() and the contracts of its seven methods (labels hist.*, wf.hist).  Shared by the
// units `history` and `repair_decision`.  Needs CacheChange, Timestamp, SequenceNumber, BTreeMap.
// ---------------------------------------------------------------------------------------------
@@extract struct src/rtps/writer.rs HistoryBuffer

impl HistoryBuffer {
    // ---- abstraction: which sequence numbers are retained, and the sample retrievable for each
    pub open spec fn has(&self, sn: SequenceNumber) -> bool { self.sequence_number_to_instant@.contains_key(sn) }
    pub open spec fn dom(&self) -> Set<SequenceNumber> { self.sequence_number_to_instant@.dom() }
    pub open spec fn instant(&self, sn: SequenceNumber) -> Timestamp { self.sequence_number_to_instant@[sn] }
    pub open spec fn sample(&self, sn: SequenceNumber) -> Option<CacheChange> {
        if self.has(sn) && self.history_buffer@.contains_key(self.instant(sn)) { Some(self.history_buffer@[self.instant(sn)]) } else { None }
    }
    // ---- representation invariant hb_wf
    pub open spec fn wf(&self) -> bool {
        &&& self.first_seq.0 >= 1 && self.first_seq.0 <= self.last_seq.0 + 1 && self.last_seq.0 < i64::MAX
        // retained sequence numbers lie in [first_seq, last_seq]
        &&& forall|sn: SequenceNumber| #[trigger] self.has(sn) ==> self.first_seq.0 <= sn.0 <= self.last_seq.0
        // every retained sequence number has its sample, and that sample carries this number
        &&& forall|sn: SequenceNumber| #[trigger] self.has(sn) ==> self.history_buffer@.contains_key(self.instant(sn))
                && self.history_buffer@[self.instant(sn)].sequence_number == sn
        // instants increase with sequence numbers
        &&& forall|a: SequenceNumber, b: SequenceNumber| self.has(a) && self.has(b) && a.0 < b.0 ==> klt(#[trigger] self.instant(a), #[trigger] self.instant(b))
        // no orphan samples: every stored sample is reachable through its sequence number
        &&& forall|ts: Timestamp| #[trigger] self.history_buffer@.contains_key(ts) ==> self.has(self.history_buffer@[ts].sequence_number)
                && self.instant(self.history_buffer@[ts].sequence_number) == ts
    }
    // the DataWriter numbers consecutively: retained sequence numbers are exactly [first_seq, last_seq]
    pub open spec fn contiguous(&self) -> bool {
        forall|k: i64| self.first_seq.0 <= k <= self.last_seq.0 ==> self.has(SequenceNumber(k))
    }

@@extract fn src/rtps/writer.rs HistoryBuffer::new
@@ret r
@@ensures hist.new
    r.wf(), r.contiguous(), r.first_seq.0 == 1, r.last_seq.0 == 0,
    forall|sn: SequenceNumber| !r.has(sn),
    r.history_buffer@ == Map::<Timestamp, CacheChange>::empty(),
@@end

@@extract fn src/rtps/writer.rs HistoryBuffer::last_change_sequence_number
@@ret r
@@ensures hist.last
    r == self.last_seq,
    // "highest written": nothing retained is above it, and (consecutive numbering) it is retained unless the history is empty
    self.wf() ==> forall|sn: SequenceNumber| self.has(sn) ==> sn.0 <= r.0,
    self.wf() && self.contiguous() && self.first_seq.0 <= self.last_seq.0 ==> self.has(r),
@@body_start
    proof { if self.first_seq.0 <= self.last_seq.0 && self.contiguous() { assert(self.has(SequenceNumber(self.last_seq.0))); } }
@@end

@@extract fn src/rtps/writer.rs HistoryBuffer::first_change_sequence_number
@@ret r
@@ensures hist.first
    r == self.first_seq,
    // "lowest retrievable": nothing retained is below it, and it is retained unless the history is empty
    self.wf() ==> forall|sn: SequenceNumber| self.has(sn) ==> r.0 <= sn.0,
    self.wf() && self.contiguous() && self.first_seq.0 <= self.last_seq.0 ==> self.has(r) && self.sample(r).is_some(),
@@body_start
    proof { if self.first_seq.0 <= self.last_seq.0 && self.contiguous() { assert(self.has(SequenceNumber(self.first_seq.0))); } }
@@end

@@extract fn src/rtps/writer.rs HistoryBuffer::get_change
@@ret r
@@ensures hist.get_change
    match r { Some(cc) => self.history_buffer@.contains_key(ts) && *cc == self.history_buffer@[ts], None => !self.history_buffer@.contains_key(ts) }
@@end

@@extract fn src/rtps/writer.rs HistoryBuffer::get_by_sn
@@ret r
@@ensures hist.get
    // answered with exactly the sample stored for sn (sample() is extended only by add_change, see hist.add)
    match r { Some(cc) => self.sample(sn) == Some(*cc), None => self.sample(sn).is_none() },
    self.wf() ==> (r.is_some() <==> self.has(sn)),
    self.wf() && r.is_some() ==> r.unwrap().sequence_number == sn,
@@closure 1
    |ts: &Timestamp| -> (o: Option<&CacheChange>)
        ensures match o { Some(cc) => self.history_buffer@.contains_key(*ts) && *cc == self.history_buffer@[*ts], None => !self.history_buffer@.contains_key(*ts) }
@@end

// the same text once more WITHOUT the arrival-order assumption (two application threads sharing a
// DataWriter, or async writes completing in reverse, can deliver sequence numbers out of order):
// whatever arrives, the highest written sequence number never moves back — it is what HEARTBEATs
// advertise (C04) and what wait_for_acknowledgments waits for (C20, seed C20f)
@@extract fn src/rtps/writer.rs HistoryBuffer::add_change as=add_change__any_order
@@ensures hist.add.last_monotone
    final(self).last_seq.0 == (if new_cache_change.sequence_number.0 > old(self).last_seq.0 { new_cache_change.sequence_number.0 } else { old(self).last_seq.0 }),
    final(self).first_seq == old(self).first_seq,
@@end

@@extract fn src/rtps/writer.rs HistoryBuffer::add_change
@@requires wf.hist
    old(self).wf()
@@requires hist.add.pre.order
    // the DataWriter hands out increasing sequence numbers
    new_cache_change.sequence_number.0 > old(self).last_seq.0, new_cache_change.sequence_number.0 < i64::MAX,
@@requires hist.add.pre.clock
    // "The timestamp taken here is used as a unique(!) key in the cache": later than every stored instant
    forall|ts: Timestamp| old(self).history_buffer@.contains_key(ts) ==> klt(ts, timestamp),
@@ensures wf.hist
    final(self).wf(),
    old(self).contiguous() && new_cache_change.sequence_number.0 == old(self).last_seq.0 + 1 ==> final(self).contiguous(),
@@ensures hist.add
    // maps extended by exactly that entry; last_seq updated
    final(self).sequence_number_to_instant@ == old(self).sequence_number_to_instant@.insert(new_cache_change.sequence_number, timestamp),
    final(self).history_buffer@ == old(self).history_buffer@.insert(timestamp, new_cache_change),
    final(self).last_seq == new_cache_change.sequence_number,
    final(self).first_seq == old(self).first_seq,
    // whole view: the retrievable sample of the new number is this change, all others are unchanged
    forall|sn: SequenceNumber| #[trigger] final(self).sample(sn) == (if sn == new_cache_change.sequence_number { Some(new_cache_change) } else { old(self).sample(sn) }),
@@body_end
    proof {
        let nsn = new_cache_change.sequence_number;
        assert(!old(self).history_buffer@.contains_key(timestamp)) by {
            if old(self).history_buffer@.contains_key(timestamp) { assert(klt(timestamp, timestamp)); }
        }
        assert(!old(self).has(nsn));
        assert forall|sn: SequenceNumber| #[trigger] self.has(sn) implies self.history_buffer@.contains_key(self.instant(sn))
                && self.history_buffer@[self.instant(sn)].sequence_number == sn by {
            if sn != nsn { assert(old(self).has(sn)); assert(old(self).instant(sn) != timestamp); }
        }
        assert forall|a: SequenceNumber, b: SequenceNumber| self.has(a) && self.has(b) && a.0 < b.0 implies klt(#[trigger] self.instant(a), #[trigger] self.instant(b)) by {
            assert(a != nsn) by { if a == nsn { assert(old(self).has(b)); } }
            assert(old(self).has(a));
            if b == nsn { assert(old(self).history_buffer@.contains_key(old(self).instant(a))); }
            else { assert(old(self).has(b)); }
        }
        assert forall|ts: Timestamp| #[trigger] self.history_buffer@.contains_key(ts) implies self.has(self.history_buffer@[ts].sequence_number)
                && self.instant(self.history_buffer@[ts].sequence_number) == ts by {
            if ts != timestamp { assert(old(self).history_buffer@.contains_key(ts)); assert(old(self).has(old(self).history_buffer@[ts].sequence_number)); }
        }
        assert forall|sn: SequenceNumber| #[trigger] self.sample(sn) == (if sn == nsn { Some(new_cache_change) } else { old(self).sample(sn) }) by {
            if sn != nsn && old(self).has(sn) { assert(old(self).instant(sn) != timestamp); }
        }
        if old(self).contiguous() && nsn.0 == old(self).last_seq.0 + 1 {
            assert forall|k: i64| self.first_seq.0 <= k <= self.last_seq.0 implies self.has(SequenceNumber(k)) by {
                if k <= old(self).last_seq.0 { assert(old(self).has(SequenceNumber(k))); }
            }
        }
    }
@@end

@@extract fn src/rtps/writer.rs HistoryBuffer::remove_changes_before
@@requires wf.hist
    old(self).wf()
@@ensures wf.hist
    final(self).wf(),
    old(self).contiguous() ==> final(self).contiguous(),
@@ensures hist.remove_before
    // if k is retained: dom' == {sn in dom | sn >= k} and first_seq' == k; else nothing changes
    old(self).has(remove_before_seq) ==> final(self).first_seq == remove_before_seq
        && (forall|sn: SequenceNumber| #[trigger] final(self).has(sn) <==> (old(self).has(sn) && sn.0 >= remove_before_seq.0)),
    !old(self).has(remove_before_seq) ==> final(self).first_seq == old(self).first_seq
        && final(self).sequence_number_to_instant@ == old(self).sequence_number_to_instant@
        && final(self).history_buffer@ == old(self).history_buffer@,
    final(self).last_seq == old(self).last_seq,
    // retained samples are untouched, removed ones are no longer retrievable
    forall|sn: SequenceNumber| final(self).has(sn) ==> #[trigger] final(self).sample(sn) == old(self).sample(sn),
    forall|sn: SequenceNumber| !final(self).has(sn) ==> (#[trigger] final(self).sample(sn)).is_none(),
@@body_end
    proof {
        if old(self).has(remove_before_seq) {
            let k = remove_before_seq;
            let tk = old(self).instant(k);
            assert forall|sn: SequenceNumber| #[trigger] self.has(sn) <==> (old(self).has(sn) && sn.0 >= k.0) by {
                assert(klt(sn, k) <==> sn.0 < k.0);
            }
            assert forall|sn: SequenceNumber| #[trigger] self.has(sn) implies self.instant(sn) == old(self).instant(sn)
                    && self.history_buffer@.contains_key(self.instant(sn)) && self.history_buffer@[self.instant(sn)] == old(self).history_buffer@[old(self).instant(sn)] by {
                assert(old(self).has(sn) && sn.0 >= k.0);
                if sn.0 > k.0 { assert(klt(old(self).instant(k), old(self).instant(sn))); }
                assert(old(self).history_buffer@.contains_key(old(self).instant(sn)));
                assert(!klt(old(self).instant(sn), tk));
            }
            assert forall|ts: Timestamp| #[trigger] self.history_buffer@.contains_key(ts) implies self.has(self.history_buffer@[ts].sequence_number)
                    && self.instant(self.history_buffer@[ts].sequence_number) == ts by {
                assert(old(self).history_buffer@.contains_key(ts) && !klt(ts, tk));
                let s = old(self).history_buffer@[ts].sequence_number;
                assert(old(self).has(s) && old(self).instant(s) == ts);
                if s.0 < k.0 { assert(klt(old(self).instant(s), old(self).instant(k))); }
            }
            assert forall|a: SequenceNumber, b: SequenceNumber| self.has(a) && self.has(b) && a.0 < b.0 implies klt(#[trigger] self.instant(a), #[trigger] self.instant(b)) by {
                assert(klt(old(self).instant(a), old(self).instant(b)));
            }
            if old(self).contiguous() {
                assert forall|j: i64| self.first_seq.0 <= j <= self.last_seq.0 implies self.has(SequenceNumber(j)) by {
                    assert(old(self).has(SequenceNumber(j)));
                }
            }
        }
    }
@@end
}

