// ---------------------------------------------------------------------------------------------
// Unit `writer_acknack`, NACKFRAG side: what RtpsReaderProxy::mark_frags_requested touches.
// Assumed contracts (trusted): BTreeMap::entry(..).or_insert_with(..) (same two-step prophecy shim
// as shims/fragments_std.rs, which cannot be included here as a whole), the BitVec methods beyond
// shims/fragments_bitvec.rs, FragmentNumberSet (abstract view; real text: unit number_set).
// ---------------------------------------------------------------------------------------------

// `entry` borrows the map mutably for 'a; `fin()` is the (prophesied) content of the map when that
// borrow ends, fixed by what is done with the entry.
#[verifier::external_body]
#[verifier::reject_recursive_types(K)]
#[verifier::reject_recursive_types(V)]
pub struct BEntry<'a, K, V> { inner: std::collections::btree_map::Entry<'a, K, V> }
impl<'a, K, V> BEntry<'a, K, V> {
    pub uninterp spec fn key(&self) -> K;
    pub uninterp spec fn before(&self) -> Map<K, V>;
    pub uninterp spec fn fin(&self) -> Map<K, V>;
    // "Ensures a value is in the entry by inserting the result of the default function if empty,
    //  and returns a mutable reference to the value in the entry."
    #[verifier::external_body]
    pub fn or_insert_with<F: FnOnce() -> V>(self, default: F) -> (r: &'a mut V)
        requires !self.before().contains_key(self.key()) ==> default.requires(()),
        ensures
            self.before().contains_key(self.key()) ==> *r == self.before()[self.key()],
            !self.before().contains_key(self.key()) ==> default.ensures((), *r),
            self.fin() == self.before().insert(self.key(), *final(r)),
    { unimplemented!() }
}
impl<K: Ord, V> BTreeMap<K, V> {
    #[verifier::external_body]
    pub fn entry<'a>(&'a mut self, key: K) -> (e: BEntry<'a, K, V>)
        ensures e.key() == key, e.before() == old(self)@, final(self)@ == e.fin(),
    { unimplemented!() }
}

// ---- bit_vec::BitVec beyond shims/fragments_bitvec.rs --------------------------------------------
#[verifier::external_body]
pub struct BitVecIter<'a> { b: &'a BitVec }
impl<'a> BitVecIter<'a> {
    pub uninterp spec fn rem(&self) -> Seq<bool>;
    // DoubleEndedIterator::next_back: the last bit still to come
    #[verifier::external_body]
    pub fn next_back(&mut self) -> (r: Option<bool>)
        ensures
            match r {
                None => old(self).rem().len() == 0 && final(self).rem() == old(self).rem(),
                Some(b) => old(self).rem().len() > 0 && b == old(self).rem().last() && final(self).rem() == old(self).rem().drop_last(),
            }
    { unimplemented!() }
}
impl BitVec {
    // "Constructs a new, empty BitVec with the specified capacity" (length 0)
    #[verifier::external_body]
    pub fn with_capacity(nbits: usize) -> (r: BitVec) ensures r@.len() == 0 { unimplemented!() }
    // "Returns an iterator over the elements of the vector in order"
    #[verifier::external_body]
    pub fn iter(&self) -> (r: BitVecIter<'_>) ensures r.rem() == self@ { unimplemented!() }
    // "Grows the BitVec in-place, adding n copies of value" (panics on capacity overflow)
    #[verifier::external_body]
    pub fn grow(&mut self, n: usize, value: bool)
        requires old(self)@.len() + n <= usize::MAX,
        ensures final(self)@ == old(self)@ + Seq::new(n as nat, |i: int| value),
    { unimplemented!() }
}
pub assume_specification[ <usize as From<bool>>::from ](b: bool) -> (r: usize)
    ensures r == (if b { 1usize } else { 0usize });

// ---- FragmentNumberSet = NumberSet<FragmentNumber>: abstract view, as shims/history_snset.rs ------
#[verifier::external_body] pub struct FragmentNumberSet { x: u8 }
#[verifier::external_body] pub struct FnSetIter<'a> { s: &'a FragmentNumberSet }
impl FragmentNumberSet {
    pub uninterp spec fn member(&self, k: int) -> bool;
    // s is the strictly ascending sequence of exactly the members (numset.iter.exact of unit number_set)
    pub open spec fn is_members_seq(&self, s: Seq<FragmentNumber>) -> bool {
        &&& forall|i: int, j: int| 0 <= i < j < s.len() ==> s[i].0 < s[j].0
        &&& forall|i: int| 0 <= i < s.len() ==> self.member((#[trigger] s[i]).0 as int)
        &&& forall|k: int| #[trigger] self.member(k) ==> exists|i: int| 0 <= i < s.len() && s[i].0 == k
    }
    #[verifier::external_body]
    pub fn iter(&self) -> (r: FnSetIter<'_>) ensures self.is_members_seq(r.rem()) { unimplemented!() }
}
impl<'a> FnSetIter<'a> {
    pub uninterp spec fn rem(&self) -> Seq<FragmentNumber>;
    #[verifier::external_body]
    pub fn next(&mut self) -> (r: Option<FragmentNumber>)
        ensures
            match r {
                None => old(self).rem().len() == 0 && final(self).rem() == old(self).rem(),
                Some(k) => old(self).rem().len() > 0 && k == old(self).rem()[0] && final(self).rem() == old(self).rem().skip(1),
            }
    { unimplemented!() }
}
