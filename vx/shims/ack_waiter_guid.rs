// ---------------------------------------------------------------------------------------------
// structure/guid.rs : GuidPrefix, EntityKind, EntityId, GUID (extracted) + R2 template impls for
// the derives PartialEq/Eq/PartialOrd/Ord of GUID (the BTreeMap/BTreeSet key of unit ack_waiter).
// Equality is structural (all bytes); the derived order is lexicographic (prefix bytes, entity
// key, entity kind) — its shape is irrelevant to C20 (only set membership is used), so it is an
// uninterpreted total order here and the exec comparison bodies are assumed, not proved.
// ---------------------------------------------------------------------------------------------
@@extract struct src/structure/guid.rs GuidPrefix derive=Clone,Copy
@@extract struct src/structure/guid.rs EntityKind derive=Clone,Copy
@@extract struct src/structure/guid.rs EntityId derive=Clone,Copy
@@extract struct src/structure/guid.rs GUID derive=Clone,Copy

pub uninterp spec fn guid_cmp(a: GUID, b: GUID) -> Ordering;

impl PartialEqSpecImpl for GUID {
    open spec fn obeys_eq_spec() -> bool { true }
    open spec fn eq_spec(&self, other: &Self) -> bool { *self == *other }
}
impl PartialEq for GUID {
    #[verifier::external_body]
    fn eq(&self, other: &Self) -> (r: bool) {
        self.prefix.bytes == other.prefix.bytes && self.entity_id.entity_key == other.entity_id.entity_key
            && self.entity_id.entity_kind.0 == other.entity_id.entity_kind.0
    }
}
impl Eq for GUID {}
impl PartialOrdSpecImpl for GUID {
    open spec fn obeys_partial_cmp_spec() -> bool { true }
    open spec fn partial_cmp_spec(&self, other: &Self) -> Option<Ordering> { Some(guid_cmp(*self, *other)) }
}
impl PartialOrd for GUID {
    #[verifier::external_body]
    fn partial_cmp(&self, other: &Self) -> (r: Option<Ordering>) { Some(self.cmp(other)) }
}
impl OrdSpecImpl for GUID {
    open spec fn obeys_cmp_spec() -> bool { true }
    open spec fn cmp_spec(&self, other: &Self) -> Ordering { guid_cmp(*self, *other) }
}
impl Ord for GUID {
    #[verifier::external_body]
    fn cmp(&self, other: &Self) -> (r: Ordering) {
        (self.prefix.bytes, self.entity_id.entity_key, self.entity_id.entity_kind.0)
            .cmp(&(other.prefix.bytes, other.entity_id.entity_key, other.entity_id.entity_kind.0))
    }
}
