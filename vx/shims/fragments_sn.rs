// ---------------------------------------------------------------------------------------------
// structure/sequence_number.rs : SequenceNumber as used by unit `fragments` (map key, `< new(1)` in
// the parser): extracted struct + the R2 template impls of the derived PartialEq/Eq/PartialOrd/Ord
// (same text as shims/sn.rs; own copy so that this unit depends only on what it uses).
// ---------------------------------------------------------------------------------------------
@@extract struct src/structure/sequence_number.rs SequenceNumber derive=Clone,Copy

impl PartialEqSpecImpl for SequenceNumber {
    open spec fn obeys_eq_spec() -> bool { true }
    open spec fn eq_spec(&self, other: &Self) -> bool { self.0 == other.0 }
}
impl PartialEq for SequenceNumber { fn eq(&self, other: &Self) -> (r: bool) { self.0 == other.0 } }
impl Eq for SequenceNumber {}
impl PartialOrdSpecImpl for SequenceNumber {
    open spec fn obeys_partial_cmp_spec() -> bool { true }
    open spec fn partial_cmp_spec(&self, other: &Self) -> Option<Ordering> {
        if self.0 < other.0 { Some(Ordering::Less) } else if self.0 == other.0 { Some(Ordering::Equal) } else { Some(Ordering::Greater) }
    }
}
impl PartialOrd for SequenceNumber {
    fn partial_cmp(&self, other: &Self) -> (r: Option<Ordering>) {
        if self.0 < other.0 { Some(Ordering::Less) } else if self.0 == other.0 { Some(Ordering::Equal) } else { Some(Ordering::Greater) }
    }
}
impl OrdSpecImpl for SequenceNumber {
    open spec fn obeys_cmp_spec() -> bool { true }
    open spec fn cmp_spec(&self, other: &Self) -> Ordering {
        if self.0 < other.0 { Ordering::Less } else if self.0 == other.0 { Ordering::Equal } else { Ordering::Greater }
    }
}
impl Ord for SequenceNumber {
    fn cmp(&self, other: &Self) -> (r: Ordering) {
        if self.0 < other.0 { Ordering::Less } else if self.0 == other.0 { Ordering::Equal } else { Ordering::Greater }
    }
}
impl SequenceNumber {
@@extract fn src/structure/sequence_number.rs SequenceNumber::new
@@ret r
@@ensures sn.new
    r.0 == value
@@end
}
impl FromSpecImpl<i64> for SequenceNumber {
    open spec fn obeys_from_spec() -> bool { true }
    open spec fn from_spec(v: i64) -> Self { SequenceNumber(v) }
}
impl From<i64> for SequenceNumber {
@@extract fn src/structure/sequence_number.rs "From<i64> for SequenceNumber::from"
@@nopub
@@ret r
@@ensures sn.from
    r.0 == value
@@end
}
