// ---------------------------------------------------------------------------------------------
// SHIM (assumed, trusted) of unit qos_plcdr: the `speedy` calls made by the PL_CDR helpers.
//
// Wire model.  For every serialised type T the byte string speedy writes for a value and the value
// speedy reads back from a byte string are UNINTERPRETED functions
//     wire::<T>(x, ctx): Seq<u8>            unwire::<T>(bytes, ctx): Option<T>   (None = read error)
// (one independent pair per type instantiation, per byte order `ctx`).  Nothing is assumed about the
// bytes themselves.  The only law is the per-type round trip: writing succeeds (wire_ok) and
// `unwire(wire(x, ctx), ctx) == Some(x)`, stated as one external_body axiom per type in
// shims/qos_plcdr_wire_impls.rs and used only by the round-trip lemmas (plcdr.qos.roundtrip*); each
// is discharged by Kani harness c15_rt_<type> on the real speedy-derive expansion (cross-engine).
// ---------------------------------------------------------------------------------------------

// speedy::Endianness (the `Context` both functions are called with)
#[derive(Clone, Copy)]
pub enum Endianness { LittleEndian, BigEndian }

// speedy::Error and the two PL_CDR error enums (only constructed through `?` / `.into()`)
#[verifier::external_body]
pub struct SpeedyError { e: u8 }
#[verifier::external_body]
pub struct PlCdrSerializeError { e: u8 }
#[verifier::external_body]
pub struct PlCdrDeserializeError { e: u8 }
pub uninterp spec fn ser_err_of(e: SpeedyError) -> PlCdrSerializeError;
pub uninterp spec fn de_err_of(e: SpeedyError) -> PlCdrDeserializeError;
// `#[from] speedy::Error` of thiserror
impl FromSpecImpl<SpeedyError> for PlCdrSerializeError {
    open spec fn obeys_from_spec() -> bool { true }
    open spec fn from_spec(v: SpeedyError) -> Self { ser_err_of(v) }
}
impl From<SpeedyError> for PlCdrSerializeError {
    #[verifier::external_body]
    fn from(e: SpeedyError) -> (r: PlCdrSerializeError) { unimplemented!() }
}
impl FromSpecImpl<SpeedyError> for PlCdrDeserializeError {
    open spec fn obeys_from_spec() -> bool { true }
    open spec fn from_spec(v: SpeedyError) -> Self { de_err_of(v) }
}
impl From<SpeedyError> for PlCdrDeserializeError {
    #[verifier::external_body]
    fn from(e: SpeedyError) -> (r: PlCdrDeserializeError) { unimplemented!() }
}

pub uninterp spec fn wire<T>(x: T, ctx: Endianness) -> Seq<u8>;
// writing x succeeds (speedy writers can fail in general; for the fixed-size types here they do not: part of the axioms)
pub uninterp spec fn wire_ok<T>(x: T, ctx: Endianness) -> bool;
pub uninterp spec fn unwire<T>(bytes: Seq<u8>, ctx: Endianness) -> Option<T>;

// speedy::Writable::write_to_vec_with_ctx — succeeds exactly when wire_ok; if it succeeds the bytes are wire(x, ctx)
pub trait Writable: Sized {
    fn write_to_vec_with_ctx(&self, ctx: Endianness) -> (r: Result<Vec<u8>, SpeedyError>)
        ensures r is Ok <==> wire_ok::<Self>(*self, ctx), r matches Ok(v) ==> v@ == wire::<Self>(*self, ctx);
}
// speedy::Readable::read_from_buffer_with_ctx — Ok(x) exactly when the bytes decode to x
pub trait Readable: Sized {
    fn read_from_buffer_with_ctx(ctx: Endianness, buffer: &Vec<u8>) -> (r: Result<Self, SpeedyError>)
        ensures match unwire::<Self>(buffer@, ctx) { Some(x) => r == Ok::<Self, SpeedyError>(x), None => r is Err };
}
