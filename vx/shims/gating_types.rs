// ---------------------------------------------------------------------------------------------
// Shared types of the C17 units (gating, gating_sub).  Identifiers and message enums are the real
// text (extracted); submessage bodies, channels, the reader map and the crypto plugin are opaque
// placeholders with assumed (mostly empty) contracts.
// ---------------------------------------------------------------------------------------------

// ---- identifiers: real types, real constants ------------------------------------------------
@@extract struct src/structure/guid.rs GuidPrefix derive=Clone,Copy,PartialEq,Eq,Structural
@@extract struct src/structure/guid.rs EntityKind derive=Clone,Copy,PartialEq,Eq,Structural
@@extract struct src/structure/guid.rs EntityId derive=Clone,Copy,PartialEq,Eq,Structural
@@extract struct src/structure/guid.rs GUID derive=Clone,Copy,PartialEq,Eq,Structural

pub open spec fn prefix_is_unknown(p: GuidPrefix) -> bool { forall|i: int| 0 <= i < 12 ==> p.bytes[i] == 0u8 }

impl GuidPrefix {
    // re-declared with its real value (`[0x00; 12]` is exec-only in Verus, hence `exec const`)
    pub exec const UNKNOWN: GuidPrefix ensures forall|p: GuidPrefix| prefix_is_unknown(p) <==> p == GuidPrefix::UNKNOWN {
        let r = GuidPrefix { bytes: [0x00; 12] };
        proof { assert forall|p: GuidPrefix| prefix_is_unknown(p) implies p == r by { assert(p.bytes =~= r.bytes); } }
        r
    }
}
impl EntityKind {
@@extract const src/structure/guid.rs EntityKind::UNKNOWN_USER_DEFINED
@@extract const src/structure/guid.rs EntityKind::WRITER_WITH_KEY_USER_DEFINED
@@extract const src/structure/guid.rs EntityKind::WRITER_NO_KEY_USER_DEFINED
@@extract const src/structure/guid.rs EntityKind::READER_NO_KEY_USER_DEFINED
@@extract const src/structure/guid.rs EntityKind::READER_WITH_KEY_USER_DEFINED
@@extract const src/structure/guid.rs EntityKind::WRITER_GROUP_USER_DEFINED
@@extract const src/structure/guid.rs EntityKind::READER_GROUP_USER_DEFINED
@@extract const src/structure/guid.rs EntityKind::UNKNOWN_BUILT_IN
@@extract const src/structure/guid.rs EntityKind::PARTICIPANT_BUILT_IN
@@extract const src/structure/guid.rs EntityKind::WRITER_WITH_KEY_BUILT_IN
@@extract const src/structure/guid.rs EntityKind::WRITER_NO_KEY_BUILT_IN
@@extract const src/structure/guid.rs EntityKind::READER_NO_KEY_BUILT_IN
@@extract const src/structure/guid.rs EntityKind::READER_WITH_KEY_BUILT_IN
@@extract const src/structure/guid.rs EntityKind::WRITER_GROUP_BUILT_IN
@@extract const src/structure/guid.rs EntityKind::READER_GROUP_BUILT_IN
@@extract const src/structure/guid.rs EntityKind::MIN
@@extract const src/structure/guid.rs EntityKind::MAX
}
impl EntityId {
    // re-declared with its real value (array repeat expression, see above)
    pub exec const UNKNOWN: EntityId ensures forall|e: EntityId| eid_is(e, 0, 0, 0, 0) <==> e == EntityId::UNKNOWN {
        let r = EntityId { entity_key: [0x00; 3], entity_kind: EntityKind::UNKNOWN_USER_DEFINED };
        proof { assert forall|e: EntityId| eid_is(e, 0, 0, 0, 0) implies e == r by { assert(e.entity_key =~= r.entity_key); } }
        r
    }
@@extract const src/structure/guid.rs EntityId::PARTICIPANT
@@extract const src/structure/guid.rs EntityId::SEDP_BUILTIN_TOPIC_WRITER
@@extract const src/structure/guid.rs EntityId::SEDP_BUILTIN_TOPIC_READER
@@extract const src/structure/guid.rs EntityId::SEDP_BUILTIN_PUBLICATIONS_WRITER
@@extract const src/structure/guid.rs EntityId::SEDP_BUILTIN_PUBLICATIONS_READER
@@extract const src/structure/guid.rs EntityId::SEDP_BUILTIN_SUBSCRIPTIONS_WRITER
@@extract const src/structure/guid.rs EntityId::SEDP_BUILTIN_SUBSCRIPTIONS_READER
@@extract const src/structure/guid.rs EntityId::SPDP_BUILTIN_PARTICIPANT_WRITER
@@extract const src/structure/guid.rs EntityId::SPDP_BUILTIN_PARTICIPANT_READER
@@extract const src/structure/guid.rs EntityId::P2P_BUILTIN_PARTICIPANT_MESSAGE_WRITER
@@extract const src/structure/guid.rs EntityId::P2P_BUILTIN_PARTICIPANT_MESSAGE_READER
@@extract const src/structure/guid.rs EntityId::SEDP_BUILTIN_PUBLICATIONS_SECURE_WRITER
@@extract const src/structure/guid.rs EntityId::SEDP_BUILTIN_PUBLICATIONS_SECURE_READER
@@extract const src/structure/guid.rs EntityId::SEDP_BUILTIN_SUBSCRIPTIONS_SECURE_WRITER
@@extract const src/structure/guid.rs EntityId::SEDP_BUILTIN_SUBSCRIPTIONS_SECURE_READER
@@extract const src/structure/guid.rs EntityId::P2P_BUILTIN_PARTICIPANT_MESSAGE_SECURE_WRITER
@@extract const src/structure/guid.rs EntityId::P2P_BUILTIN_PARTICIPANT_MESSAGE_SECURE_READER
@@extract const src/structure/guid.rs EntityId::P2P_BUILTIN_PARTICIPANT_STATELESS_WRITER
@@extract const src/structure/guid.rs EntityId::P2P_BUILTIN_PARTICIPANT_STATELESS_READER
@@extract const src/structure/guid.rs EntityId::P2P_BUILTIN_PARTICIPANT_VOLATILE_SECURE_WRITER
@@extract const src/structure/guid.rs EntityId::P2P_BUILTIN_PARTICIPANT_VOLATILE_SECURE_READER
@@extract const src/structure/guid.rs EntityId::SPDP_RELIABLE_BUILTIN_PARTICIPANT_SECURE_WRITER
@@extract const src/structure/guid.rs EntityId::SPDP_RELIABLE_BUILTIN_PARTICIPANT_SECURE_READER
@@extract const src/structure/guid.rs EntityId::MAX
}

impl GUID {
    // re-declared with its real value (built from the two exec consts above)
    pub exec const GUID_UNKNOWN: GUID ensures prefix_is_unknown(GUID::GUID_UNKNOWN.prefix), forall|p: GuidPrefix| prefix_is_unknown(p) <==> p == GUID::GUID_UNKNOWN.prefix {
        GUID { prefix: GuidPrefix::UNKNOWN, entity_id: EntityId::UNKNOWN }
    }
}

// The three bootstrap topics DDS Security 8.4.2.4 (table 27) exempts from RTPS protection:
// DCPSParticipants (SPDP), DCPSParticipantStatelessMessage (authentication handshake),
// DCPSParticipantVolatileMessageSecure (key exchange).
pub open spec fn exempt_reader(id: EntityId) -> bool {
    id == EntityId::SPDP_BUILTIN_PARTICIPANT_READER
    || id == EntityId::P2P_BUILTIN_PARTICIPANT_STATELESS_READER
    || id == EntityId::P2P_BUILTIN_PARTICIPANT_VOLATILE_SECURE_READER
}
pub open spec fn exempt_writer(id: EntityId) -> bool {
    id == EntityId::SPDP_BUILTIN_PARTICIPANT_WRITER
    || id == EntityId::P2P_BUILTIN_PARTICIPANT_STATELESS_WRITER
    || id == EntityId::P2P_BUILTIN_PARTICIPANT_VOLATILE_SECURE_WRITER
}
pub open spec fn eid_is(id: EntityId, k0: u8, k1: u8, k2: u8, kind: u8) -> bool {
    id.entity_key[0] == k0 && id.entity_key[1] == k1 && id.entity_key[2] == k2 && id.entity_kind.0 == kind
}
// the extracted constants carry the wire values of DDS Security table 9 / RTPS table 9.1
proof fn gating_ids_pinned()
    ensures
        eid_is(EntityId::SPDP_BUILTIN_PARTICIPANT_READER, 0x00, 0x01, 0x00, 0xC7),   // [gate.ids]
        eid_is(EntityId::P2P_BUILTIN_PARTICIPANT_STATELESS_READER, 0x00, 0x02, 0x01, 0xC4),   // [gate.ids]
        eid_is(EntityId::P2P_BUILTIN_PARTICIPANT_VOLATILE_SECURE_READER, 0xff, 0x02, 0x02, 0xC4),   // [gate.ids]
        eid_is(EntityId::SPDP_BUILTIN_PARTICIPANT_WRITER, 0x00, 0x01, 0x00, 0xC2),   // [gate.ids]
        eid_is(EntityId::P2P_BUILTIN_PARTICIPANT_STATELESS_WRITER, 0x00, 0x02, 0x01, 0xC3),   // [gate.ids]
        eid_is(EntityId::P2P_BUILTIN_PARTICIPANT_VOLATILE_SECURE_WRITER, 0xff, 0x02, 0x02, 0xC3),   // [gate.ids]
{ }

// ---- opaque payload / submessage bodies -------------------------------------------------------
#[verifier::external_body] pub struct Bytes { b: Vec<u8> }
impl View for Bytes { type V = Seq<u8>; uninterp spec fn view(&self) -> Seq<u8>; }
impl Bytes {
    #[verifier::external_body] pub fn len(&self) -> (n: usize) ensures n == self@.len() { unimplemented!() }
}
impl Clone for Bytes { #[verifier::external_body] fn clone(&self) -> (r: Bytes) ensures r == *self { unimplemented!() } }
impl From<Vec<u8>> for Bytes { #[verifier::external_body] fn from(v: Vec<u8>) -> (b: Bytes) ensures b@ == v@ { unimplemented!() } }
impl From<Bytes> for Vec<u8> { #[verifier::external_body] fn from(b: Bytes) -> (v: Vec<u8>) ensures v@ == b@ { unimplemented!() } }

#[verifier::external_body] pub struct ParameterList { p: u8 }
impl Default for ParameterList { #[verifier::external_body] fn default() -> ParameterList { unimplemented!() } }
#[verifier::external_body] pub struct SequenceNumber { p: u8 }
#[verifier::external_body] pub struct FragmentNumber { p: u8 }
#[verifier::external_body] pub struct SequenceNumberSet { p: u8 }
#[verifier::external_body] pub struct FragmentNumberSet { p: u8 }
#[verifier::external_body] pub struct SecureBody { p: u8 }
#[verifier::external_body] pub struct SecurePrefix { p: u8 }
#[verifier::external_body] pub struct SecurePostfix { p: u8 }
#[verifier::external_body] pub struct SecureRTPSPrefix { p: u8 }
#[verifier::external_body] pub struct SecureRTPSPostfix { p: u8 }
#[verifier::external_body] pub struct SubmessageHeader { p: u8 }
@@extract struct src/messages/protocol_version.rs ProtocolVersion derive=Clone,Copy
impl ProtocolVersion {
@@extract const src/messages/protocol_version.rs ProtocolVersion::PROTOCOLVERSION_2_4
@@extract const src/messages/protocol_version.rs ProtocolVersion::THIS_IMPLEMENTATION
}
@@extract struct src/messages/vendor_id.rs VendorId derive=Clone,Copy
impl VendorId {
@@extract const src/messages/vendor_id.rs VendorId::VENDOR_UNKNOWN
}
@@extract struct src/messages/header.rs Header keep=protocol_version,vendor_id,guid_prefix
impl Clone for SecurePrefix { #[verifier::external_body] fn clone(&self) -> (r: SecurePrefix) ensures r == *self { unimplemented!() } }
impl Clone for SecurePostfix { #[verifier::external_body] fn clone(&self) -> (r: SecurePostfix) ensures r == *self { unimplemented!() } }

// enumflags2::BitFlags (opaque)
#[verifier::external_body]
#[verifier::reject_recursive_types(T)]
#[verifier::reject_recursive_types(N)]
pub struct BitFlags<T, N = u8> { t: core::marker::PhantomData<(T, N)> }
impl<T, N> BitFlags<T, N> { #[verifier::external_body] pub fn contains(&self, t: T) -> bool { unimplemented!() } }

@@extract enum src/messages/submessages/submessage_flag.rs ACKNACK_Flags
@@extract enum src/messages/submessages/submessage_flag.rs DATA_Flags
@@extract enum src/messages/submessages/submessage_flag.rs DATAFRAG_Flags
@@extract enum src/messages/submessages/submessage_flag.rs GAP_Flags
@@extract enum src/messages/submessages/submessage_flag.rs HEARTBEAT_Flags
@@extract enum src/messages/submessages/submessage_flag.rs HEARTBEATFRAG_Flags
@@extract enum src/messages/submessages/submessage_flag.rs INFODESTINATION_Flags
@@extract enum src/messages/submessages/submessage_flag.rs INFOREPLY_Flags
@@extract enum src/messages/submessages/submessage_flag.rs INFOSOURCE_Flags
@@extract enum src/messages/submessages/submessage_flag.rs INFOTIMESTAMP_Flags
@@extract enum src/messages/submessages/submessage_flag.rs NACKFRAG_Flags
@@extract enum src/messages/submessages/submessage_flag.rs SECUREBODY_Flags
@@extract enum src/messages/submessages/submessage_flag.rs SECUREPREFIX_Flags
@@extract enum src/messages/submessages/submessage_flag.rs SECUREPOSTFIX_Flags
@@extract enum src/messages/submessages/submessage_flag.rs SECURERTPSPREFIX_Flags
@@extract enum src/messages/submessages/submessage_flag.rs SECURERTPSPOSTFIX_Flags

// ---- real message structure -----------------------------------------------------------------
@@extract struct src/messages/submessages/data.rs Data
@@extract struct src/messages/submessages/data_frag.rs DataFrag
#[verifier::external_body] pub struct Locator { p: u8 }
impl Clone for Locator { #[verifier::external_body] fn clone(&self) -> (r: Locator) ensures r == *self { unimplemented!() } }
#[verifier::external_body] #[derive(Clone, Copy)] pub struct Timestamp { p: u8 }
@@extract struct src/messages/submessages/info_timestamp.rs InfoTimestamp
@@extract struct src/messages/submessages/info_source.rs InfoSource
@@extract struct src/messages/submessages/info_reply.rs InfoReply
@@extract struct src/messages/submessages/info_destination.rs InfoDestination
@@extract struct src/messages/submessages/ack_nack.rs AckNack
@@extract struct src/messages/submessages/nack_frag.rs NackFrag
@@extract struct src/messages/submessages/gap.rs Gap
@@extract struct src/messages/submessages/heartbeat.rs Heartbeat
@@extract struct src/messages/submessages/heartbeat_frag.rs HeartbeatFrag
impl Clone for Data { #[verifier::external_body] fn clone(&self) -> (r: Data) ensures r == *self { unimplemented!() } }
impl Clone for DataFrag { #[verifier::external_body] fn clone(&self) -> (r: DataFrag) ensures r == *self { unimplemented!() } }

@@extract enum src/messages/submessages/submessage.rs WriterSubmessage
@@extract enum src/messages/submessages/submessage.rs ReaderSubmessage
@@extract enum src/messages/submessages/submessage.rs SecuritySubmessage
@@extract enum src/messages/submessages/submessage.rs InterpreterSubmessage
@@extract enum src/messages/submessages/submessage.rs AckSubmessage
@@extract enum src/rtps/submessage.rs SubmessageBody
@@extract struct src/rtps/submessage.rs Submessage
@@extract struct src/rtps/message.rs Message
impl Clone for WriterSubmessage { #[verifier::external_body] fn clone(&self) -> (r: WriterSubmessage) ensures r == *self { unimplemented!() } }
impl Clone for Submessage { #[verifier::external_body] fn clone(&self) -> (r: Submessage) ensures r == *self { unimplemented!() } }

// HasEntityIds: real trait-impl bodies, extracted as inherent methods (R4)
impl Data {
@@extract fn src/messages/submessages/data.rs "HasEntityIds for Data::receiver_entity_id"
@@ret r
@@ensures gate.ids.receiver
    r == self.reader_id
@@end
@@extract fn src/messages/submessages/data.rs "HasEntityIds for Data::sender_entity_id"
@@ret r
@@ensures gate.ids.sender
    r == self.writer_id
@@end
}
impl DataFrag {
@@extract fn src/messages/submessages/data_frag.rs "HasEntityIds for DataFrag::receiver_entity_id"
@@ret r
@@ensures gate.ids.receiver
    r == self.reader_id
@@end
@@extract fn src/messages/submessages/data_frag.rs "HasEntityIds for DataFrag::sender_entity_id"
@@ret r
@@ensures gate.ids.sender
    r == self.writer_id
@@end
}
impl Gap {
@@extract fn src/messages/submessages/gap.rs "HasEntityIds for Gap::receiver_entity_id"
@@ret r
@@ensures gate.ids.receiver
    r == self.reader_id
@@end
@@extract fn src/messages/submessages/gap.rs "HasEntityIds for Gap::sender_entity_id"
@@ret r
@@ensures gate.ids.sender
    r == self.writer_id
@@end
}
impl Heartbeat {
@@extract fn src/messages/submessages/heartbeat.rs "HasEntityIds for Heartbeat::receiver_entity_id"
@@ret r
@@ensures gate.ids.receiver
    r == self.reader_id
@@end
@@extract fn src/messages/submessages/heartbeat.rs "HasEntityIds for Heartbeat::sender_entity_id"
@@ret r
@@ensures gate.ids.sender
    r == self.writer_id
@@end
}
impl HeartbeatFrag {
@@extract fn src/messages/submessages/heartbeat_frag.rs "HasEntityIds for HeartbeatFrag::receiver_entity_id"
@@ret r
@@ensures gate.ids.receiver
    r == self.reader_id
@@end
@@extract fn src/messages/submessages/heartbeat_frag.rs "HasEntityIds for HeartbeatFrag::sender_entity_id"
@@ret r
@@ensures gate.ids.sender
    r == self.writer_id
@@end
}
impl AckNack {
@@extract fn src/messages/submessages/ack_nack.rs "HasEntityIds for AckNack::receiver_entity_id"
@@ret r
@@ensures gate.ids.receiver
    r == self.writer_id
@@end
@@extract fn src/messages/submessages/ack_nack.rs "HasEntityIds for AckNack::sender_entity_id"
@@ret r
@@ensures gate.ids.sender
    r == self.reader_id
@@end
}
impl NackFrag {
@@extract fn src/messages/submessages/nack_frag.rs "HasEntityIds for NackFrag::receiver_entity_id"
@@ret r
@@ensures gate.ids.receiver
    r == self.writer_id
@@end
@@extract fn src/messages/submessages/nack_frag.rs "HasEntityIds for NackFrag::sender_entity_id"
@@ret r
@@ensures gate.ids.sender
    r == self.reader_id
@@end
}
impl WriterSubmessage {
    // the reader the submessage is addressed to / the writer it comes from
    pub open spec fn receiver_id(&self) -> EntityId {
        match self {
            WriterSubmessage::Data(s, _) => s.reader_id,
            WriterSubmessage::DataFrag(s, _) => s.reader_id,
            WriterSubmessage::Gap(s, _) => s.reader_id,
            WriterSubmessage::Heartbeat(s, _) => s.reader_id,
            WriterSubmessage::HeartbeatFrag(s, _) => s.reader_id,
        }
    }
@@extract fn src/messages/submessages/submessage.rs "HasEntityIds for WriterSubmessage::receiver_entity_id"
@@ret r
@@ensures gate.ids.receiver
    r == self.receiver_id()
@@end
@@extract fn src/messages/submessages/submessage.rs "HasEntityIds for WriterSubmessage::sender_entity_id"
@@end
}
impl ReaderSubmessage {
    // the writer the ACKNACK / NACKFRAG is addressed to
    pub open spec fn receiver_id(&self) -> EntityId {
        match self {
            ReaderSubmessage::AckNack(s, _) => s.writer_id,
            ReaderSubmessage::NackFrag(s, _) => s.writer_id,
        }
    }
@@extract fn src/messages/submessages/submessage.rs "HasEntityIds for ReaderSubmessage::receiver_entity_id"
@@ret r
@@ensures gate.ids.receiver
    r == self.receiver_id()
@@end
@@extract fn src/messages/submessages/submessage.rs "HasEntityIds for ReaderSubmessage::sender_entity_id"
@@end
}
impl AckSubmessage {
    pub open spec fn writer_id_spec(&self) -> EntityId {
        match self {
            AckSubmessage::AckNack(a) => a.writer_id,
            AckSubmessage::NackFrag(a) => a.writer_id,
        }
    }
}

pub proof fn lemma_u16_mul_fits(a: u16, b: u16)
    ensures 0 <= (a as int) * (b as int) <= 0xFFFF_FFFF
{ assert(0 <= (a as int) * (b as int) <= 0xFFFF_FFFF) by (nonlinear_arith) requires 0 <= a <= 0xFFFF, 0 <= b <= 0xFFFF; }

// ---- std helpers without a vstd specification -------------------------------------------------
pub assume_specification<T, E>[ Option::<Result<T, E>>::transpose ](o: Option<Result<T, E>>) -> (r: Result<Option<T>, E>)
    ensures
        o is None ==> r == Ok::<Option<T>, E>(None),
        o matches Some(Ok(t)) ==> r == Ok::<Option<T>, E>(Some(t)),
        o matches Some(Err(e)) ==> r == Err::<Option<T>, E>(e);

pub assume_specification<T>[ Option::<T>::or ](o: Option<T>, optb: Option<T>) -> (r: Option<T>)
    ensures o is Some ==> r == o, o is None ==> r == optb;

// std::collections::HashSet restricted to contains/insert (assumed contract, model = Set<T>)
#[verifier::external_body]
#[verifier::reject_recursive_types(T)]
pub struct HashSet<T> { s: std::collections::HashSet<T> }
impl<T> View for HashSet<T> { type V = Set<T>; uninterp spec fn view(&self) -> Set<T>; }
impl<T> HashSet<T> {
    #[verifier::external_body] pub fn contains(&self, k: &T) -> (b: bool) ensures b == self@.contains(*k) { unimplemented!() }
    #[verifier::external_body] pub fn insert(&mut self, k: T) -> (b: bool) ensures final(self)@ == old(self)@.insert(k), b == !old(self)@.contains(k) { unimplemented!() }
}
// std::collections::HashMap restricted to insert (no model needed here)
#[verifier::external_body]
#[verifier::reject_recursive_types(K)]
#[verifier::reject_recursive_types(V)]
pub struct HashMap<K, V> { m: std::collections::HashMap<K, V> }
impl<K, V> HashMap<K, V> {
    #[verifier::external_body] pub fn insert(&mut self, k: K, v: V) -> Option<V> { unimplemented!() }
}
