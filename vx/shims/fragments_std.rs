// ---------------------------------------------------------------------------------------------
// SHIMS (assumed contracts, trusted) for std / enumflags2 / byteorder items used by the fragment
// code.  Own file of unit `fragments`; the BTreeMap methods are a separate impl block that adds
// to shims/btreemap.rs without touching it.
// ---------------------------------------------------------------------------------------------

// --- std::io (only what SerializedPayload::from_bytes touches) + byteorder::ReadBytesExt::read_u8
pub mod io {
    use vstd::prelude::*;
    #[verifier::external_body] pub struct Error { _p: u8 }
    pub enum ErrorKind { Other, InvalidData }
    pub type Result<T> = core::result::Result<T, Error>;
    impl Error {
        #[verifier::external_body]
        pub fn new<E>(kind: ErrorKind, error: E) -> Error { unimplemented!() }
    }
    // the byte string a cursor reads from (`T: AsRef<[u8]>` in std)
    pub trait AsByteSeq { spec fn byte_seq(&self) -> Seq<u8>; }
    impl<'a, T: AsByteSeq> AsByteSeq for &'a T { open spec fn byte_seq(&self) -> Seq<u8> { (**self).byte_seq() } }
    #[verifier::external_body]
    #[verifier::reject_recursive_types(T)]
    pub struct Cursor<T> { inner: std::io::Cursor<T> }
    impl<T: AsByteSeq> Cursor<T> {
        pub uninterp spec fn data(&self) -> Seq<u8>;
        pub uninterp spec fn pos(&self) -> int;
        #[verifier::external_body]
        // (a Rust allocation never exceeds isize::MAX bytes: assumed of the underlying buffer)
        pub fn new(inner: T) -> (r: Cursor<T>) ensures r.data() == inner.byte_seq(), r.pos() == 0, r.data().len() <= isize::MAX { unimplemented!() }
        // one byte at the cursor, or Err(UnexpectedEof) at the end; never panics
        #[verifier::external_body]
        pub fn read_u8(&mut self) -> (r: Result<u8>)
            ensures
                final(self).data() == old(self).data(),
                match r {
                    Ok(b) => old(self).pos() < old(self).data().len() && b == old(self).data()[old(self).pos()] && final(self).pos() == old(self).pos() + 1,
                    Err(_) => old(self).pos() >= old(self).data().len() && final(self).pos() == old(self).pos(),
                },
        { unimplemented!() }
    }
}
impl io::AsByteSeq for Bytes { open spec fn byte_seq(&self) -> Seq<u8> { self@ } }

// --- Result::map_or_else (R6: the closures carry their own annotations)
pub assume_specification<T, E, U, D: FnOnce(E) -> U, F: FnOnce(T) -> U>[ Result::<T, E>::map_or_else ](r: Result<T, E>, default: D, f: F) -> (o: U)
    requires match r { Ok(t) => f.requires((t,)), Err(e) => default.requires((e,)) },
    ensures match r { Ok(t) => f.ensures((t,), o), Err(e) => default.ensures((e,), o) };

// --- enumflags2::BitFlags<T>: opaque set of flags
#[verifier::external_body]
#[verifier::reject_recursive_types(T)]
pub struct BitFlags<T> { _p: core::marker::PhantomData<T> }
impl<T> BitFlags<T> {
    pub uninterp spec fn has(&self, f: T) -> bool;
    #[verifier::external_body]
    pub fn contains(self, f: T) -> (r: bool) ensures r == self.has(f) { unimplemented!() }
}

// --- BTreeMap::entry(..).or_insert_with(..) and BTreeMap::retain
// `entry` borrows the map mutably for 'a; `fin()` is the (prophesied) content of the map when that
// borrow ends, fixed by what is done with the entry.
#[verifier::external_body]
#[verifier::reject_recursive_types(K)]
#[verifier::reject_recursive_types(V)]
pub struct BEntry<'a, K, V> { inner: std::collections::btree_map::Entry<'a, K, V> }
impl<'a, K, V> BEntry<'a, K, V> {
    pub uninterp spec fn key(&self) -> K;
    pub uninterp spec fn before(&self) -> Map<K, V>;
    pub uninterp spec fn fin(&self) -> Map<K, V>;
    // "Ensures a value is in the entry by inserting the result of the default function if empty,
    //  and returns a mutable reference to the value in the entry."
    #[verifier::external_body]
    pub fn or_insert_with<F: FnOnce() -> V>(self, default: F) -> (r: &'a mut V)
        requires !self.before().contains_key(self.key()) ==> default.requires(()),
        ensures
            self.before().contains_key(self.key()) ==> *r == self.before()[self.key()],
            !self.before().contains_key(self.key()) ==> default.ensures((), *r),
            self.fin() == self.before().insert(self.key(), *final(r)),
    { unimplemented!() }
}
impl<K: Ord, V> BTreeMap<K, V> {
    #[verifier::external_body]
    pub fn entry<'a>(&'a mut self, key: K) -> (e: BEntry<'a, K, V>)
        ensures e.key() == key, e.before() == old(self)@, final(self)@ == e.fin(),
    { unimplemented!() }

    // "Retains only the elements specified by the predicate": every entry is visited once; it is
    // kept (with whatever the predicate did to the value) iff the predicate returned true
    #[verifier::external_body]
    pub fn retain<F: FnMut(&K, &mut V) -> bool>(&mut self, f: F)
        requires forall|k: &K, v: &mut V| f.requires((k, v)),
        ensures
            forall|k: K| #[trigger] final(self)@.contains_key(k) ==> old(self)@.contains_key(k),
            forall|k: K| #[trigger] old(self)@.contains_key(k) ==> exists|v: &mut V, keep: bool| *v == old(self)@[k] && #[trigger] f.ensures((&k, v), keep)
                && (keep ==> final(self)@.contains_key(k) && final(self)@[k] == *final(v)) && (!keep ==> !final(self)@.contains_key(k)),
    { unimplemented!() }
}
