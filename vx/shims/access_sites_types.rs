// ---------------------------------------------------------------------------------------------
// Shims for unit access_sites (C18: the call sites that ask the access-control plugin).
// Placeholder types with uninterpreted observers; the plugin methods reached through
// `sec_handle.get_plugins()` are STUBS whose `requires` is the property: the plugin must be asked
// about THIS entity (participant prefix, domain id, topic name, QoS) and the endpoint must be
// registered with the attributes of (this GUID, this topic).  What the plugin answers is proved in
// units permissions / sec_attrs / gating; here it is named by uninterpreted functions of the handle.
// ---------------------------------------------------------------------------------------------
@@include shims/guid.rs

#[verifier::external_body] pub struct SecurityError { msg: String }
pub type SecurityResult<T> = std::result::Result<T, SecurityError>;
#[verifier::external_body] pub struct CreateError { p: u8 }                 // dds/result.rs
pub type CreateResult<T> = std::result::Result<T, CreateError>;
// what the macros create_error_internal!(..) / create_error_not_allowed_by_security!(..) (dds/result.rs:
// log::error! + Err(CreateError::X{reason: format!(..)})) carry: some CreateError
#[verifier::external_body] pub fn verif_create_error() -> CreateError { unimplemented!() }

#[verifier::external_body] pub struct QosProperty { p: u8 }                 // qos::policy::Property
#[verifier::external_body] pub struct QosPolicies { p: u8 }
impl QosPolicies {
    pub uninterp spec fn property_of(&self) -> Option<QosProperty>;
    #[verifier::external_body] pub fn property(&self) -> (r: Option<QosProperty>) ensures r == self.property_of() { unimplemented!() }
}
#[verifier::external_body] pub struct EndpointSecurityAttributes { p: u8 }  // security/access_control/types.rs (units sec_attrs, gating)
#[verifier::external_body] pub struct TypeDesc { p: u8 }
impl TypeDesc {
    pub uninterp spec fn name_of(&self) -> Seq<char>;
    #[verifier::external_body] pub fn name(&self) -> (r: &str) ensures r@ == self.name_of() { unimplemented!() }
}
#[verifier::external_body] pub struct Topic { p: u8 }
impl Topic {
    pub uninterp spec fn name_of(&self) -> Seq<char>;
    pub uninterp spec fn type_of(&self) -> TypeDesc;
    #[verifier::external_body] pub fn name(&self) -> (r: String) ensures r@ == self.name_of() { unimplemented!() }
    #[verifier::external_body] pub fn get_type(&self) -> (r: TypeDesc) ensures r == self.type_of() { unimplemented!() }
}
// dds::DomainParticipant (Arc<Mutex<DomainParticipantDisc>>): four DIFFERENT observers
#[verifier::external_body] pub struct DomainParticipant { p: u8 }
impl DomainParticipant {
    pub uninterp spec fn guid_of(&self) -> GUID;
    pub uninterp spec fn domain_id_of(&self) -> u16;
    pub uninterp spec fn participant_id_of(&self) -> u16;
    #[verifier::external_body] pub fn guid(&self) -> (r: GUID) ensures r == self.guid_of() { unimplemented!() }
    #[verifier::external_body] pub fn guid_prefix(&self) -> (r: GuidPrefix) ensures r == self.guid_of().prefix { unimplemented!() }
    #[verifier::external_body] pub fn domain_id(&self) -> (r: u16) ensures r == self.domain_id_of() { unimplemented!() }
    #[verifier::external_body] pub fn participant_id(&self) -> (r: u16) ensures r == self.participant_id_of() { unimplemented!() }
}

// ---- "this entity": names for the values the property talks about.  Every generated site function
// starts with `requires <its inputs> == site_*()` (label site.ambient): as the site_* are uninterpreted
// and the inputs universally quantified this only NAMES them, so that the stubs below can say
// "the plugin is asked about THIS entity".
pub uninterp spec fn site_prefix() -> GuidPrefix;      // GUID prefix of the participant the entity belongs to
pub uninterp spec fn site_domain_id() -> u16;          // its domain id
pub uninterp spec fn site_topic_name() -> Seq<char>;   // name of the entity's topic
pub uninterp spec fn site_qos() -> QosPolicies;        // the entity's QoS
pub uninterp spec fn site_guid() -> GUID;              // GUID of the reader / writer being created

// ---- what the plugins behind a handle answer (functions of the handle and of the question)
pub uninterp spec fn says_create_datareader(h: SecurityPluginsHandle, guidp: GuidPrefix, domain_id: u16, topic: Seq<char>, qos: QosPolicies) -> SecurityResult<bool>;
pub uninterp spec fn says_create_datawriter(h: SecurityPluginsHandle, guidp: GuidPrefix, domain_id: u16, topic: Seq<char>, qos: QosPolicies) -> SecurityResult<bool>;
pub uninterp spec fn says_create_topic(h: SecurityPluginsHandle, guidp: GuidPrefix, domain_id: u16, topic: Seq<char>, qos: QosPolicies) -> SecurityResult<bool>;
pub uninterp spec fn reader_attrs(h: SecurityPluginsHandle, guid: GUID, topic: Seq<char>) -> SecurityResult<EndpointSecurityAttributes>;
pub uninterp spec fn writer_attrs(h: SecurityPluginsHandle, guid: GUID, topic: Seq<char>) -> SecurityResult<EndpointSecurityAttributes>;
pub uninterp spec fn registers_reader(h: SecurityPluginsHandle, guid: GUID, props: Option<QosProperty>, attrs: EndpointSecurityAttributes) -> bool;
pub uninterp spec fn registers_writer(h: SecurityPluginsHandle, guid: GUID, props: Option<QosProperty>, attrs: EndpointSecurityAttributes) -> bool;

// SecurityPluginsHandle = Arc<Mutex<SecurityPlugins>>; get_plugins() locks it (MutexGuard, Deref/DerefMut)
#[verifier::external_body] pub struct SecurityPluginsHandle { p: u8 }
#[verifier::external_body] pub struct PluginsGuard { p: u8 }
impl SecurityPluginsHandle {
    #[verifier::external_body] pub fn get_plugins(&self) -> (g: PluginsGuard) ensures g.of() == *self { unimplemented!() }
}
impl PluginsGuard {
    pub uninterp spec fn of(&self) -> SecurityPluginsHandle;

    #[verifier::external_body]
    pub fn check_create_datareader(&self, participant_guidp: GuidPrefix, domain_id: u16, topic_name: String, qos: &QosPolicies) -> (r: SecurityResult<bool>)
        requires
            participant_guidp == site_prefix() && domain_id == site_domain_id() && topic_name@ == site_topic_name() && *qos == site_qos(),   // [site.reader.ask]
        ensures r == says_create_datareader(self.of(), participant_guidp, domain_id, topic_name@, *qos)
    { unimplemented!() }
    #[verifier::external_body]
    pub fn check_create_datawriter(&self, participant_guidp: GuidPrefix, domain_id: u16, topic_name: String, qos: &QosPolicies) -> (r: SecurityResult<bool>)
        requires
            participant_guidp == site_prefix() && domain_id == site_domain_id() && topic_name@ == site_topic_name() && *qos == site_qos(),   // [site.writer.ask]
        ensures r == says_create_datawriter(self.of(), participant_guidp, domain_id, topic_name@, *qos)
    { unimplemented!() }
    #[verifier::external_body]
    pub fn check_create_topic(&self, participant_guidp: GuidPrefix, domain_id: u16, topic_name: String, qos: &QosPolicies) -> (r: SecurityResult<bool>)
        requires
            participant_guidp == site_prefix() && domain_id == site_domain_id() && topic_name@ == site_topic_name() && *qos == site_qos(),   // [site.topic.ask]
        ensures r == says_create_topic(self.of(), participant_guidp, domain_id, topic_name@, *qos)
    { unimplemented!() }

    #[verifier::external_body]
    pub fn get_reader_sec_attributes(&self, reader_guid: GUID, topic_name: String) -> (r: SecurityResult<EndpointSecurityAttributes>)
        ensures r == reader_attrs(self.of(), reader_guid, topic_name@)
    { unimplemented!() }
    #[verifier::external_body]
    pub fn get_writer_sec_attributes(&self, writer_guid: GUID, topic_name: String) -> (r: SecurityResult<EndpointSecurityAttributes>)
        ensures r == writer_attrs(self.of(), writer_guid, topic_name@)
    { unimplemented!() }

    #[verifier::external_body]
    pub fn register_local_reader(&mut self, reader_guid: GUID, reader_properties: Option<QosProperty>, reader_security_attributes: EndpointSecurityAttributes) -> (r: SecurityResult<()>)
        requires
            reader_guid == site_guid() && reader_properties == site_qos().property_of() && reader_attrs(old(self).of(), site_guid(), site_topic_name()) == Ok::<EndpointSecurityAttributes, SecurityError>(reader_security_attributes),   // [site.reader.register]
        ensures r is Ok <==> registers_reader(old(self).of(), reader_guid, reader_properties, reader_security_attributes)
    { unimplemented!() }
    #[verifier::external_body]
    pub fn register_local_writer(&mut self, writer_guid: GUID, writer_properties: Option<QosProperty>, writer_security_attributes: EndpointSecurityAttributes) -> (r: SecurityResult<()>)
        requires
            writer_guid == site_guid() && writer_properties == site_qos().property_of() && writer_attrs(old(self).of(), site_guid(), site_topic_name()) == Ok::<EndpointSecurityAttributes, SecurityError>(writer_security_attributes),   // [site.writer.register]
        ensures r is Ok <==> registers_writer(old(self).of(), writer_guid, writer_properties, writer_security_attributes)
    { unimplemented!() }
}

// Result::and_then (the closure carries its own annotation, R6).  Its precondition at the two sites is
// "the attributes handed to registration are the ones just fetched" (closure requires)
pub assume_specification<T, E, U, F: FnOnce(T) -> Result<U, E> + core::marker::Destruct>[ Result::<T, E>::and_then ](r: Result<T, E>, op: F) -> (o: Result<U, E>)
    requires
        r matches Ok(t) ==> op.requires((t,)),   // [site.register.attrs]
    ensures r matches Ok(t) ==> op.ensures((t,), o), r matches Err(e) ==> o == Err::<U, E>(e);
