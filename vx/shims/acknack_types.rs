// ---------------------------------------------------------------------------------------------
// Unit `acknack`: placeholders (R9) for values that are only moved, std one-liners (assumed),
// and the additional BTreeMap / BTreeSet / Vec methods the ACKNACK assembly uses.
// ---------------------------------------------------------------------------------------------

// ---- values that are only moved (R9) ----------------------------------------------------------
pub struct Locator { pub opaque: u64 }
impl Clone for Locator { #[verifier::external_body] fn clone(&self) -> (r: Self) ensures r == *self { unimplemented!() } }
pub struct TopicCacheHandle { pub opaque: u64 }
#[derive(Clone, Copy)]
pub struct Duration { pub opaque: i64 }

// enumflags2::BitFlags<T>: opaque set of flags (the flag values are not part of C03)
#[verifier::external_body]
#[verifier::reject_recursive_types(T)]
pub struct BitFlags<T> { _p: core::marker::PhantomData<T> }
impl<T> BitFlags<T> {
    #[verifier::external_body]
    pub fn from_flag(g: T) -> (r: Self) { unimplemented!() }
}
impl<T> Clone for BitFlags<T> { #[verifier::external_body] fn clone(&self) -> (r: Self) ensures r == *self { unimplemented!() } }
impl<T> Copy for BitFlags<T> {}
impl<T> vstd::std_specs::ops::BitOrSpecImpl<BitFlags<T>> for BitFlags<T> {
    open spec fn obeys_bitor_spec() -> bool { false }
    open spec fn bitor_req(self, rhs: BitFlags<T>) -> bool { true }
    uninterp spec fn bitor_spec(self, rhs: BitFlags<T>) -> BitFlags<T>;
}
impl<T> core::ops::BitOr for BitFlags<T> {
    type Output = BitFlags<T>;
    #[verifier::external_body]
    fn bitor(self, rhs: Self) -> (r: Self) { unimplemented!() }
}

// ---- std::mem::take on the matched-writer map (assumed: the obvious contract) --------------------
#[verifier::external_body]
pub fn vx_mem_take<K: Ord, V>(m: &mut BTreeMap<K, V>) -> (r: BTreeMap<K, V>)
    ensures r@ == old(m)@, final(m)@ == Map::<K, V>::empty(),
{ unimplemented!() }

// ---- BTreeMap: key snapshot for R22 / R23 (assumed: each key exactly once, arbitrary order) ------
impl<K: Ord, V> BTreeMap<K, V> {
    #[verifier::external_body]
    pub fn vx_keys(&self) -> (r: Vec<K>)
        ensures r@.no_duplicates(), forall|k: K| r@.contains(k) <==> self@.contains_key(k),
    { unimplemented!() }
}

// ---- BTreeSet::new / insert (collect() target of R25) ---------------------------------------------
impl<K: Ord> BTreeSet<K> {
    #[verifier::external_body]
    pub fn new() -> (r: Self) ensures r@ == Set::<K>::empty() { unimplemented!() }
    #[verifier::external_body]
    pub fn insert(&mut self, k: K) -> (r: bool)
        ensures final(self)@ == old(self)@.insert(k), r == !old(self)@.contains(k),
    { unimplemented!() }
}

// ---- Option::is_some_and / Option::unwrap_or (std one-liners, assumed) ---------------------------
pub assume_specification<T, F: FnOnce(T) -> bool>[ Option::<T>::is_some_and ](o: Option<T>, f: F) -> (r: bool)
    requires o is Some ==> f.requires((o->Some_0,)),
    ensures match o { Some(v) => f.ensures((v,), r), None => !r };

// Option::map_or_else: "Computes a default function result (if none), or applies a different
// function to the contained value (if any)" — exactly one of the two closures is called
pub assume_specification<T, U, DF: FnOnce() -> U, F: FnOnce(T) -> U> [std::option::Option::<T>::map_or_else] (o: std::option::Option<T>, default: DF, f: F) -> (r: U)
    requires match o { Some(x) => f.requires((x,)), None => default.requires(()) },
    ensures match o { Some(x) => f.ensures((x,), r), None => default.ensures((), r) };
