// ---------------------------------------------------------------------------------------------
// Unit sample_cache — SHIMS (assumed contracts, trusted) of the std items DataSampleCache uses
// beyond shims/btreemap.rs: BTreeSet<K> (view Set<K>, ascending iteration), the adapter chain
// `iter().take(n).copied().collect()`, Option::or / Option::map_or_else.
// ---------------------------------------------------------------------------------------------
#[verifier::external_body]
#[verifier::reject_recursive_types(K)]
pub struct BTreeSet<K> { inner: std::collections::BTreeSet<K> }

impl<K> View for BTreeSet<K> { type V = Set<K>; uninterp spec fn view(&self) -> Set<K>; }

// s is the strictly ascending sequence of exactly the elements of m
pub open spec fn is_set_iter_of<K: Ord>(s: Seq<K>, m: Set<K>) -> bool {
    &&& forall|i: int, j: int| 0 <= i < j < s.len() ==> klt(#[trigger] s[i], #[trigger] s[j])
    &&& forall|i: int| 0 <= i < s.len() ==> m.contains(#[trigger] s[i])
    &&& forall|k: K| #[trigger] m.contains(k) ==> exists|i: int| 0 <= i < s.len() && s[i] == k
}

#[verifier::external_body]
#[verifier::reject_recursive_types(K)]
pub struct BSetIter<'a, K> { inner: std::collections::btree_set::Iter<'a, K> }

// the items an adapter chain will yield, in order (Iterator::take / copied / collect)
#[verifier::external_body]
#[verifier::reject_recursive_types(K)]
pub struct BSetItems<'a, K> { inner: std::iter::Take<std::collections::btree_set::Iter<'a, K>> }
#[verifier::external_body]
#[verifier::reject_recursive_types(K)]
pub struct BSetItemsCopied<'a, K> { inner: std::iter::Copied<std::iter::Take<std::collections::btree_set::Iter<'a, K>>> }

impl<'a, K> BSetIter<'a, K> {
    // elements still to come (ascending)
    pub uninterp spec fn rem(&self) -> Seq<K>;

    #[verifier::external_body]
    pub fn next(&mut self) -> (r: Option<&'a K>)
        ensures
            match r {
                None => old(self).rem().len() == 0 && final(self).rem() == old(self).rem(),
                Some(k) => old(self).rem().len() > 0 && *k == old(self).rem()[0] && final(self).rem() == old(self).rem().skip(1),
            }
    { unimplemented!() }

    // DoubleEndedIterator::rev: the same elements in the opposite order
    #[verifier::external_body]
    pub fn rev(self) -> (r: BSetIter<'a, K>)
        ensures r.rem() == self.rem().reverse()
    { unimplemented!() }

    // Iterator::filter(..).count(): the predicate is called once per element (bs[i] = what it
    // returned for element i); count() = how many times it returned true
    #[verifier::external_body]
    pub fn filter<F: FnMut(&&'a K) -> bool>(self, f: F) -> (r: BSetFiltered<'a, K>)
        requires forall|i: int| 0 <= i < self.rem().len() ==> f.requires((&&#[trigger] self.rem()[i],)),
        ensures exists|bs: Seq<bool>| #[trigger] filter_count_of(bs, self.rem().len(), r.cnt())
            && forall|i: int| 0 <= i < bs.len() ==> f.ensures((&&self.rem()[i],), #[trigger] bs[i]),
    { unimplemented!() }

    // Iterator::take: "yields the first n elements, or fewer if the underlying iterator ends sooner"
    #[verifier::external_body]
    pub fn take(self, n: usize) -> (r: BSetItems<'a, K>)
        ensures r.items() == (if n <= self.rem().len() { self.rem().take(n as int) } else { self.rem() })
    { unimplemented!() }
}
pub open spec fn filter_count_of(bs: Seq<bool>, n: nat, cnt: nat) -> bool { bs.len() == n && cnt == bs.filter(|b: bool| b).len() }
#[verifier::external_body]
#[verifier::reject_recursive_types(K)]
pub struct BSetFiltered<'a, K> { inner: std::marker::PhantomData<&'a K> }
impl<'a, K> BSetFiltered<'a, K> {
    pub uninterp spec fn cnt(&self) -> nat;
    #[verifier::external_body]
    pub fn count(self) -> (n: usize) ensures n == self.cnt() { unimplemented!() }
}
impl<'a, K> BSetItems<'a, K> {
    pub uninterp spec fn items(&self) -> Seq<K>;
    // Iterator::copied: the same elements, by value
    #[verifier::external_body]
    pub fn copied(self) -> (r: BSetItemsCopied<'a, K>) where K: Copy
        ensures r.items() == self.items()
    { unimplemented!() }
}
impl<'a, K> BSetItemsCopied<'a, K> {
    pub uninterp spec fn items(&self) -> Seq<K>;
    // Iterator::collect::<Vec<_>>: the yielded elements in order
    #[verifier::external_body]
    pub fn collect(self) -> (r: Vec<K>)
        ensures r@ == self.items()
    { unimplemented!() }
}

impl<K: Ord> BTreeSet<K> {
    #[verifier::external_body]
    pub fn new() -> (r: Self) ensures r@ == Set::<K>::empty() { unimplemented!() }

    #[verifier::external_body]
    pub fn insert(&mut self, k: K) -> (r: bool)
        ensures final(self)@ == old(self)@.insert(k), r == !old(self)@.contains(k),
    { unimplemented!() }

    #[verifier::external_body]
    pub fn remove(&mut self, k: &K) -> (r: bool)
        ensures final(self)@ == old(self)@.remove(*k), r == old(self)@.contains(*k),
    { unimplemented!() }

    #[verifier::external_body]
    pub fn contains(&self, k: &K) -> (r: bool)
        ensures r == self@.contains(*k),
    { unimplemented!() }

    #[verifier::external_body]
    pub fn len(&self) -> (r: usize)
        ensures self@.finite(), r == self@.len(),
    { unimplemented!() }

    #[verifier::external_body]
    pub fn iter<'a>(&'a self) -> (it: BSetIter<'a, K>)
        ensures is_set_iter_of(it.rem(), self@)
    { unimplemented!() }
}

pub assume_specification<T> [std::option::Option::<T>::or] (a: std::option::Option<T>, b: std::option::Option<T>) -> (r: std::option::Option<T>)
    ensures r == (match a { Some(x) => Some(x), None => b });

// Option::map_or_else: "Computes a default function result (if none), or applies a different
// function to the contained value (if any)" — exactly one of the two closures is called
pub assume_specification<T, U, DF: FnOnce() -> U, F: FnOnce(T) -> U> [std::option::Option::<T>::map_or_else] (o: std::option::Option<T>, default: DF, f: F) -> (r: U)
    requires match o { Some(x) => f.requires((x,)), None => default.requires(()) },
    ensures match o { Some(x) => f.ensures((x,), r), None => default.ensures((), r) };

// ---------------------------------------------------------------------------------------------
// std::collections::HashMap<K, V> as used by read/take: new, entry(k).and_modify(f).or_insert(v),
// iteration by reference (every entry exactly once, arbitrary order).  view: Map<K, V>.
// `entry` borrows the map for 'a; `fin()` is the (prophesied) content of the map when that borrow
// ends, `cur()` the value currently in the entry (None = vacant).
// ---------------------------------------------------------------------------------------------
#[verifier::external_body]
#[verifier::reject_recursive_types(K)]
#[verifier::reject_recursive_types(V)]
pub struct HashMap<K, V> { inner: std::collections::HashMap<K, V> }
impl<K, V> View for HashMap<K, V> { type V = Map<K, V>; uninterp spec fn view(&self) -> Map<K, V>; }

#[verifier::external_body]
#[verifier::reject_recursive_types(K)]
#[verifier::reject_recursive_types(V)]
pub struct HEntry<'a, K, V> { inner: std::collections::hash_map::Entry<'a, K, V> }
impl<'a, K, V> HEntry<'a, K, V> {
    pub uninterp spec fn key(&self) -> K;
    pub uninterp spec fn base(&self) -> Map<K, V>;
    pub uninterp spec fn cur(&self) -> Option<V>;
    pub uninterp spec fn fin(&self) -> Map<K, V>;

    // "Provides in-place mutable access to an occupied entry before any potential inserts into the map."
    #[verifier::external_body]
    pub fn and_modify<F: FnOnce(&mut V)>(self, f: F) -> (r: Self)
        requires self.cur() matches Some(x) ==> forall|v: &mut V| *v == x ==> f.requires((v,)),
        ensures
            r.key() == self.key(), r.base() == self.base(), r.fin() == self.fin(),
            match self.cur() {
                None => r.cur() is None,
                Some(x) => exists|v: &mut V| *v == x && #[trigger] f.ensures((v,), ()) && r.cur() == Some(*final(v)),
            },
    { unimplemented!() }

    // "Ensures a value is in the entry by inserting the default if empty, and returns a mutable
    //  reference to the value in the entry."
    #[verifier::external_body]
    pub fn or_insert(self, default: V) -> (r: &'a mut V)
        ensures
            *r == (match self.cur() { Some(x) => x, None => default }),
            self.fin() == self.base().insert(self.key(), *final(r)),
    { unimplemented!() }
}

#[verifier::external_body]
#[verifier::reject_recursive_types(K)]
#[verifier::reject_recursive_types(V)]
pub struct HIter<'a, K, V> { inner: std::collections::hash_map::Iter<'a, K, V> }
impl<'a, K, V> HIter<'a, K, V> {
    // entries still to come
    pub uninterp spec fn rem(&self) -> Seq<(K, V)>;
    #[verifier::external_body]
    pub fn next(&mut self) -> (r: Option<(&'a K, &'a V)>)
        ensures
            match r {
                None => old(self).rem().len() == 0 && final(self).rem() == old(self).rem(),
                Some((k, v)) => old(self).rem().len() > 0 && (*k, *v) == old(self).rem()[0] && final(self).rem() == old(self).rem().skip(1),
            }
    { unimplemented!() }
}

impl<K, V> HashMap<K, V> {
    #[verifier::external_body]
    pub fn new() -> (r: Self) ensures r@ == Map::<K, V>::empty() { unimplemented!() }

    #[verifier::external_body]
    pub fn entry<'a>(&'a mut self, key: K) -> (e: HEntry<'a, K, V>)
        ensures
            e.key() == key, e.base() == old(self)@,
            e.cur() == (if old(self)@.contains_key(key) { Some(old(self)@[key]) } else { None::<V> }),
            final(self)@ == e.fin(),
    { unimplemented!() }

    // `impl IntoIterator for &HashMap` (what `for (k, v) in &map` calls, R3): every entry exactly
    // once, in an arbitrary order
    #[verifier::external_body]
    pub fn into_iter<'a>(&'a self) -> (it: HIter<'a, K, V>)
        ensures
            forall|i: int, j: int| 0 <= i < j < it.rem().len() ==> (#[trigger] it.rem()[i]).0 != (#[trigger] it.rem()[j]).0,
            forall|i: int| 0 <= i < it.rem().len() ==> self@.contains_key((#[trigger] it.rem()[i]).0) && self@[it.rem()[i].0] == it.rem()[i].1,
            forall|k: K| #[trigger] self@.contains_key(k) ==> exists|i: int| 0 <= i < it.rem().len() && it.rem()[i].0 == k,
    { unimplemented!() }
}

// ---------------------------------------------------------------------------------------------
// `SLICE.iter().enumerate()` (token substitution `SLICE.iter().enumerate()` -> `vx_enumerate(SLICE)`,
// as R20 of unit topic_cache: Verus cannot attach a specification to the provided trait method
// Iterator::enumerate): yields "(i, val), where i is the current index of iteration [starting at 0]
// and val is the value returned by the iterator".
// ---------------------------------------------------------------------------------------------
#[verifier::external_body]
#[verifier::reject_recursive_types(T)]
pub struct VxEnumerate<'a, T> { inner: std::iter::Enumerate<std::slice::Iter<'a, T>> }
impl<'a, T> VxEnumerate<'a, T> {
    pub uninterp spec fn rem(&self) -> Seq<T>;
    pub uninterp spec fn pos(&self) -> nat;
    #[verifier::external_body]
    pub fn next(&mut self) -> (r: Option<(usize, &'a T)>)
        ensures
            match r {
                None => old(self).rem().len() == 0 && final(self).rem() == old(self).rem() && final(self).pos() == old(self).pos(),
                Some((i, x)) => old(self).rem().len() > 0 && i == old(self).pos() && *x == old(self).rem()[0]
                    && final(self).rem() == old(self).rem().skip(1) && final(self).pos() == old(self).pos() + 1,
            }
    { unimplemented!() }
}
#[verifier::external_body]
pub fn vx_enumerate<'a, T>(s: &'a [T]) -> (r: VxEnumerate<'a, T>)
    ensures r.rem() == s@, r.pos() == 0
{ unimplemented!() }

// ---------------------------------------------------------------------------------------------
// <[T]>::sort_by_cached_key: "Sorts the slice with a key extraction function [...] This sort is
// stable" — ASSUMED: the result is a permutation of the input, ordered by the extracted keys
// (K's Ord).  (Stability is not stated: no obligation of this unit needs it.)
// ---------------------------------------------------------------------------------------------
pub open spec fn sorted_by_keys<K: Ord>(ks: Seq<K>) -> bool {
    forall|i: int, j: int| 0 <= i < j < ks.len() ==> kle(#[trigger] ks[i], #[trigger] ks[j])
}
pub assume_specification<T, K: Ord, F: FnMut(&T) -> K> [ <[T]>::sort_by_cached_key ] (s: &mut [T], f: F)
    requires forall|i: int| 0 <= i < old(s)@.len() ==> f.requires((&#[trigger] old(s)@[i],)),
    ensures
        final(s)@.to_multiset() == old(s)@.to_multiset(),
        // the key function is called once per element; ks[i] is the key it returned for final(s)[i]
        exists|ks: Seq<K>| ks.len() == final(s)@.len() && #[trigger] sorted_by_keys(ks)
            && forall|i: int| 0 <= i < ks.len() ==> f.ensures((&final(s)@[i],), #[trigger] ks[i]);
