// ---------------------------------------------------------------------------------------------
// Unit sample_cache — SHIMS (assumed contracts, trusted) of the std items DataSampleCache uses
// beyond shims/btreemap.rs: BTreeSet<K> (view Set<K>, ascending iteration), the adapter chain
// `iter().take(n).copied().collect()`, Option::or / Option::map_or_else.
// ---------------------------------------------------------------------------------------------
#[verifier::external_body]
#[verifier::reject_recursive_types(K)]
pub struct BTreeSet<K> { inner: std::collections::BTreeSet<K> }

impl<K> View for BTreeSet<K> { type V = Set<K>; uninterp spec fn view(&self) -> Set<K>; }

// s is the strictly ascending sequence of exactly the elements of m
pub open spec fn is_set_iter_of<K: Ord>(s: Seq<K>, m: Set<K>) -> bool {
    &&& forall|i: int, j: int| 0 <= i < j < s.len() ==> klt(#[trigger] s[i], #[trigger] s[j])
    &&& forall|i: int| 0 <= i < s.len() ==> m.contains(#[trigger] s[i])
    &&& forall|k: K| #[trigger] m.contains(k) ==> exists|i: int| 0 <= i < s.len() && s[i] == k
}

#[verifier::external_body]
#[verifier::reject_recursive_types(K)]
pub struct BSetIter<'a, K> { inner: std::collections::btree_set::Iter<'a, K> }

// the items an adapter chain will yield, in order (Iterator::take / copied / collect)
#[verifier::external_body]
#[verifier::reject_recursive_types(K)]
pub struct BSetItems<'a, K> { inner: std::iter::Take<std::collections::btree_set::Iter<'a, K>> }
#[verifier::external_body]
#[verifier::reject_recursive_types(K)]
pub struct BSetItemsCopied<'a, K> { inner: std::iter::Copied<std::iter::Take<std::collections::btree_set::Iter<'a, K>>> }

impl<'a, K> BSetIter<'a, K> {
    // elements still to come (ascending)
    pub uninterp spec fn rem(&self) -> Seq<K>;

    #[verifier::external_body]
    pub fn next(&mut self) -> (r: Option<&'a K>)
        ensures
            match r {
                None => old(self).rem().len() == 0 && final(self).rem() == old(self).rem(),
                Some(k) => old(self).rem().len() > 0 && *k == old(self).rem()[0] && final(self).rem() == old(self).rem().skip(1),
            }
    { unimplemented!() }

    // Iterator::take: "yields the first n elements, or fewer if the underlying iterator ends sooner"
    #[verifier::external_body]
    pub fn take(self, n: usize) -> (r: BSetItems<'a, K>)
        ensures r.items() == (if n <= self.rem().len() { self.rem().take(n as int) } else { self.rem() })
    { unimplemented!() }
}
impl<'a, K> BSetItems<'a, K> {
    pub uninterp spec fn items(&self) -> Seq<K>;
    // Iterator::copied: the same elements, by value
    #[verifier::external_body]
    pub fn copied(self) -> (r: BSetItemsCopied<'a, K>) where K: Copy
        ensures r.items() == self.items()
    { unimplemented!() }
}
impl<'a, K> BSetItemsCopied<'a, K> {
    pub uninterp spec fn items(&self) -> Seq<K>;
    // Iterator::collect::<Vec<_>>: the yielded elements in order
    #[verifier::external_body]
    pub fn collect(self) -> (r: Vec<K>)
        ensures r@ == self.items()
    { unimplemented!() }
}

impl<K: Ord> BTreeSet<K> {
    #[verifier::external_body]
    pub fn new() -> (r: Self) ensures r@ == Set::<K>::empty() { unimplemented!() }

    #[verifier::external_body]
    pub fn insert(&mut self, k: K) -> (r: bool)
        ensures final(self)@ == old(self)@.insert(k), r == !old(self)@.contains(k),
    { unimplemented!() }

    #[verifier::external_body]
    pub fn remove(&mut self, k: &K) -> (r: bool)
        ensures final(self)@ == old(self)@.remove(*k), r == old(self)@.contains(*k),
    { unimplemented!() }

    #[verifier::external_body]
    pub fn contains(&self, k: &K) -> (r: bool)
        ensures r == self@.contains(*k),
    { unimplemented!() }

    #[verifier::external_body]
    pub fn len(&self) -> (r: usize)
        ensures self@.finite(), r == self@.len(),
    { unimplemented!() }

    #[verifier::external_body]
    pub fn iter<'a>(&'a self) -> (it: BSetIter<'a, K>)
        ensures is_set_iter_of(it.rem(), self@)
    { unimplemented!() }
}

pub assume_specification<T> [std::option::Option::<T>::or] (a: std::option::Option<T>, b: std::option::Option<T>) -> (r: std::option::Option<T>)
    ensures r == (match a { Some(x) => Some(x), None => b });

// Option::map_or_else: "Computes a default function result (if none), or applies a different
// function to the contained value (if any)" — exactly one of the two closures is called
pub assume_specification<T, U, DF: FnOnce() -> U, F: FnOnce(T) -> U> [std::option::Option::<T>::map_or_else] (o: std::option::Option<T>, default: DF, f: F) -> (r: U)
    requires match o { Some(x) => f.requires((x,)), None => default.requires(()) },
    ensures match o { Some(x) => f.ensures((x,), r), None => default.ensures((), r) };
