// ---------------------------------------------------------------------------------------------
// Shims shared by the units history / reader_proxy / gap_builder (C04).
//  * Timestamp (extracted) + R2 template impls of the derived PartialEq/Eq/PartialOrd/Ord
//    (declaration order: seconds, then fraction)
//  * From<usize> for SequenceNumber (extracted)
//  * std::cmp::{min,max}: one-line assume_specifications
//  * Option::and_then (assumed contract)
// ---------------------------------------------------------------------------------------------
@@extract struct src/structure/time.rs Timestamp derive=Clone,Copy

impl Timestamp {
    pub open spec fn ticks(&self) -> int { self.seconds as int * 0x1_0000_0000 + self.fraction as int }
    pub open spec fn ord_spec(&self, other: &Self) -> Ordering {
        if self.seconds < other.seconds { Ordering::Less } else if self.seconds > other.seconds { Ordering::Greater }
        else if self.fraction < other.fraction { Ordering::Less } else if self.fraction > other.fraction { Ordering::Greater }
        else { Ordering::Equal }
    }
}
impl PartialEqSpecImpl for Timestamp {
    open spec fn obeys_eq_spec() -> bool { true }
    open spec fn eq_spec(&self, other: &Self) -> bool { self.seconds == other.seconds && self.fraction == other.fraction }
}
impl PartialEq for Timestamp { fn eq(&self, other: &Self) -> (r: bool) { self.seconds == other.seconds && self.fraction == other.fraction } }
impl Eq for Timestamp {}
impl PartialOrdSpecImpl for Timestamp {
    open spec fn obeys_partial_cmp_spec() -> bool { true }
    open spec fn partial_cmp_spec(&self, other: &Self) -> Option<Ordering> { Some(self.ord_spec(other)) }
}
impl PartialOrd for Timestamp {
    fn partial_cmp(&self, other: &Self) -> (r: Option<Ordering>) {
        if self.seconds < other.seconds { Some(Ordering::Less) } else if self.seconds > other.seconds { Some(Ordering::Greater) }
        else if self.fraction < other.fraction { Some(Ordering::Less) } else if self.fraction > other.fraction { Some(Ordering::Greater) }
        else { Some(Ordering::Equal) }
    }
}
impl OrdSpecImpl for Timestamp {
    open spec fn obeys_cmp_spec() -> bool { true }
    open spec fn cmp_spec(&self, other: &Self) -> Ordering { self.ord_spec(other) }
}
impl Ord for Timestamp {
    fn cmp(&self, other: &Self) -> (r: Ordering) {
        if self.seconds < other.seconds { Ordering::Less } else if self.seconds > other.seconds { Ordering::Greater }
        else if self.fraction < other.fraction { Ordering::Less } else if self.fraction > other.fraction { Ordering::Greater }
        else { Ordering::Equal }
    }
}
// the derived order on Timestamp is the numeric order of the 64-bit tick count
pub proof fn lemma_ts_order(a: Timestamp, b: Timestamp)
    ensures klt(a, b) <==> a.ticks() < b.ticks(),
            kle(a, b) <==> a.ticks() <= b.ticks(),
            a == b <==> a.ticks() == b.ticks(),
{
}

@@include shims/history_sn_conv.rs

pub assume_specification<T: Ord + core::marker::Destruct>[ std::cmp::max ](a: T, b: T) -> (r: T)
    ensures r == (if a.cmp_spec(&b) == Ordering::Greater { a } else { b });
pub assume_specification<T: Ord + core::marker::Destruct>[ std::cmp::min ](a: T, b: T) -> (r: T)
    ensures r == (if a.cmp_spec(&b) == Ordering::Greater { b } else { a });
