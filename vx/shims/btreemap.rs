// ---------------------------------------------------------------------------------------------
// SHIM (assumed contract, trusted): std::collections::BTreeMap<K, V>
// view: Map<K, V>; key order: K's OrdSpec (cmp_spec).  Every fn below is external_body: the
// contract is the *assumed* specification of the standard library, not proved here.
// ---------------------------------------------------------------------------------------------
pub open spec fn klt<K: Ord>(a: K, b: K) -> bool { a.cmp_spec(&b) == Ordering::Less }
pub open spec fn kle<K: Ord>(a: K, b: K) -> bool { a.cmp_spec(&b) != Ordering::Greater }

#[verifier::external_body]
#[verifier::reject_recursive_types(K)]
#[verifier::reject_recursive_types(V)]
pub struct BTreeMap<K, V> { inner: std::collections::BTreeMap<K, V> }

impl<K, V> View for BTreeMap<K, V> { type V = Map<K, V>; uninterp spec fn view(&self) -> Map<K, V>; }

pub open spec fn in_bounds<K: Ord>(k: K, lo: Bound<K>, hi: Bound<K>) -> bool {
    (match lo { Bound::Included(l) => kle(l, k), Bound::Excluded(l) => klt(l, k), Bound::Unbounded => true })
    && (match hi { Bound::Included(h) => kle(k, h), Bound::Excluded(h) => klt(k, h), Bound::Unbounded => true })
}

// what std's `range` accepts without panicking ("range start is greater than range end" /
// "range start and end are equal and excluded")
pub open spec fn bounds_ok<K: Ord>(lo: Bound<K>, hi: Bound<K>) -> bool {
    match (lo, hi) {
        (Bound::Included(a), Bound::Included(b)) => kle(a, b),
        (Bound::Included(a), Bound::Excluded(b)) => kle(a, b),
        (Bound::Excluded(a), Bound::Included(b)) => kle(a, b),
        (Bound::Excluded(a), Bound::Excluded(b)) => klt(a, b),
        _ => true,
    }
}

pub trait VRangeBounds<K> {
    spec fn lo(&self) -> Bound<K>;
    spec fn hi(&self) -> Bound<K>;
}
pub open spec fn deref_bound<K>(b: Bound<&K>) -> Bound<K> {
    match b { Bound::Included(x) => Bound::Included(*x), Bound::Excluded(x) => Bound::Excluded(*x), Bound::Unbounded => Bound::Unbounded }
}
impl<'b, K> VRangeBounds<K> for (Bound<&'b K>, Bound<&'b K>) {
    open spec fn lo(&self) -> Bound<K> { deref_bound(self.0) }
    open spec fn hi(&self) -> Bound<K> { deref_bound(self.1) }
}

// s is the ascending sequence of exactly the entries of m inside the bounds
pub open spec fn is_range_of<K: Ord, V>(s: Seq<(K, V)>, m: Map<K, V>, lo: Bound<K>, hi: Bound<K>) -> bool {
    &&& forall|i: int, j: int| 0 <= i < j < s.len() ==> klt(#[trigger] s[i].0, #[trigger] s[j].0)
    &&& forall|i: int| 0 <= i < s.len() ==> m.contains_key(#[trigger] s[i].0) && m[s[i].0] == s[i].1 && in_bounds(s[i].0, lo, hi)
    &&& forall|k: K| #[trigger] m.contains_key(k) && in_bounds(k, lo, hi) ==> exists|i: int| 0 <= i < s.len() && s[i].0 == k
}

#[verifier::external_body]
#[verifier::reject_recursive_types(K)]
#[verifier::reject_recursive_types(V)]
pub struct BRange<'a, K, V> { inner: std::collections::btree_map::Range<'a, K, V> }

impl<'a, K, V> BRange<'a, K, V> {
    pub uninterp spec fn rem(&self) -> Seq<(K, V)>;

    #[verifier::external_body]
    pub fn next(&mut self) -> (r: Option<(&'a K, &'a V)>)
        ensures
            match r {
                None => old(self).rem().len() == 0 && final(self).rem() == old(self).rem(),
                Some((k, v)) => old(self).rem().len() > 0 && (*k, *v) == old(self).rem()[0] && final(self).rem() == old(self).rem().skip(1),
            }
    { unimplemented!() }

    #[verifier::external_body]
    pub fn next_back(&mut self) -> (r: Option<(&'a K, &'a V)>)
        ensures
            match r {
                None => old(self).rem().len() == 0 && final(self).rem() == old(self).rem(),
                Some((k, v)) => old(self).rem().len() > 0 && (*k, *v) == old(self).rem().last() && final(self).rem() == old(self).rem().drop_last(),
            }
    { unimplemented!() }
}

#[verifier::external_body]
#[verifier::reject_recursive_types(K)]
#[verifier::reject_recursive_types(V)]
pub struct BKeys<'a, K, V> { inner: std::collections::btree_map::Keys<'a, K, V> }
impl<'a, K, V> BKeys<'a, K, V> {
    pub uninterp spec fn rem(&self) -> Seq<K>;
    #[verifier::external_body]
    pub fn next(&mut self) -> (r: Option<&'a K>)
        ensures
            match r {
                None => old(self).rem().len() == 0 && final(self).rem() == old(self).rem(),
                Some(k) => old(self).rem().len() > 0 && *k == old(self).rem()[0] && final(self).rem() == old(self).rem().skip(1),
            }
    { unimplemented!() }
}

#[verifier::external_body]
#[verifier::reject_recursive_types(K)]
#[verifier::reject_recursive_types(V)]
pub struct BValues<'a, K, V> { inner: std::collections::btree_map::Values<'a, K, V> }
impl<'a, K, V> BValues<'a, K, V> {
    // remaining (key, value) entries in ascending key order
    pub uninterp spec fn rem(&self) -> Seq<(K, V)>;
    #[verifier::external_body]
    pub fn next(&mut self) -> (r: Option<&'a V>)
        ensures
            match r {
                None => old(self).rem().len() == 0 && final(self).rem() == old(self).rem(),
                Some(v) => old(self).rem().len() > 0 && *v == old(self).rem()[0].1 && final(self).rem() == old(self).rem().skip(1),
            }
    { unimplemented!() }
}

impl<K: Ord, V> BTreeMap<K, V> {
    #[verifier::external_body]
    pub fn new() -> (r: Self) ensures r@ == Map::<K, V>::empty() { unimplemented!() }

    #[verifier::external_body]
    pub fn insert(&mut self, k: K, v: V) -> (r: Option<V>)
        ensures final(self)@ == old(self)@.insert(k, v),
                r == (if old(self)@.contains_key(k) { Some(old(self)@[k]) } else { None::<V> }),
    { unimplemented!() }

    #[verifier::external_body]
    pub fn remove(&mut self, k: &K) -> (r: Option<V>)
        ensures final(self)@ == old(self)@.remove(*k),
                r == (if old(self)@.contains_key(*k) { Some(old(self)@[*k]) } else { None::<V> }),
    { unimplemented!() }

    #[verifier::external_body]
    pub fn contains_key(&self, k: &K) -> (r: bool)
        ensures r == self@.contains_key(*k),
    { unimplemented!() }

    #[verifier::external_body]
    pub fn get(&self, k: &K) -> (r: Option<&V>)
        ensures match r { Some(v) => self@.contains_key(*k) && *v == self@[*k], None => !self@.contains_key(*k) },
    { unimplemented!() }

    #[verifier::external_body]
    pub fn get_mut(&mut self, k: &K) -> (r: Option<&mut V>)
        ensures match r {
            Some(v) => old(self)@.contains_key(*k) && *v == old(self)@[*k] && final(self)@ == old(self)@.insert(*k, *final(v)),
            None => !old(self)@.contains_key(*k) && final(self)@ == old(self)@ },
    { unimplemented!() }

    #[verifier::external_body]
    pub fn is_empty(&self) -> (r: bool)
        ensures r == (forall|k: K| !self@.contains_key(k)),
    { unimplemented!() }

    #[verifier::external_body]
    pub fn len(&self) -> (r: usize)
        ensures self@.dom().finite(), r == self@.dom().len(),
    { unimplemented!() }

    #[verifier::external_body]
    pub fn clear(&mut self)
        ensures final(self)@ == Map::<K, V>::empty(),
    { unimplemented!() }

    #[verifier::external_body]
    pub fn range<'a, R: VRangeBounds<K>>(&'a self, r: R) -> (it: BRange<'a, K, V>)
        requires bounds_ok(r.lo(), r.hi()),   // std panics otherwise
        ensures is_range_of(it.rem(), self@, r.lo(), r.hi())
    { unimplemented!() }

    #[verifier::external_body]
    pub fn iter<'a>(&'a self) -> (it: BRange<'a, K, V>)
        ensures is_range_of(it.rem(), self@, Bound::Unbounded, Bound::Unbounded)
    { unimplemented!() }

    #[verifier::external_body]
    pub fn keys<'a>(&'a self) -> (it: BKeys<'a, K, V>)
        ensures
            forall|i: int, j: int| 0 <= i < j < it.rem().len() ==> klt(#[trigger] it.rem()[i], #[trigger] it.rem()[j]),
            forall|i: int| 0 <= i < it.rem().len() ==> self@.contains_key(#[trigger] it.rem()[i]),
            forall|k: K| #[trigger] self@.contains_key(k) ==> exists|i: int| 0 <= i < it.rem().len() && it.rem()[i] == k,
    { unimplemented!() }

    #[verifier::external_body]
    pub fn values<'a>(&'a self) -> (it: BValues<'a, K, V>)
        ensures is_range_of(it.rem(), self@, Bound::Unbounded, Bound::Unbounded)
    { unimplemented!() }

    // "Splits the collection into two at the given key. Returns everything after the given key,
    //  including the key."
    #[verifier::external_body]
    pub fn split_off(&mut self, k: &K) -> (r: Self)
        ensures
            forall|x: K| #[trigger] final(self)@.contains_key(x) <==> (old(self)@.contains_key(x) && klt(x, *k)),
            forall|x: K| #[trigger] r@.contains_key(x) <==> (old(self)@.contains_key(x) && !klt(x, *k)),
            forall|x: K| final(self)@.contains_key(x) ==> final(self)@[x] == old(self)@[x],
            forall|x: K| r@.contains_key(x) ==> r@[x] == old(self)@[x],
    { unimplemented!() }

    // "Moves all elements from other into self, leaving other empty. If a key from other is
    //  already present in self, the respective value from self will be overwritten"
    #[verifier::external_body]
    pub fn append(&mut self, other: &mut Self)
        ensures
            final(self)@ == old(self)@.union_prefer_right(old(other)@),
            final(other)@ == Map::<K, V>::empty(),
    { unimplemented!() }

    #[verifier::external_body]
    pub fn first_key_value(&self) -> (r: Option<(&K, &V)>)
        ensures match r {
            None => forall|k: K| !self@.contains_key(k),
            Some((k, v)) => self@.contains_key(*k) && self@[*k] == *v && forall|x: K| #[trigger] self@.contains_key(x) ==> kle(*k, x),
        }
    { unimplemented!() }

    #[verifier::external_body]
    pub fn last_key_value(&self) -> (r: Option<(&K, &V)>)
        ensures match r {
            None => forall|k: K| !self@.contains_key(k),
            Some((k, v)) => self@.contains_key(*k) && self@[*k] == *v && forall|x: K| #[trigger] self@.contains_key(x) ==> kle(x, *k),
        }
    { unimplemented!() }
}
