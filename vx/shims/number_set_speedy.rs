// ---------------------------------------------------------------------------------------------
// SHIM (assumed contract, trusted): speedy::{Reader, Writer, Readable, Writable, Error}, restricted
// to what `impl Readable/Writable for NumberSet<N>` and `for SequenceNumber` use (route 2b(ii) of
// DESIGN C14).  View of a stream: the sequence of 32-bit words read / written.  How a word becomes
// four bytes (byte order) is speedy's primitive encoder — assumed here, executed for real by the
// Kani fixed-layout harnesses.
//   * Reader<'a, C> / Writer<C> (traits, generic context C)  ->  concrete VReader / VWriter
//   * C::Error, speedy::Error                                ->  VError (opaque)
//   * Readable<'a, C> / Writable<C>                          ->  VReadable / VWritable with a spec
// A read fails only at the end of the input; after a failed read/write nothing is known about the
// stream.
// ---------------------------------------------------------------------------------------------
#[verifier::external_body]
pub struct VError { e: () }
impl VError {
    #[verifier::external_body]
    pub fn custom(msg: String) -> VError { unimplemented!() }
}
// R16 placeholder for format!(..)
#[verifier::external_body]
pub fn verif_fmt() -> String { unimplemented!() }

#[verifier::external_body]
pub struct VReader { inner: Vec<u32> }
#[verifier::external_body]
pub struct VWriter { inner: Vec<u32> }

pub trait VReadable: Sized {
    // the head of w holds a complete, acceptable encoding of a Self
    spec fn decodable(w: Seq<u32>) -> bool;
    // number of words that encoding occupies
    spec fn consumed(w: Seq<u32>) -> int;
    // v is the value encoded at the head of w
    spec fn decodes(w: Seq<u32>, v: &Self) -> bool;

    fn read_from(reader: &mut VReader) -> (r: Result<Self, VError>)
        ensures
            match r {
                Ok(v) => Self::decodable(old(reader).rem()) && Self::decodes(old(reader).rem(), &v)   // [numset.wire.read]
                    && 0 <= Self::consumed(old(reader).rem()) <= old(reader).rem().len()   // [numset.wire.read]
                    && final(reader).rem() == old(reader).rem().skip(Self::consumed(old(reader).rem())),   // [numset.wire.read]
                Err(_) => !Self::decodable(old(reader).rem()),   // [numset.wire.read.err]
            };
}

pub trait VWritable {
    // validity of the value to be written (representation invariant)
    spec fn enc_ok(&self) -> bool;
    spec fn encode(&self) -> Seq<u32>;

    fn write_to(&self, writer: &mut VWriter) -> (r: Result<(), VError>)
        requires self.enc_ok(),
        ensures r is Ok ==> final(writer).out() == old(writer).out() + self.encode();   // [numset.wire.write]
}

impl VReader {
    pub uninterp spec fn rem(&self) -> Seq<u32>;    // words still to be read

    // Reader::read_value::<T>() == T::read_from(self)
    #[verifier::external_body]
    pub fn read_value<T: VReadable>(&mut self) -> (r: Result<T, VError>)
        ensures
            match r {
                Ok(v) => T::decodable(old(self).rem()) && T::decodes(old(self).rem(), &v)
                    && 0 <= T::consumed(old(self).rem()) <= old(self).rem().len()
                    && final(self).rem() == old(self).rem().skip(T::consumed(old(self).rem())),
                Err(_) => !T::decodable(old(self).rem()),
            }
    { unimplemented!() }
}

impl VWriter {
    pub uninterp spec fn out(&self) -> Seq<u32>;    // words written so far

    #[verifier::external_body]
    pub fn write_u32(&mut self, v: u32) -> (r: Result<(), VError>)
        ensures r is Ok ==> final(self).out() == old(self).out().push(v)
    { unimplemented!() }

    #[verifier::external_body]
    pub fn write_i32(&mut self, v: i32) -> (r: Result<(), VError>)
        ensures r is Ok ==> final(self).out() == old(self).out().push(v as u32)
    { unimplemented!() }

    // Writer::write_value(&v) == v.write_to(self)
    #[verifier::external_body]
    pub fn write_value<T: VWritable>(&mut self, v: &T) -> (r: Result<(), VError>)
        requires v.enc_ok(),
        ensures r is Ok ==> final(self).out() == old(self).out() + v.encode()
    { unimplemented!() }
}

// primitives (speedy's own impls — assumed)
impl VReadable for u32 {
    open spec fn decodable(w: Seq<u32>) -> bool { w.len() >= 1 }
    open spec fn consumed(w: Seq<u32>) -> int { 1 }
    open spec fn decodes(w: Seq<u32>, v: &Self) -> bool { *v == w[0] }
    #[verifier::external_body]
    fn read_from(reader: &mut VReader) -> (r: Result<Self, VError>) { unimplemented!() }
}
impl VReadable for i32 {
    open spec fn decodable(w: Seq<u32>) -> bool { w.len() >= 1 }
    open spec fn consumed(w: Seq<u32>) -> int { 1 }
    open spec fn decodes(w: Seq<u32>, v: &Self) -> bool { *v == w[0] as i32 }
    #[verifier::external_body]
    fn read_from(reader: &mut VReader) -> (r: Result<Self, VError>) { unimplemented!() }
}
