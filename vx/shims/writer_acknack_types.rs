// ---------------------------------------------------------------------------------------------
// Unit `writer_acknack`: placeholders (R9) for values that are only moved, assumed std one-liners,
// and the additional iterator methods the writer-side ACKNACK glue uses (own `impl` blocks; the
// shared shims are not changed).
// ---------------------------------------------------------------------------------------------

// ---- values that are only moved / passed on (R9) ----------------------------------------------
#[verifier::external_body] pub struct DDSData { x: u8 }
impl DDSData {
    pub uninterp spec fn spec_payload_size(&self) -> usize;
}
#[verifier::external_body] #[derive(Clone, Copy)] pub struct Endianness { x: u8 }     // speedy::Endianness
#[verifier::external_body] #[derive(Clone, Copy)] pub struct StdDuration { x: u8 }    // std::time::Duration
// the topic name (String): only cloned "for debugging"
#[verifier::external_body] pub struct TopicName { x: u8 }
impl TopicName {
    // Clone::clone (inherent here: Verus cannot attach an ensures to a trait-impl method)
    #[verifier::external_body]
    pub fn clone(&self) -> (r: Self) ensures r == *self { unimplemented!() }
}

// ---- cfg!(debug_assertions): either value (the block it guards only logs) -----------------------
// `cfg!(debug_assertions)` is a compile-time constant that depends on the build profile; the unit
// must hold for both.  The token sequence is replaced (R8, @@subst) by a call of this stub, whose
// result is unconstrained.
#[verifier::external_body]
pub fn verif_cfg_debug_assertions() -> (r: bool) { unimplemented!() }

// ---- std::sync::atomic (only AtomicI32::fetch_add of the heartbeat counter) ----------------------
// is_hb_count(c): c was taken from the writer's heartbeat counter by a fetch_add with a positive
// increment — established only by this stub.  (The counter wraps after 2^31 HEARTBEATs: not modelled.)
pub uninterp spec fn is_hb_count(c: i32) -> bool;
pub mod atomic {
    use super::*;
    pub enum Ordering { Relaxed, Release, Acquire, AcqRel, SeqCst }
    #[verifier::external_body] pub struct AtomicI32 { x: u8 }
    impl AtomicI32 {
        // "Adds to the current value, returning the previous value."
        #[verifier::external_body]
        pub fn fetch_add(&self, val: i32, order: Ordering) -> (r: i32)
            requires val > 0,          // [wack.hb.count]
            ensures is_hb_count(r),
        { unimplemented!() }
    }
}

// ---- mio_extras Timer<TimedEvent>: the ghost log of every timeout armed so far ------------------
#[verifier::external_body] pub struct Timer { x: u8 }
impl Timer {
    pub uninterp spec fn log(&self) -> Seq<(StdDuration, TimedEvent)>;
    #[verifier::external_body]
    pub fn set_timeout(&mut self, delay_from_now: StdDuration, state: TimedEvent)
        ensures final(self).log() == old(self).log().push((delay_from_now, state)),
    { unimplemented!() }
}

// ---- STUB (assumed): dds/qos.rs QosPolicies::is_reliable — defines "reliable writer" here -------
#[verifier::external_body]
pub struct QosPolicies { x: u8 }
impl QosPolicies {
    pub uninterp spec fn reliable(&self) -> bool;
    #[verifier::external_body]
    pub fn is_reliable(&self) -> (r: bool) ensures r == self.reliable() { unimplemented!() }
}

// ---- structure/duration.rs Duration, dds/qos.rs Deadline: the delay of the next repair step ------
// (only computed and handed to the timer; Div<i64> = from_ticks(to_ticks() / rhs) panics on rhs == 0)
#[verifier::external_body] #[derive(Clone, Copy)] pub struct Duration { x: u8 }
impl Duration {
    #[verifier::external_body]
    pub fn from_millis(millis: i64) -> (r: Self) { unimplemented!() }
}
impl vstd::std_specs::ops::DivSpecImpl<i64> for Duration {
    open spec fn obeys_div_spec() -> bool { false }
    open spec fn div_req(self, rhs: i64) -> bool { rhs != 0 }     // [nopanic.duration.div]
    uninterp spec fn div_spec(self, rhs: i64) -> Duration;
}
impl core::ops::Div<i64> for Duration {
    type Output = Duration;
    #[verifier::external_body]
    fn div(self, rhs: i64) -> (r: Duration) { unimplemented!() }
}
impl StdDuration {
    // impl From<Duration> for std::time::Duration (saturating at zero)
    #[verifier::external_body]
    pub fn from(d: Duration) -> (r: StdDuration) { unimplemented!() }
}
impl QosPolicies {
    #[verifier::external_body]
    pub fn deadline(&self) -> (r: Option<Deadline>) { unimplemented!() }
}
pub assume_specification<T, U, D: FnOnce() -> U, F: FnOnce(T) -> U>[ Option::<T>::map_or_else ](o: Option<T>, default: D, f: F) -> (r: U)
    requires o.is_none() ==> default.requires(()), o.is_some() ==> f.requires((o.unwrap(),)),
    ensures o.is_none() ==> default.ensures((), r), o.is_some() ==> f.ensures((o.unwrap(),), r);

// ---- back ends of the two ascending iterators (DoubleEndedIterator::next_back) -------------------
impl<'a> UnsentIter<'a> {
    #[verifier::external_body]
    pub fn next_back(&mut self) -> (r: Option<SequenceNumber>)
        ensures
            match r {
                None => old(self).rem().len() == 0 && final(self).rem() == old(self).rem(),
                Some(k) => old(self).rem().len() > 0 && k == old(self).rem().last() && final(self).rem() == old(self).rem().drop_last(),
            }
    { unimplemented!() }
}
impl<'a> SnSetIter<'a> {
    #[verifier::external_body]
    pub fn next_back(&mut self) -> (r: Option<SequenceNumber>)
        ensures
            match r {
                None => old(self).rem().len() == 0 && final(self).rem() == old(self).rem(),
                Some(k) => old(self).rem().len() > 0 && k == old(self).rem().last() && final(self).rem() == old(self).rem().drop_last(),
            }
    { unimplemented!() }
}

// ---- Iterator::all on BTreeMap::values(): true iff the predicate holds for every remaining value --
impl<'a, K, V> BValues<'a, K, V> {
    #[verifier::external_body]
    pub fn all<F: Fn(&V) -> bool>(&mut self, f: F) -> (r: bool)
        requires forall|i: int| 0 <= i < old(self).rem().len() ==> f.requires((&(#[trigger] old(self).rem()[i]).1,)),
        ensures
            r ==> forall|i: int| 0 <= i < old(self).rem().len() ==> f.ensures((&(#[trigger] old(self).rem()[i]).1,), true),
            !r ==> exists|i: int| 0 <= i < old(self).rem().len() && f.ensures((&(#[trigger] old(self).rem()[i]).1,), false),
    { unimplemented!() }
}
