// ---------------------------------------------------------------------------------------------
// Own shim file of unit `framing`: placeholders and stubs around MessageBuilder::data_msg /
// data_frag_msg.  WHAT goes into the DATA / DATAFRAG body (payload slice, inline QoS, key flag) is
// the business of unit `fragments` (frag.msg) and of C05 / C14's body-level harnesses; here only the
// sub-header that is put in front of the body is under contract, so everything the body is made of
// is an opaque value that is only moved.
// ---------------------------------------------------------------------------------------------
#[verifier::external_body] pub struct SecurityPluginsHandle { _p: u8 }
#[verifier::external_body] pub struct WriteOptions { _p: u8 }
#[verifier::external_body] #[derive(Clone, Copy)] pub struct SampleIdentity { _p: u8 }
#[verifier::external_body] pub struct SerializedPayload { _p: u8 }
#[verifier::external_body] #[derive(Clone, Copy)] pub struct ChangeKind { _p: u8 }
#[verifier::external_body] #[derive(Clone, Copy)] pub struct KeyHash { _p: u8 }
#[verifier::external_body] pub struct ParameterList { _p: u8 }
#[verifier::external_body] #[derive(Clone, Copy)] pub struct FragmentNumber { _p: u8 }

impl FragmentNumber { pub uninterp spec fn val(&self) -> u32; }
impl FromSpecImpl<FragmentNumber> for usize {
    open spec fn obeys_from_spec() -> bool { true }
    open spec fn from_spec(f: FragmentNumber) -> usize { f.val() as usize }
}
impl From<FragmentNumber> for usize {
    #[verifier::external_body]
    fn from(f: FragmentNumber) -> (r: usize) { unimplemented!() }
}
impl Clone for SerializedPayload { #[verifier::external_body] fn clone(&self) -> (r: Self) { unimplemented!() } }
impl From<SerializedPayload> for Bytes { #[verifier::external_body] fn from(sp: SerializedPayload) -> (r: Bytes) { unimplemented!() } }
impl From<Vec<u8>> for Bytes { #[verifier::external_body] fn from(v: Vec<u8>) -> (r: Bytes) ensures r@ == v@ { unimplemented!() } }
impl From<Bytes> for Vec<u8> { #[verifier::external_body] fn from(b: Bytes) -> (r: Vec<u8>) ensures r@ == b@ { unimplemented!() } }
impl KeyHash { #[verifier::external_body] pub fn to_vec(self) -> Vec<u8> { unimplemented!() } }
impl WriteOptions {
    #[verifier::external_body]
    pub fn related_sample_identity(&self) -> Option<SampleIdentity> { unimplemented!() }
}
impl SampleIdentity {
    // speedy `Writable::write_to_vec_with_ctx` of a fixed-size struct into a Vec: assumed not to fail
    #[verifier::external_body]
    pub fn write_to_vec_with_ctx(&self, ctx: Endianness) -> (r: Result<Vec<u8>, SpeedyError>) ensures r.is_ok() { unimplemented!() }
}
impl ParameterList {
    #[verifier::external_body] pub fn new() -> ParameterList { unimplemented!() }
    #[verifier::external_body] pub fn push(&mut self, p: Parameter) { unimplemented!() }
    #[verifier::external_body] pub fn is_empty(&self) -> bool { unimplemented!() }
}
impl Parameter {
    #[verifier::external_body]
    pub fn create_pid_status_info_parameter(is_disposed: bool, is_unregistered: bool, is_filtered: bool) -> Parameter { unimplemented!() }
}
impl DDSData {
    // real text verified in unit fragments (frag.slice)
    #[verifier::external_body]
    pub fn bytes_slice(&self, from: usize, to: usize) -> Bytes { unimplemented!() }
}
// enumflags2: flag-set algebra on the underlying byte
impl<T: FlagBit> BitFlags<T> {
    #[verifier::external_body]
    pub fn empty() -> (r: Self) ensures r.bits_spec() == 0 { unimplemented!() }
    #[verifier::external_body]
    pub fn from_flag(g: T) -> (r: Self) ensures r.bits_spec() == g.bit() { unimplemented!() }
}
impl<T: FlagBit> vstd::std_specs::ops::BitOrSpecImpl<BitFlags<T>> for BitFlags<T> {
    open spec fn obeys_bitor_spec() -> bool { false }
    open spec fn bitor_req(self, rhs: BitFlags<T>) -> bool { true }
    uninterp spec fn bitor_spec(self, rhs: BitFlags<T>) -> BitFlags<T>;
}
impl<T: FlagBit> core::ops::BitOr for BitFlags<T> {
    type Output = BitFlags<T>;
    #[verifier::external_body]
    fn bitor(self, rhs: Self) -> (r: Self) ensures r.bits_spec() == self.bits_spec() | rhs.bits_spec() { unimplemented!() }
}
pub assume_specification<T: Ord + core::marker::Destruct>[ std::cmp::min ](a: T, b: T) -> (r: T)
    ensures r == (if b.cmp_spec(&a) == Ordering::Less { b } else { a });
