// ---------------------------------------------------------------------------------------------
// SHIM (assumed, trusted) of unit qos_plcdr, second half (needs the extracted types):
//  * `#[derive(Readable, Writable)]` (speedy) on the 13 serialised types = instances of the two
//    shim traits of shims/qos_plcdr_wire.rs; the bodies are external (speedy-derive expansions)
//  * the per-type round-trip axioms  wire_ok(x, ctx) && unwire(wire(x, ctx), ctx) == Some(x)
// ---------------------------------------------------------------------------------------------
impl Writable for policy::Durability {
    #[verifier::external_body]
    fn write_to_vec_with_ctx(&self, ctx: Endianness) -> (r: Result<Vec<u8>, SpeedyError>) { unimplemented!() }
}
impl Readable for policy::Durability {
    #[verifier::external_body]
    fn read_from_buffer_with_ctx(ctx: Endianness, buffer: &Vec<u8>) -> (r: Result<Self, SpeedyError>) { unimplemented!() }
}
impl Writable for policy::Presentation {
    #[verifier::external_body]
    fn write_to_vec_with_ctx(&self, ctx: Endianness) -> (r: Result<Vec<u8>, SpeedyError>) { unimplemented!() }
}
impl Readable for policy::Presentation {
    #[verifier::external_body]
    fn read_from_buffer_with_ctx(ctx: Endianness, buffer: &Vec<u8>) -> (r: Result<Self, SpeedyError>) { unimplemented!() }
}
impl Writable for policy::Deadline {
    #[verifier::external_body]
    fn write_to_vec_with_ctx(&self, ctx: Endianness) -> (r: Result<Vec<u8>, SpeedyError>) { unimplemented!() }
}
impl Readable for policy::Deadline {
    #[verifier::external_body]
    fn read_from_buffer_with_ctx(ctx: Endianness, buffer: &Vec<u8>) -> (r: Result<Self, SpeedyError>) { unimplemented!() }
}
impl Writable for policy::LatencyBudget {
    #[verifier::external_body]
    fn write_to_vec_with_ctx(&self, ctx: Endianness) -> (r: Result<Vec<u8>, SpeedyError>) { unimplemented!() }
}
impl Readable for policy::LatencyBudget {
    #[verifier::external_body]
    fn read_from_buffer_with_ctx(ctx: Endianness, buffer: &Vec<u8>) -> (r: Result<Self, SpeedyError>) { unimplemented!() }
}
impl Writable for OwnershipKind {
    #[verifier::external_body]
    fn write_to_vec_with_ctx(&self, ctx: Endianness) -> (r: Result<Vec<u8>, SpeedyError>) { unimplemented!() }
}
impl Readable for OwnershipKind {
    #[verifier::external_body]
    fn read_from_buffer_with_ctx(ctx: Endianness, buffer: &Vec<u8>) -> (r: Result<Self, SpeedyError>) { unimplemented!() }
}
impl Writable for i32 {
    #[verifier::external_body]
    fn write_to_vec_with_ctx(&self, ctx: Endianness) -> (r: Result<Vec<u8>, SpeedyError>) { unimplemented!() }
}
impl Readable for i32 {
    #[verifier::external_body]
    fn read_from_buffer_with_ctx(ctx: Endianness, buffer: &Vec<u8>) -> (r: Result<Self, SpeedyError>) { unimplemented!() }
}
impl Writable for policy::Liveliness {
    #[verifier::external_body]
    fn write_to_vec_with_ctx(&self, ctx: Endianness) -> (r: Result<Vec<u8>, SpeedyError>) { unimplemented!() }
}
impl Readable for policy::Liveliness {
    #[verifier::external_body]
    fn read_from_buffer_with_ctx(ctx: Endianness, buffer: &Vec<u8>) -> (r: Result<Self, SpeedyError>) { unimplemented!() }
}
impl Writable for policy::TimeBasedFilter {
    #[verifier::external_body]
    fn write_to_vec_with_ctx(&self, ctx: Endianness) -> (r: Result<Vec<u8>, SpeedyError>) { unimplemented!() }
}
impl Readable for policy::TimeBasedFilter {
    #[verifier::external_body]
    fn read_from_buffer_with_ctx(ctx: Endianness, buffer: &Vec<u8>) -> (r: Result<Self, SpeedyError>) { unimplemented!() }
}
impl Writable for ReliabilitySerialization {
    #[verifier::external_body]
    fn write_to_vec_with_ctx(&self, ctx: Endianness) -> (r: Result<Vec<u8>, SpeedyError>) { unimplemented!() }
}
impl Readable for ReliabilitySerialization {
    #[verifier::external_body]
    fn read_from_buffer_with_ctx(ctx: Endianness, buffer: &Vec<u8>) -> (r: Result<Self, SpeedyError>) { unimplemented!() }
}
impl Writable for policy::DestinationOrder {
    #[verifier::external_body]
    fn write_to_vec_with_ctx(&self, ctx: Endianness) -> (r: Result<Vec<u8>, SpeedyError>) { unimplemented!() }
}
impl Readable for policy::DestinationOrder {
    #[verifier::external_body]
    fn read_from_buffer_with_ctx(ctx: Endianness, buffer: &Vec<u8>) -> (r: Result<Self, SpeedyError>) { unimplemented!() }
}
impl Writable for HistorySerialization {
    #[verifier::external_body]
    fn write_to_vec_with_ctx(&self, ctx: Endianness) -> (r: Result<Vec<u8>, SpeedyError>) { unimplemented!() }
}
impl Readable for HistorySerialization {
    #[verifier::external_body]
    fn read_from_buffer_with_ctx(ctx: Endianness, buffer: &Vec<u8>) -> (r: Result<Self, SpeedyError>) { unimplemented!() }
}
impl Writable for policy::ResourceLimits {
    #[verifier::external_body]
    fn write_to_vec_with_ctx(&self, ctx: Endianness) -> (r: Result<Vec<u8>, SpeedyError>) { unimplemented!() }
}
impl Readable for policy::ResourceLimits {
    #[verifier::external_body]
    fn read_from_buffer_with_ctx(ctx: Endianness, buffer: &Vec<u8>) -> (r: Result<Self, SpeedyError>) { unimplemented!() }
}
impl Writable for policy::Lifespan {
    #[verifier::external_body]
    fn write_to_vec_with_ctx(&self, ctx: Endianness) -> (r: Result<Vec<u8>, SpeedyError>) { unimplemented!() }
}
impl Readable for policy::Lifespan {
    #[verifier::external_body]
    fn read_from_buffer_with_ctx(ctx: Endianness, buffer: &Vec<u8>) -> (r: Result<Self, SpeedyError>) { unimplemented!() }
}

// ASSUMPTIONS (one per type; discharged by Kani harness c15_rt_<type>, cross-engine): writing a value succeeds and
// what speedy writes reads back as that value, in either byte order. Nothing else is assumed about bytes.
#[verifier::external_body]
pub proof fn axiom_rt_durability()
    ensures forall|x: policy::Durability, ctx: Endianness| #[trigger] wire_ok::<policy::Durability>(x, ctx),
            forall|x: policy::Durability, ctx: Endianness| unwire::<policy::Durability>(#[trigger] wire::<policy::Durability>(x, ctx), ctx) == Some(x),
{}
#[verifier::external_body]
pub proof fn axiom_rt_presentation()
    ensures forall|x: policy::Presentation, ctx: Endianness| #[trigger] wire_ok::<policy::Presentation>(x, ctx),
            forall|x: policy::Presentation, ctx: Endianness| unwire::<policy::Presentation>(#[trigger] wire::<policy::Presentation>(x, ctx), ctx) == Some(x),
{}
#[verifier::external_body]
pub proof fn axiom_rt_deadline()
    ensures forall|x: policy::Deadline, ctx: Endianness| #[trigger] wire_ok::<policy::Deadline>(x, ctx),
            forall|x: policy::Deadline, ctx: Endianness| unwire::<policy::Deadline>(#[trigger] wire::<policy::Deadline>(x, ctx), ctx) == Some(x),
{}
#[verifier::external_body]
pub proof fn axiom_rt_latency_budget()
    ensures forall|x: policy::LatencyBudget, ctx: Endianness| #[trigger] wire_ok::<policy::LatencyBudget>(x, ctx),
            forall|x: policy::LatencyBudget, ctx: Endianness| unwire::<policy::LatencyBudget>(#[trigger] wire::<policy::LatencyBudget>(x, ctx), ctx) == Some(x),
{}
#[verifier::external_body]
pub proof fn axiom_rt_ownership_kind()
    ensures forall|x: OwnershipKind, ctx: Endianness| #[trigger] wire_ok::<OwnershipKind>(x, ctx),
            forall|x: OwnershipKind, ctx: Endianness| unwire::<OwnershipKind>(#[trigger] wire::<OwnershipKind>(x, ctx), ctx) == Some(x),
{}
#[verifier::external_body]
pub proof fn axiom_rt_i32()
    ensures forall|x: i32, ctx: Endianness| #[trigger] wire_ok::<i32>(x, ctx),
            forall|x: i32, ctx: Endianness| unwire::<i32>(#[trigger] wire::<i32>(x, ctx), ctx) == Some(x),
{}
#[verifier::external_body]
pub proof fn axiom_rt_liveliness()
    ensures forall|x: policy::Liveliness, ctx: Endianness| #[trigger] wire_ok::<policy::Liveliness>(x, ctx),
            forall|x: policy::Liveliness, ctx: Endianness| unwire::<policy::Liveliness>(#[trigger] wire::<policy::Liveliness>(x, ctx), ctx) == Some(x),
{}
#[verifier::external_body]
pub proof fn axiom_rt_time_based_filter()
    ensures forall|x: policy::TimeBasedFilter, ctx: Endianness| #[trigger] wire_ok::<policy::TimeBasedFilter>(x, ctx),
            forall|x: policy::TimeBasedFilter, ctx: Endianness| unwire::<policy::TimeBasedFilter>(#[trigger] wire::<policy::TimeBasedFilter>(x, ctx), ctx) == Some(x),
{}
#[verifier::external_body]
pub proof fn axiom_rt_reliability_serialization()
    ensures forall|x: ReliabilitySerialization, ctx: Endianness| #[trigger] wire_ok::<ReliabilitySerialization>(x, ctx),
            forall|x: ReliabilitySerialization, ctx: Endianness| unwire::<ReliabilitySerialization>(#[trigger] wire::<ReliabilitySerialization>(x, ctx), ctx) == Some(x),
{}
#[verifier::external_body]
pub proof fn axiom_rt_destination_order()
    ensures forall|x: policy::DestinationOrder, ctx: Endianness| #[trigger] wire_ok::<policy::DestinationOrder>(x, ctx),
            forall|x: policy::DestinationOrder, ctx: Endianness| unwire::<policy::DestinationOrder>(#[trigger] wire::<policy::DestinationOrder>(x, ctx), ctx) == Some(x),
{}
#[verifier::external_body]
pub proof fn axiom_rt_history_serialization()
    ensures forall|x: HistorySerialization, ctx: Endianness| #[trigger] wire_ok::<HistorySerialization>(x, ctx),
            forall|x: HistorySerialization, ctx: Endianness| unwire::<HistorySerialization>(#[trigger] wire::<HistorySerialization>(x, ctx), ctx) == Some(x),
{}
#[verifier::external_body]
pub proof fn axiom_rt_resource_limits()
    ensures forall|x: policy::ResourceLimits, ctx: Endianness| #[trigger] wire_ok::<policy::ResourceLimits>(x, ctx),
            forall|x: policy::ResourceLimits, ctx: Endianness| unwire::<policy::ResourceLimits>(#[trigger] wire::<policy::ResourceLimits>(x, ctx), ctx) == Some(x),
{}
#[verifier::external_body]
pub proof fn axiom_rt_lifespan()
    ensures forall|x: policy::Lifespan, ctx: Endianness| #[trigger] wire_ok::<policy::Lifespan>(x, ctx),
            forall|x: policy::Lifespan, ctx: Endianness| unwire::<policy::Lifespan>(#[trigger] wire::<policy::Lifespan>(x, ctx), ctx) == Some(x),
{}
