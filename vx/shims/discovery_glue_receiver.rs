// ---------------------------------------------------------------------------------------------
// Unit discovery_glue — SHIM / STUBS (assumed, trusted) around MessageReceiver::handle_writer_submessage:
// submessage bodies, flags, Reader and the security plugin handle are placeholders (R9: only moved /
// handed to callees); the Reader entry points and the decode_and_handle_* helpers are stubs without
// contract (what they do with the submessage is C01 / C03 / C05); the sending end of the liveness
// channel is the ghost object `LiveChan`:
//   offered  every prefix handed to try_send, in order
//   queued   those the channel accepted (mio_channel::sync_channel(8): a full or disconnected
//            channel refuses, the code then only logs) = what Discovery's SPDP_LIVENESS_TOKEN arm
//            receives (World::live_in)
// ---------------------------------------------------------------------------------------------
pub tracked struct LiveChan {
    pub ghost offered: Seq<GuidPrefix>,
    pub ghost queued: Seq<GuidPrefix>,
}
#[verifier::external_body] pub struct LivenessSender { opaque: u8 }      // mio_channel::SyncSender<GuidPrefix>
#[verifier::external_body] pub struct TrySendError { opaque: u8 }
impl LivenessSender {
    #[verifier::external_body]
    pub fn try_send(&self, Tracked(c): Tracked<&mut LiveChan>, t: GuidPrefix) -> (r: Result<(), TrySendError>)
        ensures final(c).offered == old(c).offered.push(t),
                final(c).queued == (if r is Ok { old(c).queued.push(t) } else { old(c).queued }),
    { unimplemented!() }
}
// the ids a DATA submessage carries are kept (arbitrary values; the RESOLVED target reader is a
// parameter of handle_writer_submessage): a change that decides from them is judged on its text (seed C12e)
pub struct Data { pub reader_id: EntityId, pub writer_id: EntityId, pub opaque: u8 }
#[verifier::external_body] pub struct DataFrag { opaque: u8 }
#[verifier::external_body] pub struct Gap { opaque: u8 }
#[verifier::external_body] pub struct Heartbeat { opaque: u8 }
#[verifier::external_body] pub struct HeartbeatFrag { opaque: u8 }
impl Clone for DataFrag { #[verifier::external_body] fn clone(&self) -> (r: Self) { unimplemented!() } }
#[verifier::external_body] #[verifier::reject_recursive_types(T)] pub struct BitFlags<T> { opaque: core::marker::PhantomData<T> }
#[allow(non_camel_case_types)] pub struct DATA_Flags;
#[allow(non_camel_case_types)] pub struct DATAFRAG_Flags;
#[allow(non_camel_case_types)] pub struct GAP_Flags;
#[allow(non_camel_case_types)] pub enum HEARTBEAT_Flags { Endianness, Final, Liveliness }
#[allow(non_camel_case_types)] pub struct HEARTBEATFRAG_Flags;
impl<T> BitFlags<T> {
    #[verifier::external_body] pub fn contains(&self, f: T) -> (r: bool) { unimplemented!() }
}
#[verifier::external_body] pub struct Locator { opaque: u8 }
impl Clone for Locator { #[verifier::external_body] fn clone(&self) -> (r: Self) { unimplemented!() } }
#[verifier::external_body] pub struct Timestamp { opaque: u8 }
impl Clone for Timestamp { #[verifier::external_body] fn clone(&self) -> (r: Self) { unimplemented!() } }
impl Copy for Timestamp {}
#[verifier::external_body] pub struct SecurityPluginsHandle { opaque: u8 }
impl Clone for SecurityPluginsHandle { #[verifier::external_body] fn clone(&self) -> (r: Self) { unimplemented!() } }
// R2: derive(PartialOrd, Ord) of EntityId — only needed as the key bound of available_readers (lookups by equality)
impl PartialOrd for EntityId { #[verifier::external_body] fn partial_cmp(&self, other: &Self) -> (r: Option<Ordering>) { unimplemented!() } }
impl Ord for EntityId { #[verifier::external_body] fn cmp(&self, other: &Self) -> (r: Ordering) { unimplemented!() } }
#[verifier::external_body] pub struct Reader { opaque: u8 }
impl Reader {
    #[verifier::external_body] pub fn handle_heartbeat_msg(&mut self, heartbeat: &Heartbeat, final_flag_set: bool, mr_state: &MessageReceiverState) { unimplemented!() }
    #[verifier::external_body] pub fn handle_gap_msg(&mut self, gap: &Gap, mr_state: &MessageReceiverState) { unimplemented!() }
    #[verifier::external_body] pub fn handle_heartbeatfrag_msg(&mut self, heartbeatfrag: &HeartbeatFrag, mr_state: &MessageReceiverState) { unimplemented!() }
}
// `HasEntityIds for WriterSubmessage::sender_entity_id` (the writer id carried by the submessage)
pub uninterp spec fn sender_eid(s: WriterSubmessage) -> EntityId;
impl WriterSubmessage {
    #[verifier::external_body] pub fn sender_entity_id(&self) -> (r: EntityId) ensures r == sender_eid(*self) { unimplemented!() }
}
impl MessageReceiver {
    #[verifier::external_body]
    pub fn decode_and_handle_data(_security_plugins: Option<&SecurityPluginsHandle>, _source_guid: &GUID, data: Data,
                                  data_flags: BitFlags<DATA_Flags>, reader: &mut Reader, mr_state: &MessageReceiverState) { unimplemented!() }
    #[verifier::external_body]
    pub fn decode_and_handle_datafrag(_security_plugins: Option<&SecurityPluginsHandle>, _source_guid: &GUID, datafrag: DataFrag,
                                      datafrag_flags: BitFlags<DATAFRAG_Flags>, reader: &mut Reader, mr_state: &MessageReceiverState) { unimplemented!() }
}
// std one-liner (same text as in units/reader_glue.rs.tmpl)
pub assume_specification<T, E, F: FnOnce(E) -> T + core::marker::Destruct> [core::result::Result::<T, E>::unwrap_or_else] (r: Result<T, E>, f: F) -> (o: T)
    where E: core::marker::Destruct
    requires r is Err ==> f.requires((r->Err_0,)),
    ensures match r { Ok(v) => o == v, Err(e) => f.ensures((e,), o) };
