// ---------------------------------------------------------------------------------------------
// structure/sequence_number.rs : SequenceNumber, SequenceNumberRange (extracted) + R2 template
// impls for the derives (PartialEq, Eq, PartialOrd, Ord, NumOps -> Add/Sub on the inner i64).
// The template impls are cross-checked against the real derives by Kani harness
// `verif_sn_derive_*` (DESIGN 4.3).
// ---------------------------------------------------------------------------------------------
@@extract struct src/structure/sequence_number.rs SequenceNumber derive=Clone,Copy

impl PartialEqSpecImpl for SequenceNumber {
    open spec fn obeys_eq_spec() -> bool { true }
    open spec fn eq_spec(&self, other: &Self) -> bool { self.0 == other.0 }
}
impl PartialEq for SequenceNumber { fn eq(&self, other: &Self) -> (r: bool) { self.0 == other.0 } }
impl Eq for SequenceNumber {}
impl PartialOrdSpecImpl for SequenceNumber {
    open spec fn obeys_partial_cmp_spec() -> bool { true }
    open spec fn partial_cmp_spec(&self, other: &Self) -> Option<Ordering> {
        if self.0 < other.0 { Some(Ordering::Less) } else if self.0 == other.0 { Some(Ordering::Equal) } else { Some(Ordering::Greater) }
    }
}
impl PartialOrd for SequenceNumber {
    fn partial_cmp(&self, other: &Self) -> (r: Option<Ordering>) {
        if self.0 < other.0 { Some(Ordering::Less) } else if self.0 == other.0 { Some(Ordering::Equal) } else { Some(Ordering::Greater) }
    }
}
impl OrdSpecImpl for SequenceNumber {
    open spec fn obeys_cmp_spec() -> bool { true }
    open spec fn cmp_spec(&self, other: &Self) -> Ordering {
        if self.0 < other.0 { Ordering::Less } else if self.0 == other.0 { Ordering::Equal } else { Ordering::Greater }
    }
}
impl Ord for SequenceNumber {
    fn cmp(&self, other: &Self) -> (r: Ordering) {
        if self.0 < other.0 { Ordering::Less } else if self.0 == other.0 { Ordering::Equal } else { Ordering::Greater }
    }
}
impl AddSpecImpl<SequenceNumber> for SequenceNumber {
    open spec fn obeys_add_spec() -> bool { true }
    open spec fn add_req(self, rhs: SequenceNumber) -> bool { i64::MIN <= self.0 + rhs.0 <= i64::MAX }   // [nopanic.sn.add]
    open spec fn add_spec(self, rhs: SequenceNumber) -> SequenceNumber { SequenceNumber((self.0 + rhs.0) as i64) }
}
impl core::ops::Add for SequenceNumber {
    type Output = SequenceNumber;
    fn add(self, rhs: SequenceNumber) -> SequenceNumber { SequenceNumber(self.0 + rhs.0) }
}
impl SubSpecImpl<SequenceNumber> for SequenceNumber {
    open spec fn obeys_sub_spec() -> bool { true }
    open spec fn sub_req(self, rhs: SequenceNumber) -> bool { i64::MIN <= self.0 - rhs.0 <= i64::MAX }   // [nopanic.sn.sub]
    open spec fn sub_spec(self, rhs: SequenceNumber) -> SequenceNumber { SequenceNumber((self.0 - rhs.0) as i64) }
}
impl core::ops::Sub for SequenceNumber {
    type Output = SequenceNumber;
    fn sub(self, rhs: SequenceNumber) -> SequenceNumber { SequenceNumber(self.0 - rhs.0) }
}
impl FromSpecImpl<i64> for SequenceNumber {
    open spec fn obeys_from_spec() -> bool { true }
    open spec fn from_spec(v: i64) -> Self { SequenceNumber(v) }
}
impl From<i64> for SequenceNumber {
@@extract fn src/structure/sequence_number.rs "From<i64> for SequenceNumber::from"
@@nopub
@@ret r
@@ensures sn.from
    r.0 == value
@@end
}

impl SequenceNumber {
@@extract fn src/structure/sequence_number.rs SequenceNumber::new
@@ret r
@@ensures sn.new
    r.0 == value
@@end
@@extract fn src/structure/sequence_number.rs SequenceNumber::zero
@@ret r
@@ensures sn.zero
    r.0 == 0
@@end
@@extract fn src/structure/sequence_number.rs SequenceNumber::plus_1
@@ret r
@@requires nopanic.sn.plus_1
    self.0 < i64::MAX
@@ensures sn.plus_1
    r.0 == self.0 + 1
@@end
@@extract const src/structure/sequence_number.rs SequenceNumber::MAX_ACCEPTED
@@extract fn src/structure/sequence_number.rs SequenceNumber::is_acceptable
@@ret r
@@ensures sn.acceptable
    // accepted from the network iff at most i64::MAX / 2 (headroom for window arithmetic)
    r == (self.0 <= 0x3FFF_FFFF_FFFF_FFFF)
@@end
@@extract fn src/structure/sequence_number.rs SequenceNumber::range_inclusive
@@ret r
@@ensures sn.range_inclusive
    r.begin == begin, r.end == end
@@end
}

@@extract struct src/structure/sequence_number.rs SequenceNumberRange derive=Clone,Copy

impl SequenceNumberRange {
@@extract fn src/structure/sequence_number.rs SequenceNumberRange::new
@@ret r
@@ensures snr.new
    r.begin == begin, r.end == end
@@end
@@extract fn src/structure/sequence_number.rs SequenceNumberRange::begin
@@ret r
@@ensures snr.begin
    r == self.begin
@@end
@@extract fn src/structure/sequence_number.rs SequenceNumberRange::end
@@ret r
@@ensures snr.end
    r == self.end
@@end
    pub open spec fn count(&self) -> int { if self.begin.0 > self.end.0 { 0 } else { self.end.0 - self.begin.0 + 1 } }

// R4: `impl Iterator for SequenceNumberRange { fn next }` becomes an inherent method
@@extract fn src/structure/sequence_number.rs "Iterator for SequenceNumberRange::next"
@@subst Self::Item=SequenceNumber
@@ret r
@@requires nopanic.snr.next
    old(self).end.0 < i64::MAX
@@ensures snr.next
    final(self).end == old(self).end,
    match r {
        None => old(self).begin.0 > old(self).end.0 && final(self).begin == old(self).begin,
        Some(b) => b == old(self).begin && old(self).begin.0 <= old(self).end.0 && final(self).begin.0 == old(self).begin.0 + 1,
    }
@@end
}
impl VRangeBounds<SequenceNumber> for SequenceNumberRange {
    // mirrors `impl RangeBounds<SequenceNumber> for SequenceNumberRange` (start_bound/end_bound)
    open spec fn lo(&self) -> Bound<SequenceNumber> { Bound::Included(self.begin) }
    open spec fn hi(&self) -> Bound<SequenceNumber> { Bound::Included(self.end) }
}
