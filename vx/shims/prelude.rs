use vstd::prelude::*;
use vstd::std_specs::cmp::*;
use vstd::std_specs::ops::{AddSpecImpl, SubSpecImpl};
use vstd::std_specs::convert::FromSpecImpl;
use vstd::std_specs::iter::IteratorSpec;
use core::cmp::Ordering;
use core::ops::Bound;
use core::ops::Bound::{Included, Excluded, Unbounded};
