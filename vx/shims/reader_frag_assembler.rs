// ---------------------------------------------------------------------------------------------
// Unit reader_frag — the FragmentAssembler as seen by the Reader glue.
//
// CROSS-UNIT CONTRACT (assumed HERE, proved on the real text in unit `fragments`,
// vx/units/fragments.rs.tmpl): the stubs `FragmentAssembler::{new, new_datafrag,
// garbage_collect_before, is_partially_received}` below carry exactly the `requires` / `ensures`
// that unit `fragments` proves for the real functions (labels frag.fa.new, wf.fa, frag.frame,
// frag.view, frag.complete.only, frag.incomplete.none, frag.once, frag.deliver, frag.insert.ignore,
// frag.gc.frame, frag.partial; precondition valid.frag.parsed).  The types are the real ones
// (extracted); the specification vocabulary (umin .. parsed_ok, inv/before_of/fits/after_bits/
// after_buf/view_bufs, DDSData::full, SerializedPayload::full) is a verbatim copy of the one in
// vx/units/fragments.rs.tmpl — KEEP IN SYNC.  The only re-packaging: the postcondition of
// new_datafrag / garbage_collect_before is bundled into one spec predicate (new_datafrag_post /
// fa_gc_at: old(self) -> pre, final(self) -> post) so that the Reader-level contracts can name it.
// ---------------------------------------------------------------------------------------------

// ---- specification vocabulary (copy of unit fragments) -------------------------------------------
pub open spec fn umin(a: int, b: int) -> int { if a <= b { a } else { b } }
pub open spec fn ceil_div(a: int, b: int) -> int { if a % b == 0 { a / b } else { a / b + 1 } }
pub open spec fn ins_from(fs: int, start: int) -> int { (start - 1) * fs }
pub open spec fn ins_to(buf_len: int, fs: int, start: int, cnt: int, payload_len: int) -> int {
    umin(ins_from(fs, start) + umin(cnt * fs, payload_len), buf_len)
}
pub open spec fn buf_insert(buf: Seq<u8>, fs: int, start: int, cnt: int, payload: Seq<u8>) -> Seq<u8> {
    Seq::new(buf.len(), |i: int|
        if ins_from(fs, start) <= i < ins_to(buf.len() as int, fs, start, cnt, payload.len() as int) { payload[i - ins_from(fs, start)] } else { buf[i] })
}
pub open spec fn bits_insert(bits: Seq<bool>, start: int, cnt: int) -> Seq<bool> {
    Seq::new(bits.len(), |j: int| bits[j] || (start - 1 <= j < start - 1 + cnt))
}
pub open spec fn frag_consistent(buf_len: int, nbits: int, fs: int, start: int, cnt: int) -> bool {
    start - 1 + cnt <= nbits && ins_from(fs, start) <= buf_len
}
pub open spec fn all_set(bits: Seq<bool>) -> bool { forall|j: int| 0 <= j < bits.len() ==> bits[j] }

// ---- types (real, extracted; values of the placeholder types are only moved) ---------------------
#[verifier::external_body] pub struct ParameterList { _p: u8 }
@@extract struct src/structure/sequence_number.rs FragmentNumber derive=Clone,Copy
@@extract struct src/messages/submessages/data_frag.rs DataFrag
impl DataFrag {
  pub open spec fn start(&self) -> int { self.fragment_starting_num.0 as int }
  pub open spec fn cnt(&self) -> int { self.fragments_in_submessage as int }
}
@@extract struct src/rtps/fragment_assembler.rs AssemblyBuffer
impl AssemblyBuffer {
  pub open spec fn wf(&self) -> bool { self.received_bitmap@.len() == self.fragment_count }
}
@@extract struct src/serialization/representation_identifier.rs RepresentationIdentifier derive=Clone,Copy
@@extract struct src/messages/submessages/elements/serialized_payload.rs SerializedPayload
impl SerializedPayload {
  pub open spec fn full(&self) -> Seq<u8> {
      self.representation_identifier.bytes@ + self.representation_options@ + self.value@
  }
}
@@extract enum src/structure/cache_change.rs ChangeKind derive=Clone,Copy
@@extract struct src/dds/key.rs KeyHash derive=Clone,Copy
@@extract enum src/dds/ddsdata.rs DDSData
impl DDSData {
  pub open spec fn full(&self) -> Seq<u8> {
      match self {
          DDSData::Data { serialized_payload } => serialized_payload.full(),
          DDSData::DisposeByKey { key, .. } => key.full(),
          DDSData::DisposeByKeyHash { key_hash, .. } => key_hash.0@,
      }
  }
}
@@extract enum src/messages/submessages/submessage_flag.rs DATAFRAG_Flags derive=Clone,Copy
@@extract struct src/rtps/fragment_assembler.rs FragmentAssembler

// enumflags2::BitFlags<T> is Copy (T: BitFlag is); shims/fragments_std.rs declares the type only
impl<T> Clone for BitFlags<T> { #[verifier::external_body] fn clone(&self) -> (r: Self) ensures r == *self { unimplemented!() } }
impl<T> Copy for BitFlags<T> {}

// what DataFrag::deserialize (validity tail, RTPS 8.3.8.3.3) guarantees for a DATAFRAG it returns
// (established on the real parser text in unit fragments, label valid.frag.parser)
pub open spec fn parsed_ok(df: &DataFrag) -> bool {
    &&& df.writer_sn.0 >= 1
    &&& 1 <= df.fragment_size <= df.data_size
    &&& 1 <= df.start() <= ceil_div(df.data_size as int, df.fragment_size as int)
}

impl FragmentAssembler {
  // representation invariant: every buffer under assembly is well-formed
  pub open spec fn inv(&self) -> bool {
      forall|sn: SequenceNumber| self.assembly_buffers@.contains_key(sn) ==> (#[trigger] self.assembly_buffers@[sn]).wf()
  }
  pub open spec fn before_of(&self, df: &DataFrag) -> (Seq<u8>, Seq<bool>) {
      if self.assembly_buffers@.contains_key(df.writer_sn) {
          (self.assembly_buffers@[df.writer_sn].buffer_bytes@, self.assembly_buffers@[df.writer_sn].received_bitmap@)
      } else {
          (Seq::new(df.data_size as nat, |i: int| 0u8),
           Seq::new(ceil_div(df.data_size as int, df.fragment_size as int) as nat, |j: int| false))
      }
  }
  pub open spec fn fits(&self, df: &DataFrag) -> bool {
      frag_consistent(self.before_of(df).0.len() as int, self.before_of(df).1.len() as int, self.fragment_size as int, df.start(), df.cnt())
  }
  pub open spec fn after_bits(&self, df: &DataFrag) -> Seq<bool> {
      if self.fits(df) { bits_insert(self.before_of(df).1, df.start(), df.cnt()) } else { self.before_of(df).1 }
  }
  pub open spec fn after_buf(&self, df: &DataFrag) -> Seq<u8> {
      if self.fits(df) { buf_insert(self.before_of(df).0, self.fragment_size as int, df.start(), df.cnt(), df.serialized_payload@) }
      else { self.before_of(df).0 }
  }
  pub open spec fn view_bufs(&self) -> Map<SequenceNumber, (Seq<u8>, Seq<bool>)> {
      self.assembly_buffers@.map_values(|ab: AssemblyBuffer| (ab.buffer_bytes@, ab.received_bitmap@))
  }
}

// the postcondition of FragmentAssembler::new_datafrag as proved in unit fragments, clause by clause
pub open spec fn new_datafrag_post(pre: FragmentAssembler, post: FragmentAssembler, datafrag: &DataFrag, flags: BitFlags<DATAFRAG_Flags>, r: Option<DDSData>) -> bool {
    // wf.fa
    &&& post.inv()
    // frag.frame
    &&& post.fragment_size == pre.fragment_size
    &&& forall|sn: SequenceNumber| sn != datafrag.writer_sn ==> (#[trigger] post.assembly_buffers@.contains_key(sn) <==> pre.assembly_buffers@.contains_key(sn))
    &&& forall|sn: SequenceNumber| sn != datafrag.writer_sn && pre.assembly_buffers@.contains_key(sn) ==> #[trigger] post.assembly_buffers@[sn] == pre.assembly_buffers@[sn]
    // frag.view
    &&& post.view_bufs() =~=
        (if all_set(pre.after_bits(datafrag)) { pre.view_bufs().remove(datafrag.writer_sn) }
         else { pre.view_bufs().insert(datafrag.writer_sn, (pre.after_buf(datafrag), pre.after_bits(datafrag))) })
    // frag.complete.only
    &&& (r.is_some() ==> all_set(pre.after_bits(datafrag)))
    // frag.incomplete.none
    &&& (!all_set(pre.after_bits(datafrag)) ==> r.is_none()
        && post.assembly_buffers@.contains_key(datafrag.writer_sn)
        && post.assembly_buffers@[datafrag.writer_sn].received_bitmap@ =~= pre.after_bits(datafrag)
        && post.assembly_buffers@[datafrag.writer_sn].buffer_bytes@ =~= pre.after_buf(datafrag))
    // frag.once
    &&& (all_set(pre.after_bits(datafrag)) ==> !post.assembly_buffers@.contains_key(datafrag.writer_sn))
    // frag.deliver
    &&& (all_set(pre.after_bits(datafrag)) && pre.before_of(datafrag).0.len() >= 4 ==>
        r.is_some()
        && r.unwrap().full() =~= pre.after_buf(datafrag)
        && (r.unwrap() is DisposeByKey <==> flags.has(DATAFRAG_Flags::Key))
        && (r.unwrap() is Data <==> !flags.has(DATAFRAG_Flags::Key)))
    // frag.insert.ignore
    &&& (!pre.fits(datafrag) && pre.assembly_buffers@.contains_key(datafrag.writer_sn) && !all_set(pre.before_of(datafrag).1) ==>
        r.is_none() && post.assembly_buffers@ =~= pre.assembly_buffers@)
}

// the postcondition of FragmentAssembler::garbage_collect_before as proved in unit fragments
// (wf.fa, frag.gc.frame): whole buffers older than `expire_before` are dropped, nothing else changes
pub open spec fn fa_gc_at(pre: FragmentAssembler, post: FragmentAssembler, expire_before: Timestamp) -> bool {
    &&& post.inv()
    &&& post.fragment_size == pre.fragment_size
    &&& forall|sn: SequenceNumber| #[trigger] post.assembly_buffers@.contains_key(sn) <==>
            pre.assembly_buffers@.contains_key(sn) && ts_cmp(pre.assembly_buffers@[sn].modified_time, expire_before) != Ordering::Less
    &&& forall|sn: SequenceNumber| #[trigger] post.assembly_buffers@.contains_key(sn) ==> post.assembly_buffers@[sn] == pre.assembly_buffers@[sn]
}

impl FragmentAssembler {
    // stub of FragmentAssembler::new (unit fragments: frag.fa.new)
    #[verifier::external_body]
    pub fn new(fragment_size: u16) -> (r: Self)
        ensures
            r.fragment_size == fragment_size,
            r.assembly_buffers@ == Map::<SequenceNumber, AssemblyBuffer>::empty(),
            r.inv(),
    { unimplemented!() }

    // stub of FragmentAssembler::new_datafrag (unit fragments)
    #[verifier::external_body]
    pub fn new_datafrag(&mut self, datafrag: &DataFrag, flags: BitFlags<DATAFRAG_Flags>) -> (r: Option<DDSData>)
        requires
            parsed_ok(datafrag),   // [valid.frag.parsed]
            old(self).inv(),       // [wf.fa]
        ensures
            new_datafrag_post(*old(self), *final(self), datafrag, flags, r),
    { unimplemented!() }

    // stub of FragmentAssembler::garbage_collect_before (unit fragments)
    #[verifier::external_body]
    pub fn garbage_collect_before(&mut self, expire_before: Timestamp)
        requires
            old(self).inv(),       // [wf.fa]
        ensures
            fa_gc_at(*old(self), *final(self), expire_before),
    { unimplemented!() }

    // stub of FragmentAssembler::is_partially_received (unit fragments: frag.partial)
    #[verifier::external_body]
    pub fn is_partially_received(&self, sn: SequenceNumber) -> (r: bool)
        ensures r == self.assembly_buffers@.contains_key(sn),
    { unimplemented!() }
}
