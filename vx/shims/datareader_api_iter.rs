// ---------------------------------------------------------------------------------------------
// Unit datareader_api — SHIM (assumed std contract, trusted): `Iterator::map` on a BTreeMap range
// (shims/btreemap.rs BRange) followed by `next()`, as used by DataSampleCache::next_key:
// "Takes a closure and creates an iterator which calls that closure on each element" (lazily):
// next() of the mapped iterator is the closure applied to next() of the underlying one.
// ---------------------------------------------------------------------------------------------
#[verifier::external_body]
#[verifier::reject_recursive_types(K)]
#[verifier::reject_recursive_types(V)]
#[verifier::reject_recursive_types(F)]
pub struct BRangeMap<'a, K, V, F> { inner: std::iter::Map<std::collections::btree_map::Range<'a, K, V>, F> }

impl<'a, K, V, F> BRangeMap<'a, K, V, F> {
    // entries of the underlying range still to come (ascending), and the closure
    pub uninterp spec fn rem(&self) -> Seq<(K, V)>;
    pub uninterp spec fn fun(&self) -> F;

    #[verifier::external_body]
    pub fn next<B>(&mut self) -> (r: Option<B>) where F: FnMut((&'a K, &'a V)) -> B
        ensures
            match r {
                None => old(self).rem().len() == 0,
                Some(b) => old(self).rem().len() > 0 && final(self).rem() == old(self).rem().skip(1) && final(self).fun() == old(self).fun()
                    && exists|k: &'a K, v: &'a V| (*k, *v) == old(self).rem()[0] && #[trigger] old(self).fun().ensures(((k, v),), b),
            }
    { unimplemented!() }
}

impl<'a, K, V> BRange<'a, K, V> {
    #[verifier::external_body]
    pub fn map<B, F: FnMut((&'a K, &'a V)) -> B>(self, f: F) -> (r: BRangeMap<'a, K, V, F>)
        requires forall|k: &'a K, v: &'a V| #[trigger] f.requires(((k, v),)),
        ensures r.rem() == self.rem(), r.fun() == f,
    { unimplemented!() }
}
