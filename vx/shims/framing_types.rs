// ---------------------------------------------------------------------------------------------
// Own shim file of unit `framing` (rtps/message.rs, rtps/submessage.rs: RTPS message framing).
// Everything here is ASSUMED (trusted): contracts of the dependencies `bytes`, `speedy`, `enumflags2`,
// `std::io`, and STUBS of the per-kind body (de)serialisers, which are covered elsewhere (units
// number_set / fragments, Kani c14_* / c06_*).  Documented panics of a dependency are `requires`
// (they become no-panic obligations at the call sites in the extracted code).
// ---------------------------------------------------------------------------------------------

// ---- speedy::Endianness (two-variant enum, re-declared) ---------------------------------------
#[derive(Clone, Copy, PartialEq, Eq, Structural)]
pub enum Endianness { LittleEndian, BigEndian }
pub mod speedy { pub use super::Endianness; }      // the real text also writes `speedy::Endianness`

// ---- error types (opaque; only moved) -----------------------------------------------------------
#[verifier::external_body] #[derive(Debug)] pub struct SpeedyError { _p: u8 }          // speedy::Error / C::Error
pub mod io {
    use vstd::prelude::*;
    #[verifier::external_body] pub struct Error { _p: u8 }
    pub enum ErrorKind { Other, InvalidInput, InvalidData }
    pub type Result<T> = core::result::Result<T, Error>;
    impl Error {
        #[verifier::external_body]
        pub fn new<E>(kind: ErrorKind, error: E) -> Error { unimplemented!() }
    }
}
// `?` on a speedy result inside a function returning io::Result (speedy: `impl From<Error> for io::Error`)
impl From<SpeedyError> for io::Error {
    #[verifier::external_body]
    fn from(e: SpeedyError) -> io::Error { unimplemented!() }
}
// R16: `format!(..)` -> opaque String placeholder (feeds error values only)
#[verifier::external_body]
pub fn verif_fmt() -> String { unimplemented!() }

// ---- bytes::Bytes (crate `bytes` 1.x), view = the byte string ----------------------------------
pub trait ByteRange {
    spec fn lo(&self) -> int;
    spec fn hi(&self, len: int) -> int;
}
impl ByteRange for core::ops::Range<usize> {
    open spec fn lo(&self) -> int { self.start as int }
    open spec fn hi(&self, len: int) -> int { self.end as int }
}
impl ByteRange for core::ops::RangeTo<usize> {
    open spec fn lo(&self) -> int { 0 }
    open spec fn hi(&self, len: int) -> int { self.end as int }
}
impl ByteRange for core::ops::RangeFrom<usize> {
    open spec fn lo(&self) -> int { self.start as int }
    open spec fn hi(&self, len: int) -> int { len }
}
#[verifier::external_body]
pub struct Bytes { inner: Vec<u8> }
impl View for Bytes { type V = Seq<u8>; uninterp spec fn view(&self) -> Seq<u8>; }
impl Bytes {
    // (a Rust allocation never exceeds isize::MAX bytes: assumed of the underlying buffer)
    #[verifier::external_body]
    pub fn len(&self) -> (r: usize) ensures r == self@.len(), self@.len() <= isize::MAX { unimplemented!() }
    #[verifier::external_body]
    pub fn is_empty(&self) -> (r: bool) ensures r == (self@.len() == 0) { unimplemented!() }
    // "Requires that begin <= end and end <= self.len(), otherwise slicing will panic."
    #[verifier::external_body]
    pub fn slice<R: ByteRange>(&self, range: R) -> (out: Bytes)
        requires 0 <= range.lo() <= range.hi(self@.len() as int) <= self@.len()   // [nopanic.bytes.slice]
        ensures out@ == self@.subrange(range.lo(), range.hi(self@.len() as int))
    { unimplemented!() }
    // "Splits the bytes into two at the given index. Afterwards self contains elements [at, len), and
    //  the returned Bytes contains elements [0, at).  Panics if at > len."
    #[verifier::external_body]
    pub fn split_to(&mut self, at: usize) -> (r: Bytes)
        requires at <= old(self)@.len(),   // [nopanic.bytes.split_to]
        ensures r@ == old(self)@.subrange(0, at as int), final(self)@ == old(self)@.subrange(at as int, old(self)@.len() as int),
    { unimplemented!() }
    // "Afterwards self contains elements [0, at), and the returned Bytes contains elements [at, len).
    //  Panics if at > len."
    #[verifier::external_body]
    pub fn split_off(&mut self, at: usize) -> (r: Bytes)
        requires at <= old(self)@.len(),   // [nopanic.bytes.split_off]
        ensures final(self)@ == old(self)@.subrange(0, at as int), r@ == old(self)@.subrange(at as int, old(self)@.len() as int),
    { unimplemented!() }
}
impl Clone for Bytes {
    #[verifier::external_body]
    fn clone(&self) -> (r: Bytes) ensures r@ == self@ { unimplemented!() }
}

// ---- enumflags2::BitFlags<T> over a u8 (opaque) --------------------------------------------------
#[verifier::external_body]
#[verifier::reject_recursive_types(T)]
pub struct BitFlags<T> { _p: core::marker::PhantomData<T> }
impl<T> BitFlags<T> {
    pub uninterp spec fn bits_spec(&self) -> u8;
    pub uninterp spec fn has(&self, f: T) -> bool;
    // from_bits_truncate: "Create a BitFlags from an underlying bitwise value. If any unknown bits are set, ignore them."
    pub uninterp spec fn truncated(bits: u8) -> BitFlags<T>;
    #[verifier::external_body]
    pub fn from_bits_truncate(bits: u8) -> (r: Self) ensures r == Self::truncated(bits) { unimplemented!() }
    #[verifier::external_body]
    pub fn bits(&self) -> (r: u8) ensures r == self.bits_spec() { unimplemented!() }
    #[verifier::external_body]
    pub fn contains(&self, f: T) -> (r: bool) ensures r == self.has(f) { unimplemented!() }
}
impl<T> Clone for BitFlags<T> { #[verifier::external_body] fn clone(&self) -> (r: Self) ensures r == *self { unimplemented!() } }
impl<T> Copy for BitFlags<T> {}

// ---- speedy::{Writer, Writable} restricted to what the framing writers use -----------------------
//   * Writer<C> (trait, generic context C)  ->  concrete FWriter; view = the bytes written so far, plus
//     the context byte order the caller chose for the whole message
//   * Writable<C>                           ->  FWritable with a spec `wire(ctx)` = the bytes a value
//     contributes when written in context byte order ctx
// After a failed write nothing is known about the stream (speedy: the error is propagated).
#[verifier::external_body]
pub struct FWriter { inner: Vec<u8> }
pub trait FWritable {
    spec fn wire(&self, ctx: Endianness) -> Seq<u8>;
    fn write_to(&self, writer: &mut FWriter) -> (r: Result<(), SpeedyError>)
        ensures
            final(writer).ctx() == old(writer).ctx(),
            r is Ok ==> final(writer).out() == old(writer).out() + self.wire(old(writer).ctx());   // [frame.wire.bytes]
}
impl FWriter {
    pub uninterp spec fn out(&self) -> Seq<u8>;
    pub uninterp spec fn ctx(&self) -> Endianness;
    // Writer::write_value(&v) == v.write_to(self)
    #[verifier::external_body]
    pub fn write_value<T: FWritable>(&mut self, v: &T) -> (r: Result<(), SpeedyError>)
        ensures final(self).ctx() == old(self).ctx(), r is Ok ==> final(self).out() == old(self).out() + v.wire(old(self).ctx())
    { unimplemented!() }
    #[verifier::external_body]
    pub fn write_u8(&mut self, v: u8) -> (r: Result<(), SpeedyError>)
        ensures final(self).ctx() == old(self).ctx(), r is Ok ==> final(self).out() == old(self).out().push(v)
    { unimplemented!() }
    #[verifier::external_body]
    pub fn write_bytes(&mut self, b: &[u8]) -> (r: Result<(), SpeedyError>)
        ensures final(self).ctx() == old(self).ctx(), r is Ok ==> final(self).out() == old(self).out() + b@
    { unimplemented!() }
    // Writer::endianness(): the context byte order
    #[verifier::external_body]
    pub fn endianness(&self) -> (r: Endianness) ensures r == self.ctx() { unimplemented!() }
}
// a reference writes what its referent writes (speedy: `impl Writable<C> for &T`)
impl<'a, T: FWritable> FWritable for &'a T {
    open spec fn wire(&self, ctx: Endianness) -> Seq<u8> { (**self).wire(ctx) }
    #[verifier::external_body]
    fn write_to(&self, writer: &mut FWriter) -> (r: Result<(), SpeedyError>) { unimplemented!() }
}
// primitives (speedy's own impl — assumed)
impl FWritable for u8 {
    open spec fn wire(&self, ctx: Endianness) -> Seq<u8> { seq![*self] }
    #[verifier::external_body]
    fn write_to(&self, writer: &mut FWriter) -> (r: Result<(), SpeedyError>) { unimplemented!() }
}

// ---- speedy::{Reader, Readable} restricted to what `impl Readable for SubmessageHeader` uses -----
//   * Reader<'a, C>  ->  concrete FReader; view = the bytes still to be read.  A read fails only at the
//     end of the input; after a failed read nothing is known about the stream.
#[verifier::external_body]
pub struct FReader { inner: Vec<u8> }
pub trait FStreamReadable: Sized {
    spec fn decodable(b: Seq<u8>) -> bool;      // the head of b holds a complete encoding of a Self
    spec fn consumed(b: Seq<u8>) -> int;        // number of bytes it occupies
    spec fn decoded(b: Seq<u8>) -> Self;        // the value it encodes
    fn read_from(reader: &mut FReader) -> (r: Result<Self, SpeedyError>)
        ensures
            match r {
                Ok(v) => Self::decodable(old(reader).rem()) && v == Self::decoded(old(reader).rem())   // [frame.wire.read]
                    && 0 <= Self::consumed(old(reader).rem()) <= old(reader).rem().len()   // [frame.wire.read]
                    && final(reader).rem() == old(reader).rem().skip(Self::consumed(old(reader).rem())),   // [frame.wire.read]
                Err(_) => !Self::decodable(old(reader).rem()),   // [frame.wire.read]
            };
}
impl FReader {
    pub uninterp spec fn rem(&self) -> Seq<u8>;
    // Reader::read_value::<T>() == T::read_from(self)
    #[verifier::external_body]
    pub fn read_value<T: FStreamReadable>(&mut self) -> (r: Result<T, SpeedyError>)
        ensures
            match r {
                Ok(v) => T::decodable(old(self).rem()) && v == T::decoded(old(self).rem())
                    && 0 <= T::consumed(old(self).rem()) <= old(self).rem().len()
                    && final(self).rem() == old(self).rem().skip(T::consumed(old(self).rem())),
                Err(_) => !T::decodable(old(self).rem()),
            }
    { unimplemented!() }
    #[verifier::external_body]
    pub fn read_u8(&mut self) -> (r: Result<u8, SpeedyError>)
        ensures
            match r {
                Ok(v) => old(self).rem().len() >= 1 && v == old(self).rem()[0] && final(self).rem() == old(self).rem().skip(1),
                Err(_) => old(self).rem().len() == 0,
            }
    { unimplemented!() }
}
impl FStreamReadable for u8 {
    open spec fn decodable(b: Seq<u8>) -> bool { b.len() >= 1 }
    open spec fn consumed(b: Seq<u8>) -> int { 1 }
    open spec fn decoded(b: Seq<u8>) -> u8 { b[0] }
    #[verifier::external_body]
    fn read_from(reader: &mut FReader) -> (r: Result<Self, SpeedyError>) { unimplemented!() }
}
// u16::from_le_bytes / from_be_bytes: std's signature is `[u8; size_of::<u16>()]` (an anonymous const that
// assume_specification cannot name) -> wrappers with the documented contract, put in by R8 (@@subst)
#[verifier::external_body]
pub fn vx_u16_from_le_bytes(a: [u8; 2]) -> (r: u16)
    ensures r as int == a[0] as int + 256 * (a[1] as int)
{ u16::from_le_bytes(a) }
#[verifier::external_body]
pub fn vx_u16_from_be_bytes(a: [u8; 2]) -> (r: u16)
    ensures r as int == 256 * (a[0] as int) + a[1] as int
{ u16::from_be_bytes(a) }

// ---- enumflags2 / submessage_flag.rs: building flag sets -----------------------------------------
pub trait FlagBit: Sized { spec fn bit(self) -> u8; }
// enumflags2: a flag is contained iff its bit is set; from_bits_truncate(x.bits()) == x
#[verifier::external_body]
pub proof fn axiom_bitflags<T: FlagBit>(f: BitFlags<T>)
    ensures
        BitFlags::<T>::truncated(f.bits_spec()) == f,
        forall|g: T| #[trigger] f.has(g) <==> f.bits_spec() & g.bit() != 0,
{}
impl<T: FlagBit> BitFlags<T> {
    // FromEndianness::from_endianness (macro `submessageflag_impls!`, not extractable): `$t::Endianness.into()` for
    // LittleEndian, else empty(); every *_Flags::Endianness is bit 0 (Kani c14_header: "the flag produced for a byte
    // order reads back as that byte order")
    #[verifier::external_body]
    pub fn from_endianness(end: Endianness) -> (r: Self)
        ensures r.bits_spec() == (if end == Endianness::LittleEndian { 1u8 } else { 0u8 })
    { unimplemented!() }
    // "Inserts the flags into the BitFlag"
    #[verifier::external_body]
    pub fn insert(&mut self, f: T) ensures final(self).bits_spec() == old(self).bits_spec() | f.bit() { unimplemented!() }
}
impl<T: FlagBit> vstd::std_specs::ops::BitOrAssignSpecImpl<T> for BitFlags<T> {
    open spec fn obeys_bitor_assign_spec() -> bool { false }
    open spec fn bitor_assign_req(&self, rhs: T) -> bool { true }
    uninterp spec fn bitor_assign_spec(&self, rhs: T) -> &BitFlags<T>;
}
impl<T: FlagBit> core::ops::BitOrAssign<T> for BitFlags<T> {
    #[verifier::external_body]
    fn bitor_assign(&mut self, rhs: T) ensures final(self).bits_spec() == old(self).bits_spec() | rhs.bit() { unimplemented!() }
}
