// From<usize> / From<i32> for SequenceNumber (extracted).  With From<i64>, From<i32> and From<usize>
// all present, an unsuffixed literal in `SequenceNumber::from(1)` falls back to i32 exactly as in the crate.
impl FromSpecImpl<usize> for SequenceNumber {
    open spec fn obeys_from_spec() -> bool { true }
    open spec fn from_spec(v: usize) -> Self { SequenceNumber(v as i64) }
}
impl From<usize> for SequenceNumber {
@@extract fn src/structure/sequence_number.rs "From<usize> for SequenceNumber::from"
@@nopub
@@ret r
@@ensures sn.from_usize
    r.0 == value as i64
@@end
}

impl FromSpecImpl<i32> for SequenceNumber {
    open spec fn obeys_from_spec() -> bool { true }
    open spec fn from_spec(v: i32) -> Self { SequenceNumber(v as i64) }
}
impl From<i32> for SequenceNumber {
@@extract fn src/structure/sequence_number.rs "From<i32> for SequenceNumber::from"
@@nopub
@@ret r
@@ensures sn.from_i32
    r.0 == value as i64
@@end
}
