// ---------------------------------------------------------------------------------------------
// security/security_plugins.rs for the C17 units: SecurityPlugins pruned (R9) to the three
// "not protected" sets, the endpoint-handle cache and the crypto plugin (opaque).  What the
// crypto plugin accepts is not verified (C16): its successful outputs are named by the
// uninterpreted predicates `crypto_*` below, which nothing else can establish.
// ---------------------------------------------------------------------------------------------
pub type CryptoHandle = u32;
pub type ParticipantCryptoHandle = CryptoHandle;
pub type EndpointCryptoHandle = CryptoHandle;
pub type DatawriterCryptoHandle = EndpointCryptoHandle;
pub type DatareaderCryptoHandle = EndpointCryptoHandle;
pub type IdentityHandle = u32;
pub type PermissionsHandle = u32;
#[verifier::external_body] pub struct SecurityError { msg: String }
pub type SecurityResult<T> = std::result::Result<T, SecurityError>;
#[verifier::external_body] pub struct Property { p: u8 }                       // security::types::Property
#[verifier::external_body] pub struct CryptoTransformKeyId { p: u8 }
#[verifier::external_body] pub struct TopicSecurityAttributes { p: u8 }
#[verifier::external_body] pub struct PluginParticipantSecurityAttributesMask { p: u8 }
pub struct QosProperty { pub value: Vec<Property> }                            // qos::policy::Property (binary_value dropped)
#[verifier::external_body] pub fn volatile_reader_recognition_property() -> Property { unimplemented!() }
#[verifier::external_body] pub fn volatile_writer_recognition_property() -> Property { unimplemented!() }

@@extract struct src/security/access_control/types.rs EndpointSecurityAttributes
@@extract struct src/security/access_control/types.rs ParticipantSecurityAttributes
@@extract enum src/security/cryptographic/types.rs DecodeOutcome
@@extract enum src/security/cryptographic/types.rs DecodedSubmessage

// "out is a successful output of the crypto plugin's decode_serialized_payload"
pub uninterp spec fn crypto_plain_payload(out: Seq<u8>) -> bool;
// "m is a successful output of decode_rtps_message"
pub uninterp spec fn crypto_plain_message(m: Message) -> bool;
// "w / r was returned by a successful decode_submessage together with these receiver handles"
pub uninterp spec fn crypto_plain_writer_submessage(w: WriterSubmessage, handles: Seq<EndpointCryptoHandle>) -> bool;
pub uninterp spec fn crypto_plain_reader_submessage(r: ReaderSubmessage, handles: Seq<EndpointCryptoHandle>) -> bool;

// Box<dyn Cryptographic>
#[verifier::external_body] pub struct CryptoPlugin { p: u8 }
impl CryptoPlugin {
    #[verifier::external_body]
    pub fn decode_serialized_payload(&self, encoded_buffer: Vec<u8>, inline_qos: ParameterList,
        receiving_datareader_crypto_handle: DatareaderCryptoHandle, sending_datawriter_crypto_handle: DatawriterCryptoHandle) -> (r: SecurityResult<Vec<u8>>)
        ensures r matches Ok(v) ==> crypto_plain_payload(v@)
    { unimplemented!() }
    #[verifier::external_body]
    pub fn register_local_participant(&mut self, participant_identity: IdentityHandle, participant_permissions: PermissionsHandle,
        participant_properties: &Vec<Property>, participant_security_attributes: ParticipantSecurityAttributes) -> SecurityResult<ParticipantCryptoHandle>
    { unimplemented!() }
    #[verifier::external_body]
    pub fn register_local_datawriter(&mut self, local_participant_crypto_handle: ParticipantCryptoHandle,
        datawriter_properties: &Vec<Property>, datawriter_security_attributes: EndpointSecurityAttributes) -> SecurityResult<DatawriterCryptoHandle>
    { unimplemented!() }
    #[verifier::external_body]
    pub fn register_local_datareader(&mut self, local_participant_crypto_handle: ParticipantCryptoHandle,
        datareader_properties: &Vec<Property>, datareader_security_attributes: EndpointSecurityAttributes) -> SecurityResult<DatareaderCryptoHandle>
    { unimplemented!() }
}

@@extract struct src/security/security_plugins.rs SecurityPlugins keep=crypto,local_participant_crypto_handle,local_endpoint_crypto_handle_cache,rtps_not_protected,submessage_not_protected,payload_not_protected opaque=crypto:CryptoPlugin

impl SecurityPlugins {
    // ---- unverified helpers (handle caches) ----
    #[verifier::external_body] pub fn get_identity_handle(&self, guidp: &GuidPrefix) -> SecurityResult<IdentityHandle> { unimplemented!() }
    #[verifier::external_body] pub fn get_permissions_handle(&self, guidp: &GuidPrefix) -> SecurityResult<PermissionsHandle> { unimplemented!() }
    #[verifier::external_body] pub fn get_local_participant_crypto_handle(&self) -> SecurityResult<ParticipantCryptoHandle> { unimplemented!() }
    #[verifier::external_body] pub fn get_local_endpoint_crypto_handle(&self, guid: &GUID) -> SecurityResult<EndpointCryptoHandle> { unimplemented!() }
    #[verifier::external_body] pub fn get_remote_endpoint_crypto_handle(&self, pair: (&GUID, &GUID)) -> SecurityResult<EndpointCryptoHandle> { unimplemented!() }

    // confirm_local_endpoint_guid: unverified (handle cache lookup); named by a spec function
    pub uninterp spec fn confirms(&self, handles: Seq<EndpointCryptoHandle>, guid: GUID) -> bool;
    #[verifier::external_body]
    pub fn confirm_local_endpoint_guid(&self, local_endpoint_crypto_handles: &[EndpointCryptoHandle], guid: &GUID) -> (b: bool)
        ensures b == self.confirms(local_endpoint_crypto_handles@, *guid)
    { unimplemented!() }

    // decode_rtps_message / decode_submessage: crypto plugin behind a handle lookup — unverified (C16)
    #[verifier::external_body]
    pub fn decode_rtps_message(&self, encoded_message: Message, source_guid_prefix: &GuidPrefix) -> (r: SecurityResult<DecodeOutcome<Message>>)
        ensures r matches Ok(DecodeOutcome::Success(m)) ==> crypto_plain_message(m)
    { unimplemented!() }
    #[verifier::external_body]
    pub fn decode_submessage(&self, encoded_rtps_submessage: (SecurePrefix, Submessage, SecurePostfix), source_guid_prefix: &GuidPrefix) -> (r: SecurityResult<DecodeOutcome<DecodedSubmessage>>)
        ensures
            r matches Ok(DecodeOutcome::Success(DecodedSubmessage::Writer(w, h))) ==> crypto_plain_writer_submessage(w, h@),
            r matches Ok(DecodeOutcome::Success(DecodedSubmessage::Reader(s, h))) ==> crypto_plain_reader_submessage(s, h@),
    { unimplemented!() }
}

// SecurityPluginsHandle = Arc<Mutex<SecurityPlugins>>; get_plugins() locks it.  Model: the state
// read through a handle value is a snapshot `sp()` (the sets only grow, under the mutex).
#[verifier::external_body] pub struct SecurityPluginsHandle { p: u8 }
impl SecurityPluginsHandle {
    pub uninterp spec fn sp(&self) -> SecurityPlugins;
    #[verifier::external_body] pub fn get_plugins(&self) -> (g: PluginsGuard) ensures g@ == self.sp() { unimplemented!() }
}
impl Clone for SecurityPluginsHandle { #[verifier::external_body] fn clone(&self) -> (r: SecurityPluginsHandle) ensures r == *self { unimplemented!() } }
// MutexGuard<SecurityPlugins>
#[verifier::external_body] pub struct PluginsGuard { p: u8 }
impl View for PluginsGuard { type V = SecurityPlugins; uninterp spec fn view(&self) -> SecurityPlugins; }
impl core::ops::Deref for PluginsGuard {
    type Target = SecurityPlugins;
    #[verifier::external_body] fn deref(&self) -> (r: &SecurityPlugins) ensures *r == self@ { unimplemented!() }
}
