// ---------------------------------------------------------------------------------------------
// Shims for unit remote_sites (C18: the call sites in discovery/secure_discovery.rs that ask the
// access-control plugin whether a REMOTE reader / writer / topic announced over SEDP is admitted).
// Placeholder types for what is only moved; the SecurityPlugins methods reached through
// `self.security_plugins.get_plugins()` are STUBS whose `requires` is the property: the plugin is asked
// ONLY when governance protects that access for the topic of THIS sample, and about THIS sample (its
// participant's prefix, this domain id, the sample itself).  What the plugin answers is proved in unit
// permissions (perm.remote.*); here it is named by uninterpreted functions of (handle, question).
// ---------------------------------------------------------------------------------------------
@@include shims/guid.rs

#[verifier::external_body] pub struct SecurityError { msg: String }
pub type SecurityResult<T> = std::result::Result<T, SecurityError>;
// what the macro create_security_error_and_log!(..) (security/types.rs: log::error! + SecurityError{msg: format!(..)})
// evaluates to: some SecurityError (the sites under contract only log it and drop it)
#[verifier::external_body] pub fn verif_security_error() -> SecurityError { unimplemented!() }

// std::collections::HashSet restricted to insert (assumed contract, model = Set<T>; as shims/gating_types.rs)
#[verifier::external_body]
#[verifier::reject_recursive_types(T)]
pub struct HashSet<T> { s: std::collections::HashSet<T> }
impl<T> View for HashSet<T> { type V = Set<T>; uninterp spec fn view(&self) -> Set<T>; }
impl<T> HashSet<T> {
    #[verifier::external_body] pub fn insert(&mut self, k: T) -> (b: bool) ensures final(self)@ == old(self)@.insert(k), b == !old(self)@.contains(k) { unimplemented!() }
}

// ---- "this sample": names for what the property talks about.  Every function under contract starts with
// `requires <its inputs> == rs_*()` (label site.remote.ambient): the rs_* are uninterpreted and the inputs
// universally quantified, so this only NAMES them - the stubs below can then say "asked about THIS sample".
pub uninterp spec fn rs_domain_id() -> u16;                                                       // SecureDiscovery::domain_id
pub uninterp spec fn rs_sub_secure() -> Sample<SubscriptionBuiltinTopicDataSecure, GUID>;         // the DCPSSubscriptionsSecure sample
pub uninterp spec fn rs_pub_secure() -> Sample<PublicationBuiltinTopicDataSecure, GUID>;          // the DCPSPublicationsSecure sample
pub uninterp spec fn rs_sub_plain() -> Sample<DiscoveredReaderData, GUID>;                        // the DCPSSubscription sample
pub uninterp spec fn rs_pub_plain() -> Sample<DiscoveredWriterData, GUID>;                        // the DCPSPublication sample
pub uninterp spec fn rs_topic() -> Sample<(DiscoveredTopicData, GUID), GUID>;                     // the DCPSTopic sample

// ---- what the plugins behind a handle answer (functions of the handle and of the question)
// governance attributes of a topic, as seen through the permissions handle of participant `guidp` (unit sec_attrs / permissions)
pub uninterp spec fn topic_attrs(h: SecurityPluginsHandle, guidp: GuidPrefix, topic: Seq<char>) -> SecurityResult<TopicSecurityAttributes>;
// check_remote_datareader -> (allowed, relay_only); check_remote_datawriter / check_remote_topic -> allowed (perm.remote.*)
pub uninterp spec fn says_remote_reader_secure(h: SecurityPluginsHandle, guidp: GuidPrefix, domain_id: u16, d: SubscriptionBuiltinTopicDataSecure) -> SecurityResult<(bool, bool)>;
pub uninterp spec fn says_remote_reader_plain(h: SecurityPluginsHandle, guidp: GuidPrefix, domain_id: u16, d: DiscoveredReaderData) -> SecurityResult<(bool, bool)>;
pub uninterp spec fn says_remote_writer_secure(h: SecurityPluginsHandle, guidp: GuidPrefix, domain_id: u16, d: PublicationBuiltinTopicDataSecure) -> SecurityResult<bool>;
pub uninterp spec fn says_remote_writer_plain(h: SecurityPluginsHandle, guidp: GuidPrefix, domain_id: u16, d: DiscoveredWriterData) -> SecurityResult<bool>;
pub uninterp spec fn says_remote_topic(h: SecurityPluginsHandle, guidp: GuidPrefix, domain_id: u16, t: TopicBuiltinTopicData) -> SecurityResult<bool>;

// the participant a sample speaks for / the topic it is about
pub open spec fn reader_prefix(d: DiscoveredReaderData) -> GuidPrefix { d.reader_proxy.remote_reader_guid.prefix }
pub open spec fn reader_topic(d: DiscoveredReaderData) -> Seq<char> { d.subscription_topic_data.topic_name@ }
pub open spec fn writer_prefix(d: DiscoveredWriterData) -> GuidPrefix { d.writer_proxy.remote_writer_guid.prefix }
pub open spec fn writer_topic(d: DiscoveredWriterData) -> Seq<char> { d.publication_topic_data.topic_name@ }
// governance says: reading / writing this topic is access-controlled (as seen through participant guidp's handle)
pub open spec fn read_protected(h: SecurityPluginsHandle, guidp: GuidPrefix, topic: Seq<char>) -> bool {
    topic_attrs(h, guidp, topic) matches Ok(a) && a.is_read_protected
}
pub open spec fn write_protected(h: SecurityPluginsHandle, guidp: GuidPrefix, topic: Seq<char>) -> bool {
    topic_attrs(h, guidp, topic) matches Ok(a) && a.is_write_protected
}

// SecurityPluginsHandle = Arc<Mutex<SecurityPlugins>>; get_plugins() locks it (MutexGuard, Deref/DerefMut)
#[verifier::external_body] pub struct SecurityPluginsHandle { p: u8 }
#[verifier::external_body] pub struct PluginsGuard { p: u8 }
impl SecurityPluginsHandle {
    #[verifier::external_body] pub fn get_plugins(&self) -> (g: PluginsGuard) ensures g.of() == *self { unimplemented!() }
}
impl PluginsGuard {
    pub uninterp spec fn of(&self) -> SecurityPluginsHandle;

    // security_plugins.rs: permissions-handle lookup for participant_guidp + AccessControl::get_topic_sec_attributes
    #[verifier::external_body]
    pub fn get_topic_sec_attributes(&self, participant_guidp: GuidPrefix, topic_name: &str) -> (r: SecurityResult<TopicSecurityAttributes>)
        ensures r == topic_attrs(self.of(), participant_guidp, topic_name@)
    { unimplemented!() }

    // ---- remote READER.  requires = the property: asked about THIS sample, and ONLY IF governance protects READING its topic
    #[verifier::external_body]
    pub fn check_remote_datareader_from_secure(&self, participant_guidp: GuidPrefix, domain_id: u16, sub_data: &SubscriptionBuiltinTopicDataSecure) -> (r: SecurityResult<(bool, bool)>)
        requires
            rs_sub_secure() matches Sample::Value(d) && *sub_data == d && participant_guidp == reader_prefix(d.discovered_reader_data) && domain_id == rs_domain_id(),   // [site.remote.reader.ask]
            read_protected(self.of(), reader_prefix(sub_data.discovered_reader_data), reader_topic(sub_data.discovered_reader_data)),   // [site.remote.reader.only_if_protected]
        ensures
            r == says_remote_reader_secure(self.of(), participant_guidp, domain_id, *sub_data),
            r matches Ok(v) ==> (v.1 ==> v.0),      // proved in unit permissions (perm.remote.reader): the answer is (read || relay, !read && relay)
    { unimplemented!() }
    #[verifier::external_body]
    pub fn check_remote_datareader_from_nonsecure(&self, participant_guidp: GuidPrefix, domain_id: u16, reader_data: &DiscoveredReaderData) -> (r: SecurityResult<(bool, bool)>)
        requires
            rs_sub_plain() matches Sample::Value(d) && *reader_data == d && participant_guidp == reader_prefix(d) && domain_id == rs_domain_id(),   // [site.remote.reader.ask]
            read_protected(self.of(), reader_prefix(*reader_data), reader_topic(*reader_data)),   // [site.remote.reader.only_if_protected]
        ensures
            r == says_remote_reader_plain(self.of(), participant_guidp, domain_id, *reader_data),
            r matches Ok(v) ==> (v.1 ==> v.0),
    { unimplemented!() }

    // ---- remote WRITER: asked about THIS sample, and ONLY IF governance protects WRITING its topic
    #[verifier::external_body]
    pub fn check_remote_datawriter_from_secure(&self, participant_guidp: GuidPrefix, domain_id: u16, pub_data: &PublicationBuiltinTopicDataSecure) -> (r: SecurityResult<bool>)
        requires
            rs_pub_secure() matches Sample::Value(d) && *pub_data == d && participant_guidp == writer_prefix(d.discovered_writer_data) && domain_id == rs_domain_id(),   // [site.remote.writer.ask]
            write_protected(self.of(), writer_prefix(pub_data.discovered_writer_data), writer_topic(pub_data.discovered_writer_data)),   // [site.remote.writer.only_if_protected]
        ensures r == says_remote_writer_secure(self.of(), participant_guidp, domain_id, *pub_data)
    { unimplemented!() }
    #[verifier::external_body]
    pub fn check_remote_datawriter_from_nonsecure(&self, participant_guidp: GuidPrefix, domain_id: u16, writer_data: &DiscoveredWriterData) -> (r: SecurityResult<bool>)
        requires
            rs_pub_plain() matches Sample::Value(d) && *writer_data == d && participant_guidp == writer_prefix(d) && domain_id == rs_domain_id(),   // [site.remote.writer.ask]
            write_protected(self.of(), writer_prefix(*writer_data), writer_topic(*writer_data)),   // [site.remote.writer.only_if_protected]
        ensures r == says_remote_writer_plain(self.of(), participant_guidp, domain_id, *writer_data)
    { unimplemented!() }

    // ---- remote TOPIC: asked about THIS sample (the participant that announced it, this domain id, the topic data)
    #[verifier::external_body]
    pub fn check_remote_topic(&self, participant_guidp: GuidPrefix, domain_id: u16, topic_data: &TopicBuiltinTopicData) -> (r: SecurityResult<bool>)
        requires
            rs_topic() matches Sample::Value(d) && *topic_data == d.0.topic_data && participant_guidp == d.1.prefix && domain_id == rs_domain_id(),   // [site.remote.topic.ask]
        ensures r == says_remote_topic(self.of(), participant_guidp, domain_id, *topic_data)
    { unimplemented!() }
}

// ---- DiscoveryDB behind Arc<RwLock<..>>: discovery_db_read() takes the read lock; the returned reference stands
// for the RwLockReadGuard (Deref).  ASSUMPTION (listed): what is seen under the lock is the same at every
// acquisition within one call (db_state of the handle).  A Value sample makes exactly one acquisition, so this
// matters for Dispose samples only (known reader / writer, then authentication status).
#[verifier::external_body] pub struct DbHandle { opaque: u8 }
#[verifier::external_body] pub struct DiscoveryDB { opaque: u8 }
pub uninterp spec fn db_state(h: DbHandle) -> DiscoveryDB;
#[verifier::external_body]
pub fn discovery_db_read<'a>(discovery_db: &'a DbHandle) -> (g: &'a DiscoveryDB) ensures *g == db_state(*discovery_db) { unimplemented!() }
impl DiscoveryDB {
    pub uninterp spec fn auth_of(&self, guidp: GuidPrefix) -> Option<AuthenticationStatus>;
    pub uninterp spec fn reader_of(&self, guid: GUID) -> Option<DiscoveredReaderData>;
    pub uninterp spec fn writer_of(&self, guid: GUID) -> Option<DiscoveredWriterData>;
    #[verifier::external_body]
    pub fn get_authentication_status(&self, guidp: GuidPrefix) -> (r: Option<AuthenticationStatus>) ensures r == self.auth_of(guidp) { unimplemented!() }
    #[verifier::external_body]
    pub fn get_topic_reader(&self, guid: &GUID) -> (r: Option<&DiscoveredReaderData>)
        ensures (r matches Some(d) ==> self.reader_of(*guid) == Some(*d)), r is None ==> self.reader_of(*guid) is None { unimplemented!() }
    #[verifier::external_body]
    pub fn get_topic_writer(&self, guid: &GUID) -> (r: Option<&DiscoveredWriterData>)
        ensures (r matches Some(d) ==> self.writer_of(*guid) == Some(*d)), r is None ==> self.writer_of(*guid) is None { unimplemented!() }
}
