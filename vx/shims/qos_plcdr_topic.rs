// ---------------------------------------------------------------------------------------------
// SHIM (assumed, trusted) of unit qos_plcdr, part 2 (DiscoveredTopicData): the types and calls around
// the PL_CDR encoder / decoder of the topic discovery data that are not under contract.
// ---------------------------------------------------------------------------------------------
// structure/guid.rs GUID: only copied and (de)serialised here -> opaque placeholder (R9)
#[verifier::external_body]
#[derive(Clone, Copy)]
pub struct GUID { g: [u8; 16] }
// chrono::DateTime<Utc> (DiscoveredTopicData.updated_time, "never serialized") -> opaque placeholder (R9);
// Utc::now() -> utc_now(): some time stamp
#[verifier::external_body]
pub struct DateTimeUtc { t: i64 }
#[verifier::external_body]
pub fn utc_now() -> DateTimeUtc { unimplemented!() }
// bytes::Bytes: view Seq<u8>; Bytes::from(Vec<u8>) keeps the bytes
#[verifier::external_body]
pub struct Bytes { b: Vec<u8> }
impl View for Bytes { type V = Seq<u8>; uninterp spec fn view(&self) -> Seq<u8>; }
impl FromSpecImpl<Vec<u8>> for Bytes {
    open spec fn obeys_from_spec() -> bool { true }
    open spec fn from_spec(v: Vec<u8>) -> Self { bytes_of(v@) }
}
pub uninterp spec fn bytes_of(s: Seq<u8>) -> Bytes;
pub broadcast axiom fn axiom_bytes_of(s: Seq<u8>) ensures #[trigger] bytes_of(s)@ == s;
impl From<Vec<u8>> for Bytes {
    #[verifier::external_body]
    fn from(v: Vec<u8>) -> (r: Bytes) { unimplemented!() }
}
// RepresentationIdentifier and its mapping to a speedy byte order (pl_cdr_rep_id_to_speedy / _d: a match on
// the four CDR / PL_CDR identifiers, anything else is an error): uninterpreted
#[verifier::external_body]
#[derive(Clone, Copy)]
pub struct RepresentationIdentifier { bytes: [u8; 2] }
pub uninterp spec fn endianness_of(encoding: RepresentationIdentifier) -> Option<Endianness>;
#[verifier::external_body]
pub fn pl_cdr_rep_id_to_speedy(encoding: RepresentationIdentifier) -> (r: Result<Endianness, PlCdrSerializeError>)
    ensures match endianness_of(encoding) { Some(e) => r == Ok::<Endianness, PlCdrSerializeError>(e), None => r is Err }
{ unimplemented!() }
#[verifier::external_body]
pub fn pl_cdr_rep_id_to_speedy_d(encoding: RepresentationIdentifier) -> (r: Result<Endianness, PlCdrDeserializeError>)
    ensures match endianness_of(encoding) { Some(e) => r == Ok::<Endianness, PlCdrDeserializeError>(e), None => r is Err }
{ unimplemented!() }

// the byte image of a whole parameter list (Writable / Readable for ParameterList and Parameter: PID / length
// framing, padding, sentinel): uninterpreted, like the per-type images
pub uninterp spec fn wire_pl(s: Seq<Parameter>, ctx: Endianness) -> Seq<u8>;
pub uninterp spec fn wire_pl_ok(s: Seq<Parameter>, ctx: Endianness) -> bool;
pub uninterp spec fn unwire_pl(bytes: Seq<u8>, ctx: Endianness) -> Option<Seq<Parameter>>;
impl ParameterList {
    // `Self::default()` of #[derive(Default)]: the empty list
    #[verifier::external_body]
    pub fn new() -> (r: Self) ensures r.parameters@ == Seq::<Parameter>::empty() { unimplemented!() }
    #[verifier::external_body]
    pub fn write_to_vec_with_ctx(&self, ctx: Endianness) -> (r: Result<Vec<u8>, SpeedyError>)
        ensures r is Ok <==> wire_pl_ok(self.parameters@, ctx), r matches Ok(v) ==> v@ == wire_pl(self.parameters@, ctx)
    { unimplemented!() }
    #[verifier::external_body]
    pub fn read_from_buffer_with_ctx(ctx: Endianness, buffer: &[u8]) -> (r: Result<Self, SpeedyError>)
        ensures match unwire_pl(buffer@, ctx) { Some(s) => r matches Ok(p) && p.parameters@ == s, None => r is Err }
    { unimplemented!() }
}
// PlCdrDeserializeError::MissingField(pid, name): some error value
impl PlCdrDeserializeError {
    #[allow(non_snake_case)]
    #[verifier::external_body]
    pub fn MissingField(pid: ParameterId, name: String) -> (r: Self) { unimplemented!() }
}
// `#[derive(Readable, Writable)]` on GUID, hand-written Writable / Readable for StringWithNul
impl Writable for GUID {
    #[verifier::external_body]
    fn write_to_vec_with_ctx(&self, ctx: Endianness) -> (r: Result<Vec<u8>, SpeedyError>) { unimplemented!() }
}
impl Readable for GUID {
    #[verifier::external_body]
    fn read_from_buffer_with_ctx(ctx: Endianness, buffer: &Vec<u8>) -> (r: Result<Self, SpeedyError>) { unimplemented!() }
}
impl Writable for StringWithNul {
    #[verifier::external_body]
    fn write_to_vec_with_ctx(&self, ctx: Endianness) -> (r: Result<Vec<u8>, SpeedyError>) { unimplemented!() }
}
impl Readable for StringWithNul {
    #[verifier::external_body]
    fn read_from_buffer_with_ctx(ctx: Endianness, buffer: &Vec<u8>) -> (r: Result<Self, SpeedyError>) { unimplemented!() }
}
// ASSUMPTIONS (round trip of the two further types; GUID: Kani harness c15_rt_guid; StringWithNul: strings are
// unbounded, exercised by xc/discovery_roundtrip.rs only)
#[verifier::external_body]
pub proof fn axiom_rt_guid()
    ensures forall|x: GUID, ctx: Endianness| #[trigger] wire_ok::<GUID>(x, ctx),
            forall|x: GUID, ctx: Endianness| unwire::<GUID>(#[trigger] wire::<GUID>(x, ctx), ctx) == Some(x),
{}
#[verifier::external_body]
pub proof fn axiom_rt_string_with_nul()
    ensures forall|x: StringWithNul, ctx: Endianness| #[trigger] wire_ok::<StringWithNul>(x, ctx),
            forall|x: StringWithNul, ctx: Endianness| unwire::<StringWithNul>(#[trigger] wire::<StringWithNul>(x, ctx), ctx) == Some(x),
{}
