// ---------------------------------------------------------------------------------------------
// SHIM (assumed, trusted) of unit disc_plcdr: the types and calls around the PL_CDR encoders / decoders of
// DiscoveredReaderData, DiscoveredWriterData and SpdpDiscoveredParticipantData that are not under contract.
// Same wire model as unit qos_plcdr (shims/qos_plcdr_wire.rs): wire::<T> / unwire::<T> / wire_ok::<T> are
// UNINTERPRETED per type; the only laws are the per-type round trips, one external_body axiom each, used
// only by the round-trip lemmas.
// ---------------------------------------------------------------------------------------------

// structure/locator.rs `Locator` (enum over socket addresses) and its fixed-layout wire form
// `locator::repr::Locator { kind, port, address }`: only copied, converted and (de)serialised here ->
// opaque placeholders (R9).  The encoders write `locator::repr::Locator::from(*loc)` with the derived
// Writable of repr::Locator; the decoders read `Locator` (Readable for Locator = repr::Locator::read_from
// + From<repr::Locator>).
#[verifier::external_body]
#[derive(Clone, Copy)]
pub struct Locator { l: [u8; 24] }
pub uninterp spec fn repr_of(l: Locator) -> locator::repr::Locator;
pub mod locator {
    pub mod repr {
        use vstd::prelude::*;
        use vstd::std_specs::convert::FromSpecImpl;
        #[verifier::external_body]
        pub struct Locator { l: [u8; 24] }
        impl FromSpecImpl<crate::Locator> for Locator {
            open spec fn obeys_from_spec() -> bool { true }
            open spec fn from_spec(v: crate::Locator) -> Self { crate::repr_of(v) }
        }
        impl From<crate::Locator> for Locator {
            #[verifier::external_body]
            fn from(v: crate::Locator) -> (r: Locator) { unimplemented!() }
        }
    }
}
impl Writable for locator::repr::Locator {
    #[verifier::external_body]
    fn write_to_vec_with_ctx(&self, ctx: Endianness) -> (r: Result<Vec<u8>, SpeedyError>) { unimplemented!() }
}
impl Readable for Locator {
    #[verifier::external_body]
    fn read_from_buffer_with_ctx(ctx: Endianness, buffer: &Vec<u8>) -> (r: Result<Self, SpeedyError>) { unimplemented!() }
}
// the Locator values Locator_t can represent (all variants except `Other` with a kind that has a dedicated
// variant and UdpV6 with a flow label / scope id): the domain of Kani harness c15_rt_locator
pub uninterp spec fn locator_representable(l: Locator) -> bool;
// ASSUMPTION (Kani harness c15_rt_locator: `Writable for Locator::write_to` IS `repr::Locator::from(*self).write_to(..)`,
// so the bytes the harness compares with the RTPS layout are wire::<repr::Locator>(repr_of(l)); reading them with
// Readable for Locator gives l back)
#[verifier::external_body]
pub proof fn axiom_rt_locator()
    ensures forall|x: locator::repr::Locator, ctx: Endianness| #[trigger] wire_ok::<locator::repr::Locator>(x, ctx),
            forall|l: Locator, ctx: Endianness| locator_representable(l) ==> unwire::<Locator>(#[trigger] wire::<locator::repr::Locator>(repr_of(l), ctx), ctx) == Some(l),
{}

// discovery/content_filter_property.rs ContentFilterProperty (4 strings + a string list, hand-written
// Readable / Writable): opaque placeholder; round trip assumed (unbounded strings: xc/discovery_roundtrip.rs only)
#[verifier::external_body]
pub struct ContentFilterProperty { c: u8 }
impl Writable for ContentFilterProperty {
    #[verifier::external_body]
    fn write_to_vec_with_ctx(&self, ctx: Endianness) -> (r: Result<Vec<u8>, SpeedyError>) { unimplemented!() }
}
impl Readable for ContentFilterProperty {
    #[verifier::external_body]
    fn read_from_buffer_with_ctx(ctx: Endianness, buffer: &Vec<u8>) -> (r: Result<Self, SpeedyError>) { unimplemented!() }
}
#[verifier::external_body]
pub proof fn axiom_rt_content_filter_property()
    ensures forall|x: ContentFilterProperty, ctx: Endianness| #[trigger] wire_ok::<ContentFilterProperty>(x, ctx),
            forall|x: ContentFilterProperty, ctx: Endianness| unwire::<ContentFilterProperty>(#[trigger] wire::<ContentFilterProperty>(x, ctx), ctx) == Some(x),
{}

// speedy's built-in Readable / Writable for bool (PID_EXPECTS_INLINE_QOS) and u32 (PID_TYPE_MAX_SIZE_SERIALIZED)
impl Writable for bool {
    #[verifier::external_body]
    fn write_to_vec_with_ctx(&self, ctx: Endianness) -> (r: Result<Vec<u8>, SpeedyError>) { unimplemented!() }
}
impl Readable for bool {
    #[verifier::external_body]
    fn read_from_buffer_with_ctx(ctx: Endianness, buffer: &Vec<u8>) -> (r: Result<Self, SpeedyError>) { unimplemented!() }
}
impl Writable for u32 {
    #[verifier::external_body]
    fn write_to_vec_with_ctx(&self, ctx: Endianness) -> (r: Result<Vec<u8>, SpeedyError>) { unimplemented!() }
}
impl Readable for u32 {
    #[verifier::external_body]
    fn read_from_buffer_with_ctx(ctx: Endianness, buffer: &Vec<u8>) -> (r: Result<Self, SpeedyError>) { unimplemented!() }
}
// ASSUMPTIONS (no Kani harness yet for the two speedy primitives: xc/discovery_roundtrip.rs only)
#[verifier::external_body]
pub proof fn axiom_rt_bool()
    ensures forall|x: bool, ctx: Endianness| #[trigger] wire_ok::<bool>(x, ctx),
            forall|x: bool, ctx: Endianness| unwire::<bool>(#[trigger] wire::<bool>(x, ctx), ctx) == Some(x),
{}
#[verifier::external_body]
pub proof fn axiom_rt_u32()
    ensures forall|x: u32, ctx: Endianness| #[trigger] wire_ok::<u32>(x, ctx),
            forall|x: u32, ctx: Endianness| unwire::<u32>(#[trigger] wire::<u32>(x, ctx), ctx) == Some(x),
{}

// SPDP fixed-layout fields: messages/protocol_version.rs ProtocolVersion, messages/vendor_id.rs VendorId,
// discovery/builtin_endpoint.rs BuiltinEndpointSet / BuiltinEndpointQos (opaque placeholders, R9), and
// Duration (extracted by unit qos_plcdr; PID_PARTICIPANT_LEASE_DURATION)
#[verifier::external_body]
pub struct ProtocolVersion { v: [u8; 2] }
#[verifier::external_body]
pub struct VendorId { v: [u8; 2] }
#[verifier::external_body]
pub struct BuiltinEndpointSet { v: u32 }
#[verifier::external_body]
pub struct BuiltinEndpointQos { v: u32 }
impl Writable for ProtocolVersion {
    #[verifier::external_body]
    fn write_to_vec_with_ctx(&self, ctx: Endianness) -> (r: Result<Vec<u8>, SpeedyError>) { unimplemented!() }
}
impl Readable for ProtocolVersion {
    #[verifier::external_body]
    fn read_from_buffer_with_ctx(ctx: Endianness, buffer: &Vec<u8>) -> (r: Result<Self, SpeedyError>) { unimplemented!() }
}
impl Writable for VendorId {
    #[verifier::external_body]
    fn write_to_vec_with_ctx(&self, ctx: Endianness) -> (r: Result<Vec<u8>, SpeedyError>) { unimplemented!() }
}
impl Readable for VendorId {
    #[verifier::external_body]
    fn read_from_buffer_with_ctx(ctx: Endianness, buffer: &Vec<u8>) -> (r: Result<Self, SpeedyError>) { unimplemented!() }
}
impl Writable for BuiltinEndpointSet {
    #[verifier::external_body]
    fn write_to_vec_with_ctx(&self, ctx: Endianness) -> (r: Result<Vec<u8>, SpeedyError>) { unimplemented!() }
}
impl Readable for BuiltinEndpointSet {
    #[verifier::external_body]
    fn read_from_buffer_with_ctx(ctx: Endianness, buffer: &Vec<u8>) -> (r: Result<Self, SpeedyError>) { unimplemented!() }
}
impl Writable for BuiltinEndpointQos {
    #[verifier::external_body]
    fn write_to_vec_with_ctx(&self, ctx: Endianness) -> (r: Result<Vec<u8>, SpeedyError>) { unimplemented!() }
}
impl Readable for BuiltinEndpointQos {
    #[verifier::external_body]
    fn read_from_buffer_with_ctx(ctx: Endianness, buffer: &Vec<u8>) -> (r: Result<Self, SpeedyError>) { unimplemented!() }
}
impl Writable for Duration {
    #[verifier::external_body]
    fn write_to_vec_with_ctx(&self, ctx: Endianness) -> (r: Result<Vec<u8>, SpeedyError>) { unimplemented!() }
}
impl Readable for Duration {
    #[verifier::external_body]
    fn read_from_buffer_with_ctx(ctx: Endianness, buffer: &Vec<u8>) -> (r: Result<Self, SpeedyError>) { unimplemented!() }
}
// ASSUMPTIONS (discharged by Kani harnesses c15_rt_protocol_version, c15_rt_vendor_id, c15_rt_builtin_endpoint_set,
// c15_rt_builtin_endpoint_qos, c15_rt_duration; cross-engine)
#[verifier::external_body]
pub proof fn axiom_rt_protocol_version()
    ensures forall|x: ProtocolVersion, ctx: Endianness| #[trigger] wire_ok::<ProtocolVersion>(x, ctx),
            forall|x: ProtocolVersion, ctx: Endianness| unwire::<ProtocolVersion>(#[trigger] wire::<ProtocolVersion>(x, ctx), ctx) == Some(x),
{}
#[verifier::external_body]
pub proof fn axiom_rt_vendor_id()
    ensures forall|x: VendorId, ctx: Endianness| #[trigger] wire_ok::<VendorId>(x, ctx),
            forall|x: VendorId, ctx: Endianness| unwire::<VendorId>(#[trigger] wire::<VendorId>(x, ctx), ctx) == Some(x),
{}
#[verifier::external_body]
pub proof fn axiom_rt_builtin_endpoint_set()
    ensures forall|x: BuiltinEndpointSet, ctx: Endianness| #[trigger] wire_ok::<BuiltinEndpointSet>(x, ctx),
            forall|x: BuiltinEndpointSet, ctx: Endianness| unwire::<BuiltinEndpointSet>(#[trigger] wire::<BuiltinEndpointSet>(x, ctx), ctx) == Some(x),
{}
#[verifier::external_body]
pub proof fn axiom_rt_builtin_endpoint_qos()
    ensures forall|x: BuiltinEndpointQos, ctx: Endianness| #[trigger] wire_ok::<BuiltinEndpointQos>(x, ctx),
            forall|x: BuiltinEndpointQos, ctx: Endianness| unwire::<BuiltinEndpointQos>(#[trigger] wire::<BuiltinEndpointQos>(x, ctx), ctx) == Some(x),
{}
#[verifier::external_body]
pub proof fn axiom_rt_duration()
    ensures forall|x: Duration, ctx: Endianness| #[trigger] wire_ok::<Duration>(x, ctx),
            forall|x: Duration, ctx: Endianness| unwire::<Duration>(#[trigger] wire::<Duration>(x, ctx), ctx) == Some(x),
{}

// `#[derive(PartialEq, Eq)]` on GUID (the placeholder of shims/qos_plcdr_topic.rs): structural equality; used by
// the "Inconsistent GUID" sanity check of the two SEDP encoders (`remote_reader_guid != key`, only logs)
impl PartialEqSpecImpl for GUID {
    open spec fn obeys_eq_spec() -> bool { true }
    open spec fn eq_spec(&self, other: &Self) -> bool { *self == *other }
}
impl PartialEq for GUID {
    #[verifier::external_body]
    fn eq(&self, other: &Self) -> (r: bool) { unimplemented!() }
}
impl Eq for GUID {}

// crate::no_security::EndpointSecurityInfo (default feature set: an empty placeholder type, never serialised)
#[verifier::external_body]
pub struct EndpointSecurityInfo { e: u8 }
// std::time::Instant (DiscoveredWriterData.last_updated, "not serialized") -> opaque placeholder; Instant::now()
#[verifier::external_body]
pub struct Instant { t: u64 }
#[verifier::external_body]
pub fn instant_now() -> Instant { unimplemented!() }

// `impl FromIterator<Result<A, E>> for Result<Vec<A>, E>` (std: "Takes each element in the Iterator: if it is an
// Err, no further elements are taken, and the Err is returned. Should no Err occur, a container with the values
// of each Result is returned"); same text as in shims/permissions_types.rs
pub mod disc_plcdr_std_axioms {
    use vstd::prelude::*;
    use vstd::std_specs::iter::FromIteratorSpec;
    #[verifier::external_body]
    pub broadcast proof fn axiom_collect_result<A, E>(s: Seq<Result<A, E>>, r: Result<Vec<A>, E>)
        ensures #[trigger] <Result<Vec<A>, E> as FromIteratorSpec<Result<A, E>>>::from_iter_ensures(s, r) ==>
            (r matches Ok(v) ==> v@.len() == s.len() && forall|i: int| 0 <= i < s.len() ==> s[i] == Ok::<A, E>(#[trigger] v@[i]))
            && (r is Err ==> exists|i: int| 0 <= i < s.len() && (#[trigger] s[i]) is Err)
    {}
}
broadcast use disc_plcdr_std_axioms::axiom_collect_result;

// Constants / Default impls of the opaque placeholder types (some value of the type; nothing is known about it).  Not
// used by the pinned text: present so that a change that falls back to one of them (`.unwrap_or(GUID::GUID_UNKNOWN)`,
// `.unwrap_or_default()`) is judged by the contracts instead of leaving the extraction undecided.
impl GUID {
    #[verifier::external_body]
    pub const GUID_UNKNOWN: GUID = GUID { g: [0u8; 16] };
}
impl Default for GUID {
    #[verifier::external_body]
    fn default() -> (r: GUID) { unimplemented!() }
}
impl VendorId {
    #[verifier::external_body]
    pub const VENDOR_UNKNOWN: VendorId = VendorId { v: [0u8; 2] };
    #[verifier::external_body]
    pub const THIS_IMPLEMENTATION: VendorId = VendorId { v: [1u8, 18u8] };
}
impl Default for VendorId {
    #[verifier::external_body]
    fn default() -> (r: VendorId) { unimplemented!() }
}
impl ProtocolVersion {
    #[verifier::external_body]
    pub const THIS_IMPLEMENTATION: ProtocolVersion = ProtocolVersion { v: [2u8, 4u8] };
}
impl Default for ProtocolVersion {
    #[verifier::external_body]
    fn default() -> (r: ProtocolVersion) { unimplemented!() }
}
// further constructors not used by the pinned text of the functions under contract (same purpose): the error variants
// NotSupported(..) = some error value; QosPolicies::qos_none() = `Self::default()` of #[derive(Default)] on a struct of
// Options = every policy None
impl PlCdrSerializeError {
    #[allow(non_snake_case)]
    #[verifier::external_body]
    pub fn NotSupported(what: String) -> (r: Self) { unimplemented!() }
}
impl PlCdrDeserializeError {
    #[allow(non_snake_case)]
    #[verifier::external_body]
    pub fn NotSupported(what: String) -> (r: Self) { unimplemented!() }
}
impl QosPolicies {
    #[verifier::external_body]
    pub fn qos_none() -> (r: Self)
        ensures r == (QosPolicies { durability: None, presentation: None, deadline: None, latency_budget: None, ownership: None, liveliness: None,
            time_based_filter: None, reliability: None, destination_order: None, history: None, resource_limits: None, lifespan: None })
    { unimplemented!() }
}
