// ---------------------------------------------------------------------------------------------
// Unit reader_frag — time.
// structure/time.rs Timestamp and structure/duration.rs Duration (extracted) + R2 template impls of
// their derived PartialEq / PartialOrd (declaration order: seconds, then fraction; same text as
// shims/fragments_time.rs and shims/leases_time.rs).
// ASSUMED (trusted):
//  * `Timestamp::now()` reads the system clock: any value, marked `clock_reading` (uninterpreted);
//    nothing is assumed about how fast or whether the clock advances.  A function can only
//    establish `clock_reading(t)` by obtaining t from `Timestamp::now()` during the call.
//  * `Timestamp - Timestamp`, `Timestamp - Duration`, `Timestamp + Duration`: wrapping 64-bit tick
//    arithmetic in the real code (wrapping_sub / from_ticks); never panic (the `+` can: see add_req).
//    Their values are left uninterpreted (ts_diff / ts_minus / ts_plus): the contracts of this unit
//    only need that they are functions of their arguments.
// ---------------------------------------------------------------------------------------------
@@extract struct src/structure/time.rs Timestamp derive=Clone,Copy

pub open spec fn ts_cmp(a: Timestamp, b: Timestamp) -> Ordering {
    if a.seconds < b.seconds { Ordering::Less } else if a.seconds > b.seconds { Ordering::Greater }
    else if a.fraction < b.fraction { Ordering::Less } else if a.fraction > b.fraction { Ordering::Greater }
    else { Ordering::Equal }
}
impl PartialEqSpecImpl for Timestamp {
    open spec fn obeys_eq_spec() -> bool { true }
    open spec fn eq_spec(&self, other: &Self) -> bool { self.seconds == other.seconds && self.fraction == other.fraction }
}
impl PartialEq for Timestamp { fn eq(&self, other: &Self) -> (r: bool) { self.seconds == other.seconds && self.fraction == other.fraction } }
impl Eq for Timestamp {}
impl PartialOrdSpecImpl for Timestamp {
    open spec fn obeys_partial_cmp_spec() -> bool { true }
    open spec fn partial_cmp_spec(&self, other: &Self) -> Option<Ordering> { Some(ts_cmp(*self, *other)) }
}
impl PartialOrd for Timestamp {
    fn partial_cmp(&self, other: &Self) -> (r: Option<Ordering>) {
        if self.seconds < other.seconds { Some(Ordering::Less) } else if self.seconds > other.seconds { Some(Ordering::Greater) }
        else if self.fraction < other.fraction { Some(Ordering::Less) } else if self.fraction > other.fraction { Some(Ordering::Greater) }
        else { Some(Ordering::Equal) }
    }
}

pub uninterp spec fn clock_reading(t: Timestamp) -> bool;
impl Timestamp {
    #[verifier::external_body]
    pub fn now() -> (r: Timestamp) ensures clock_reading(r) { unimplemented!() }
}

@@extract struct src/structure/duration.rs Duration derive=Clone,Copy

impl Duration {
    pub open spec fn lex(&self, other: &Self) -> Ordering {
        if self.seconds < other.seconds { Ordering::Less } else if self.seconds > other.seconds { Ordering::Greater }
        else if self.fraction < other.fraction { Ordering::Less } else if self.fraction > other.fraction { Ordering::Greater }
        else { Ordering::Equal }
    }
}
impl PartialEqSpecImpl for Duration {
    open spec fn obeys_eq_spec() -> bool { true }
    open spec fn eq_spec(&self, other: &Self) -> bool { self.seconds == other.seconds && self.fraction == other.fraction }
}
impl PartialEq for Duration { fn eq(&self, other: &Self) -> (r: bool) { self.seconds == other.seconds && self.fraction == other.fraction } }
impl Eq for Duration {}
impl PartialOrdSpecImpl for Duration {
    open spec fn obeys_partial_cmp_spec() -> bool { true }
    open spec fn partial_cmp_spec(&self, other: &Self) -> Option<Ordering> { Some(self.lex(other)) }
}
impl PartialOrd for Duration {
    fn partial_cmp(&self, other: &Self) -> (r: Option<Ordering>) {
        if self.seconds < other.seconds { Some(Ordering::Less) } else if self.seconds > other.seconds { Some(Ordering::Greater) }
        else if self.fraction < other.fraction { Some(Ordering::Less) } else if self.fraction > other.fraction { Some(Ordering::Greater) }
        else { Some(Ordering::Equal) }
    }
}
impl Duration {
@@extract fn src/structure/duration.rs Duration::from_secs
@@ret r
@@ensures frag.glue.time.duration.from_secs
    r.seconds == secs, r.fraction == 0
@@end
}

pub uninterp spec fn ts_diff(a: Timestamp, b: Timestamp) -> Duration;
pub uninterp spec fn ts_minus(a: Timestamp, d: Duration) -> Timestamp;
pub uninterp spec fn ts_plus(a: Timestamp, d: Duration) -> Timestamp;
// what `Timestamp + Duration` needs in order not to overflow its u64 tick addition (uninterpreted;
// the code of this unit does not use `+`: stated so that a change that does is asked the question)
pub uninterp spec fn ts_plus_ok(a: Timestamp, d: Duration) -> bool;

impl SubSpecImpl<Timestamp> for Timestamp {
    open spec fn obeys_sub_spec() -> bool { true }
    open spec fn sub_req(self, rhs: Timestamp) -> bool { true }
    open spec fn sub_spec(self, rhs: Timestamp) -> Duration { ts_diff(self, rhs) }
}
impl core::ops::Sub for Timestamp {
    type Output = Duration;
    #[verifier::external_body]
    fn sub(self, rhs: Timestamp) -> Duration { unimplemented!() }
}
impl SubSpecImpl<Duration> for Timestamp {
    open spec fn obeys_sub_spec() -> bool { true }
    open spec fn sub_req(self, rhs: Duration) -> bool { true }
    open spec fn sub_spec(self, rhs: Duration) -> Timestamp { ts_minus(self, rhs) }
}
impl core::ops::Sub<Duration> for Timestamp {
    type Output = Timestamp;
    #[verifier::external_body]
    fn sub(self, rhs: Duration) -> Timestamp { unimplemented!() }
}
impl AddSpecImpl<Duration> for Timestamp {
    open spec fn obeys_add_spec() -> bool { true }
    open spec fn add_req(self, rhs: Duration) -> bool { ts_plus_ok(self, rhs) }
    open spec fn add_spec(self, rhs: Duration) -> Timestamp { ts_plus(self, rhs) }
}
impl core::ops::Add<Duration> for Timestamp {
    type Output = Timestamp;
    #[verifier::external_body]
    fn add(self, rhs: Duration) -> Timestamp { unimplemented!() }
}

impl Timestamp {
@@extract fn src/structure/time.rs Timestamp::duration_since
@@ret r
@@ensures frag.glue.time.duration_since
    r == ts_diff(*self, since)
@@end
}
