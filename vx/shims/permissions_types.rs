// ---------------------------------------------------------------------------------------------
// Unit permissions (C18) — SHIMS (assumed contracts, trusted) of the dependencies of the rule
// evaluation code in security/access_control/access_control_builtin/*.rs:
//   glob::Pattern            opaque; `matches` returns the UNINTERPRETED predicate glob_match(pattern, name)
//                            ("matched as file-name patterns": the pattern semantics themselves are those of
//                            the `glob` crate and are not decided here; every contract holds for every
//                            pattern semantics)
//   chrono::DateTime<Utc>    opaque instant on an assumed total order (`instant`: int), compared through
//                            PartialOrd; `std::ops::Range::contains` is vstd's own specification
//                            (start <= item < end)
//   DistinguishedName        opaque X.509 subject name; `matches` is structural equality of the parsed name
//                            (certificate.rs: `self.0 == other.0`), modelled as equality of an uninterpreted
//                            abstract value `dn_value`
//   std one-liners           `&str == String`, Option::filter, Option::is_some_and, `!bool` as function value
// ---------------------------------------------------------------------------------------------

// ---- glob::Pattern ---------------------------------------------------------------------------
#[verifier::external_body]
pub struct Pattern { p: u8 }
// file-name pattern semantics (fnmatch): UNINTERPRETED
pub uninterp spec fn glob_match(p: Pattern, name: Seq<char>) -> bool;
impl Pattern {
    #[verifier::external_body]
    pub fn matches(&self, s: &str) -> (r: bool)
        ensures r == glob_match(*self, s@),
    { unimplemented!() }
}

// ---- chrono::DateTime<Utc> -------------------------------------------------------------------
pub struct Utc;
#[verifier::external_body]
#[verifier::reject_recursive_types(Tz)]
pub struct DateTime<Tz> { t: i64, p: core::marker::PhantomData<Tz> }
// position on the time line: an assumed TOTAL order (chrono compares the UTC instants)
pub uninterp spec fn instant<Tz>(d: DateTime<Tz>) -> int;
impl<Tz> PartialEqSpecImpl for DateTime<Tz> {
    open spec fn obeys_eq_spec() -> bool { true }
    open spec fn eq_spec(&self, other: &Self) -> bool { instant(*self) == instant(*other) }
}
impl<Tz> PartialEq for DateTime<Tz> {
    #[verifier::external_body]
    fn eq(&self, other: &Self) -> (r: bool) { unimplemented!() }
}
impl<Tz> PartialOrdSpecImpl for DateTime<Tz> {
    open spec fn obeys_partial_cmp_spec() -> bool { true }
    open spec fn partial_cmp_spec(&self, other: &Self) -> Option<Ordering> {
        if instant(*self) < instant(*other) { Some(Ordering::Less) }
        else if instant(*self) == instant(*other) { Some(Ordering::Equal) }
        else { Some(Ordering::Greater) }
    }
}
impl<Tz> PartialOrd for DateTime<Tz> {
    #[verifier::external_body]
    fn partial_cmp(&self, other: &Self) -> (r: Option<Ordering>) { unimplemented!() }
}

// ---- security::certificate::DistinguishedName --------------------------------------------------
#[verifier::external_body]
pub struct DistinguishedName { n: u8 }
pub uninterp spec fn dn_value(d: DistinguishedName) -> int;
impl DistinguishedName {
    // certificate.rs: `pub fn matches(&self, other: &Self) -> bool { self.0 == other.0 }`
    #[verifier::external_body]
    pub fn matches(&self, other: &Self) -> (r: bool)
        ensures r == (dn_value(*self) == dn_value(*other)),
    { unimplemented!() }
}

// ---- std one-liners (assumed) -------------------------------------------------------------------
// `impl PartialEq<String> for &str`: content equality
pub assume_specification<'a>[ <&'a str as PartialEq<String>>::eq ](a: &&'a str, b: &String) -> (r: bool)
    ensures r == (a@ == b@);
