// ---------------------------------------------------------------------------------------------
// Unit permissions (C18) — SHIMS (assumed contracts, trusted) of the dependencies of the rule
// evaluation code in security/access_control/access_control_builtin/*.rs:
//   glob::Pattern            opaque; `matches` returns the UNINTERPRETED predicate glob_match(pattern, name)
//                            ("matched as file-name patterns": the pattern semantics themselves are those of
//                            the `glob` crate and are not decided here; every contract holds for every
//                            pattern semantics)
//   chrono::DateTime<Utc>    opaque instant on an assumed total order (`instant`: int), compared through
//                            PartialOrd; `std::ops::Range::contains` is vstd's own specification
//                            (start <= item < end)
//   DistinguishedName        opaque X.509 subject name; `matches` is structural equality of the parsed name
//                            (certificate.rs: `self.0 == other.0`), modelled as equality of an uninterpreted
//                            abstract value `dn_value`
//   std one-liners           `&str == String`, Option::filter, Option::is_some_and, `!bool` as function value
// ---------------------------------------------------------------------------------------------

// ---- glob::Pattern ---------------------------------------------------------------------------
// A compiled pattern is determined by the expression STRING it was compiled from (`source`); whether a
// name matches is an UNINTERPRETED function of (source string, name) = file-name pattern semantics.
#[verifier::external_body]
pub struct Pattern { p: u8 }
#[verifier::external_body]
pub struct PatternError { p: u8 }
pub uninterp spec fn glob_sem(expression: Seq<char>, name: Seq<char>) -> bool;
// the expression strings glob::Pattern::new accepts: UNINTERPRETED
pub uninterp spec fn glob_compilable(expression: Seq<char>) -> bool;
// glob::Pattern::escape: SOME string function (the literal that matches the given text), UNINTERPRETED
pub uninterp spec fn glob_escape(expression: Seq<char>) -> Seq<char>;
pub open spec fn glob_match(p: Pattern, name: Seq<char>) -> bool { glob_sem(p.source(), name) }
impl Pattern {
    pub uninterp spec fn source(&self) -> Seq<char>;
    #[verifier::external_body]
    pub fn matches(&self, s: &str) -> (r: bool)
        ensures r == glob_match(*self, s@),
    { unimplemented!() }
    // glob::Pattern::new: compiles EXACTLY the given expression, or refuses it
    #[verifier::external_body]
    pub fn new(s: &str) -> (r: Result<Pattern, PatternError>)
        ensures r is Ok <==> glob_compilable(s@), r matches Ok(p) ==> p.source() == s@,
    { unimplemented!() }
    #[verifier::external_body]
    pub fn escape(s: &str) -> (r: String)
        ensures r@ == glob_escape(s@),
    { unimplemented!() }
}

// ---- chrono::DateTime<Utc> -------------------------------------------------------------------
pub struct Utc;
#[verifier::external_body]
#[verifier::reject_recursive_types(Tz)]
pub struct DateTime<Tz> { t: i64, p: core::marker::PhantomData<Tz> }
// position on the time line: an assumed TOTAL order (chrono compares the UTC instants)
pub uninterp spec fn instant<Tz>(d: DateTime<Tz>) -> int;
impl<Tz> PartialEqSpecImpl for DateTime<Tz> {
    open spec fn obeys_eq_spec() -> bool { true }
    open spec fn eq_spec(&self, other: &Self) -> bool { instant(*self) == instant(*other) }
}
impl<Tz> PartialEq for DateTime<Tz> {
    #[verifier::external_body]
    fn eq(&self, other: &Self) -> (r: bool) { unimplemented!() }
}
impl<Tz> PartialOrdSpecImpl for DateTime<Tz> {
    open spec fn obeys_partial_cmp_spec() -> bool { true }
    open spec fn partial_cmp_spec(&self, other: &Self) -> Option<Ordering> {
        if instant(*self) < instant(*other) { Some(Ordering::Less) }
        else if instant(*self) == instant(*other) { Some(Ordering::Equal) }
        else { Some(Ordering::Greater) }
    }
}
impl<Tz> PartialOrd for DateTime<Tz> {
    #[verifier::external_body]
    fn partial_cmp(&self, other: &Self) -> (r: Option<Ordering>) { unimplemented!() }
}

impl Utc {
    // chrono::Utc::now(): an otherwise unconstrained instant marked as a clock reading; nothing is assumed
    // about how the clock advances
    #[verifier::external_body]
    pub fn now() -> (r: DateTime<Utc>) ensures clock_reading(r) { unimplemented!() }
}
pub uninterp spec fn clock_reading(d: DateTime<Utc>) -> bool;

// ---- security::certificate::DistinguishedName --------------------------------------------------
#[verifier::external_body]
pub struct DistinguishedName { n: u8 }
pub uninterp spec fn dn_value(d: DistinguishedName) -> int;
// the name an RFC 4514 string denotes (x509_cert parser): UNINTERPRETED
pub uninterp spec fn dn_of_string(s: Seq<char>) -> int;
impl DistinguishedName {
    // certificate.rs: x509_cert::name::DistinguishedName::from_str(s), error mapped to ConfigError
    #[verifier::external_body]
    pub fn parse(s: &str) -> (r: Result<DistinguishedName, ConfigError>)
        ensures r matches Ok(d) ==> dn_value(d) == dn_of_string(s@),
    { unimplemented!() }
    // certificate.rs: `pub fn matches(&self, other: &Self) -> bool { self.0 == other.0 }`
    #[verifier::external_body]
    pub fn matches(&self, other: &Self) -> (r: bool)
        ensures r == (dn_value(*self) == dn_value(*other)),
    { unimplemented!() }
}

// ---- std one-liners (assumed) -------------------------------------------------------------------
// `impl PartialEq<String> for &str`: content equality
pub assume_specification<'a>[ <&'a str as PartialEq<String>>::eq ](a: &&'a str, b: &String) -> (r: bool)
    ensures r == (a@ == b@);
// std: "Returns None if the option is None, otherwise calls predicate with the wrapped value and returns
// Some(t) if predicate returns true, None if it returns false"
#[verifier::allow(undeclared_external_trait)]
pub assume_specification<T, P: FnOnce(&T) -> bool + core::marker::Destruct>[ Option::<T>::filter ](o: Option<T>, f: P) -> (r: Option<T>)
    where T: core::marker::Destruct
    requires o matches Some(t) ==> f.requires((&t,)),
    ensures
        o is None ==> r is None,
        o matches Some(t) ==> ((r == Some(t) && f.ensures((&t,), true)) || (r is None && f.ensures((&t,), false))),
;
// std: Option::is_some_and / Result::and_then — generic in the closure, which carries its own annotation (R6)
#[verifier::allow(undeclared_external_trait)]
pub assume_specification<T, F: FnOnce(T) -> bool + core::marker::Destruct>[ Option::<T>::is_some_and ](o: Option<T>, f: F) -> (r: bool)
    where T: core::marker::Destruct
    requires o matches Some(t) ==> f.requires((t,)),
    ensures o is None ==> !r, o matches Some(t) ==> f.ensures((t,), r);
#[verifier::allow(undeclared_external_trait)]
pub assume_specification<T, E, U, F: FnOnce(T) -> Result<U, E> + core::marker::Destruct>[ Result::<T, E>::and_then ](r: Result<T, E>, op: F) -> (o: Result<U, E>)
    requires r matches Ok(t) ==> op.requires((t,)),
    ensures r matches Ok(t) ==> op.ensures((t,), o), r matches Err(e) ==> o == Err::<U, E>(e);

// ---- security::types ---------------------------------------------------------------------------------
pub type PermissionsHandle = u32;
#[verifier::external_body] pub struct SecurityError { msg: String }
pub type SecurityResult<T> = std::result::Result<T, SecurityError>;
// what the macro create_security_error_and_log!(..) evaluates to: some SecurityError
#[verifier::external_body] pub fn verif_security_error() -> SecurityError { unimplemented!() }

// ---- std: iterator consumers / producers missing from vstd (assumed, modelled on vstd's own `collect`) ------
// `impl FromIterator<Result<A, E>> for Result<Vec<A>, E>` (std: "Takes each element in the Iterator: if it is an Err,
// no further elements are taken, and the Err is returned. Should no Err occur, a container with the values of each
// Result is returned") and `String::to_string` (a copy)
pub mod permissions_std_axioms {
    use vstd::prelude::*;
    use vstd::std_specs::iter::FromIteratorSpec;
    #[verifier::external_body]
    pub broadcast proof fn axiom_collect_result<A, E>(s: Seq<Result<A, E>>, r: Result<Vec<A>, E>)
        ensures #[trigger] <Result<Vec<A>, E> as FromIteratorSpec<Result<A, E>>>::from_iter_ensures(s, r) ==>
            (r matches Ok(v) ==> v@.len() == s.len() && forall|i: int| 0 <= i < s.len() ==> s[i] == Ok::<A, E>(#[trigger] v@[i]))
            && (r is Err ==> exists|i: int| 0 <= i < s.len() && (#[trigger] s[i]) is Err)
    {}
    #[verifier::external_body]
    pub broadcast proof fn axiom_string_to_string(s: &String, r: String)
        ensures #[trigger] vstd::string::to_string_from_display_ensures::<String>(s, r) ==> r@ == s@
    {}
}
broadcast use {permissions_std_axioms::axiom_collect_result, permissions_std_axioms::axiom_string_to_string};
// `Vec::extend(iter)`: appends everything the iterator yields, in order
pub assume_specification<T, A: core::alloc::Allocator, I: IntoIterator<Item = T>>[ <Vec<T, A> as Extend<T>>::extend ](v: &mut Vec<T, A>, iter: I)
    ensures exists|it: I::IntoIter| call_ensures(<I as IntoIterator>::into_iter, (iter,), it)
        && (vstd::std_specs::iter::IteratorSpec::obeys_prophetic_iter_laws(&it) ==>
               vstd::std_specs::iter::IteratorSpec::will_return_none(&it)
               && final(v)@ == old(v)@ + vstd::std_specs::iter::IteratorSpec::remaining(&it)),
;
// `Result::or_else` (the closure carries its own annotation, if any)
#[verifier::allow(undeclared_external_trait)]
pub assume_specification<T, E1, F1, O: FnOnce(E1) -> Result<T, F1> + core::marker::Destruct>[ Result::<T, E1>::or_else ](r: Result<T, E1>, op: O) -> (o: Result<T, F1>)
    where E1: core::marker::Destruct
    requires r matches Err(e) ==> op.requires((e,)),
    ensures r matches Ok(t) ==> o == Ok::<T, F1>(t), r matches Err(e) ==> op.ensures((e,), o);

// ---- security::config --------------------------------------------------------------------------------
// R16: `format!(..)` -> opaque String placeholder (feeds error values only)
#[verifier::external_body] pub fn verif_fmt() -> String { unimplemented!() }
@@extract enum src/security/config.rs ConfigError
impl From<PatternError> for ConfigError {
    // config.rs: `ConfigError::Parse(format!("Bad glob pattern: {e:?}"))` — some ConfigError
    #[verifier::external_body] fn from(e: PatternError) -> ConfigError { unimplemented!() }
}
@@extract fn src/security/config.rs parse_config_error
@@end
// R15: the trait function value `ConfigError::from` (here always From<glob::PatternError>) is named as a function
#[verifier::external_body] pub fn config_error_from_glob(e: PatternError) -> ConfigError { ConfigError::from(e) }

// std `Iterator::map_while(p)` (a provided trait method, like `peekable`: wrapper with an ASSUMED contract, substituted
// by R8): "calls the closure on each element and yields elements while it returns Some(_)" - the results for a prefix of
// n elements, where n is everything or the first element on which the closure returns None
#[verifier::external_type_specification]
#[verifier::external_body]
#[verifier::reject_recursive_types(I)]
#[verifier::reject_recursive_types(P)]
pub struct ExMapWhile<I, P>(MapWhile<I, P>);
#[verifier::external_body]
pub fn vx_map_while<I: Iterator, B, P: FnMut(I::Item) -> Option<B>>(it: I, p: P) -> (r: MapWhile<I, P>)
    requires
        vstd::std_specs::iter::IteratorSpec::obeys_prophetic_iter_laws(&it),
        forall|x: I::Item| p.requires((x,)),
    ensures
        vstd::std_specs::iter::IteratorSpec::obeys_prophetic_iter_laws(&r),
        ({
            let src = vstd::std_specs::iter::IteratorSpec::remaining(&it);
            let out = vstd::std_specs::iter::IteratorSpec::remaining(&r);
            &&& out.len() <= src.len()
            &&& forall|i: int| 0 <= i < out.len() ==> p.ensures((src[i],), Some(#[trigger] out[i]))
            &&& out.len() < src.len() ==> p.ensures((src[out.len() as int],), None::<B>)
        }),
{ it.map_while(p) }
// config.rs: `to_config_error_parse(text)` = `move |e| ConfigError::Parse(format!("{}: {:?}", text, e))` — some ConfigError
#[verifier::external_body]
pub fn to_config_error_parse<E>(text: &str) -> (f: impl FnOnce(E) -> ConfigError)
    ensures forall|e: E| f.requires((e,)),
{ move |e: E| ConfigError::Parse(String::new()) }
// the instant an xsd:dateTime string denotes (Grant::parse_time, chrono): UNINTERPRETED (seed C18c territory, not under contract)
pub uninterp spec fn time_of_string(s: Seq<char>) -> int;
// std `<[T]>::split_last`: "Returns the last and all the rest of the elements of the slice, or None if it is empty"
pub assume_specification<T>[ <[T]>::split_last ](s: &[T]) -> (r: Option<(&T, &[T])>)
    ensures
        r is None <==> s@.len() == 0,
        r matches Some(p) ==> *p.0 == s@[s@.len() - 1] && p.1@ == s@.subrange(0, s@.len() - 1),
;
// ---- serde_xml_rs (XML TEXT parsing: outside the unit) ------------------------------------------------------------
// `serde_xml_rs::from_str::<T>(text)`: SOME value of the document type or an error — nothing is assumed about which
pub mod serde_xml_rs {
    use vstd::prelude::*;
    #[verifier::external_body] pub struct Error { e: u8 }
    #[verifier::external_body]
    pub fn from_str<T>(s: &str) -> (r: Result<T, Error>) { unimplemented!() }
}
impl From<serde_xml_rs::Error> for ConfigError {
    #[verifier::external_body] fn from(e: serde_xml_rs::Error) -> ConfigError { unimplemented!() }
}
// `text.trim_start_matches("Content-Type: text/plain").trim_start_matches(char::is_whitespace)` (S/MIME header): opaque
#[verifier::external_body] pub fn vx_strip_mime_header(s: &str) -> (r: &str) { unimplemented!() }
