// ---------------------------------------------------------------------------------------------
// Unit permissions (C18) — SHIMS (assumed contracts, trusted) of the dependencies of the rule
// evaluation code in security/access_control/access_control_builtin/*.rs:
//   glob::Pattern            opaque; `matches` returns the UNINTERPRETED predicate glob_match(pattern, name)
//                            ("matched as file-name patterns": the pattern semantics themselves are those of
//                            the `glob` crate and are not decided here; every contract holds for every
//                            pattern semantics)
//   chrono::DateTime<Utc>    opaque instant on an assumed total order (`instant`: int), compared through
//                            PartialOrd; `std::ops::Range::contains` is vstd's own specification
//                            (start <= item < end)
//   DistinguishedName        opaque X.509 subject name; `matches` is structural equality of the parsed name
//                            (certificate.rs: `self.0 == other.0`), modelled as equality of an uninterpreted
//                            abstract value `dn_value`
//   std one-liners           `&str == String`, Option::filter, Option::is_some_and, `!bool` as function value
// ---------------------------------------------------------------------------------------------

// ---- glob::Pattern ---------------------------------------------------------------------------
#[verifier::external_body]
pub struct Pattern { p: u8 }
// file-name pattern semantics (fnmatch): UNINTERPRETED
pub uninterp spec fn glob_match(p: Pattern, name: Seq<char>) -> bool;
impl Pattern {
    #[verifier::external_body]
    pub fn matches(&self, s: &str) -> (r: bool)
        ensures r == glob_match(*self, s@),
    { unimplemented!() }
}

// ---- chrono::DateTime<Utc> -------------------------------------------------------------------
pub struct Utc;
#[verifier::external_body]
#[verifier::reject_recursive_types(Tz)]
pub struct DateTime<Tz> { t: i64, p: core::marker::PhantomData<Tz> }
// position on the time line: an assumed TOTAL order (chrono compares the UTC instants)
pub uninterp spec fn instant<Tz>(d: DateTime<Tz>) -> int;
impl<Tz> PartialEqSpecImpl for DateTime<Tz> {
    open spec fn obeys_eq_spec() -> bool { true }
    open spec fn eq_spec(&self, other: &Self) -> bool { instant(*self) == instant(*other) }
}
impl<Tz> PartialEq for DateTime<Tz> {
    #[verifier::external_body]
    fn eq(&self, other: &Self) -> (r: bool) { unimplemented!() }
}
impl<Tz> PartialOrdSpecImpl for DateTime<Tz> {
    open spec fn obeys_partial_cmp_spec() -> bool { true }
    open spec fn partial_cmp_spec(&self, other: &Self) -> Option<Ordering> {
        if instant(*self) < instant(*other) { Some(Ordering::Less) }
        else if instant(*self) == instant(*other) { Some(Ordering::Equal) }
        else { Some(Ordering::Greater) }
    }
}
impl<Tz> PartialOrd for DateTime<Tz> {
    #[verifier::external_body]
    fn partial_cmp(&self, other: &Self) -> (r: Option<Ordering>) { unimplemented!() }
}

impl Utc {
    // chrono::Utc::now(): an otherwise unconstrained instant marked as a clock reading; nothing is assumed
    // about how the clock advances
    #[verifier::external_body]
    pub fn now() -> (r: DateTime<Utc>) ensures clock_reading(r) { unimplemented!() }
}
pub uninterp spec fn clock_reading(d: DateTime<Utc>) -> bool;

// ---- security::certificate::DistinguishedName --------------------------------------------------
#[verifier::external_body]
pub struct DistinguishedName { n: u8 }
pub uninterp spec fn dn_value(d: DistinguishedName) -> int;
impl DistinguishedName {
    // certificate.rs: `pub fn matches(&self, other: &Self) -> bool { self.0 == other.0 }`
    #[verifier::external_body]
    pub fn matches(&self, other: &Self) -> (r: bool)
        ensures r == (dn_value(*self) == dn_value(*other)),
    { unimplemented!() }
}

// ---- std one-liners (assumed) -------------------------------------------------------------------
// `impl PartialEq<String> for &str`: content equality
pub assume_specification<'a>[ <&'a str as PartialEq<String>>::eq ](a: &&'a str, b: &String) -> (r: bool)
    ensures r == (a@ == b@);
// std: "Returns None if the option is None, otherwise calls predicate with the wrapped value and returns
// Some(t) if predicate returns true, None if it returns false"
#[verifier::allow(undeclared_external_trait)]
pub assume_specification<T, P: FnOnce(&T) -> bool + core::marker::Destruct>[ Option::<T>::filter ](o: Option<T>, f: P) -> (r: Option<T>)
    where T: core::marker::Destruct
    requires o matches Some(t) ==> f.requires((&t,)),
    ensures
        o is None ==> r is None,
        o matches Some(t) ==> ((r == Some(t) && f.ensures((&t,), true)) || (r is None && f.ensures((&t,), false))),
;
// std: Option::is_some_and / Result::and_then — generic in the closure, which carries its own annotation (R6)
#[verifier::allow(undeclared_external_trait)]
pub assume_specification<T, F: FnOnce(T) -> bool + core::marker::Destruct>[ Option::<T>::is_some_and ](o: Option<T>, f: F) -> (r: bool)
    where T: core::marker::Destruct
    requires o matches Some(t) ==> f.requires((t,)),
    ensures o is None ==> !r, o matches Some(t) ==> f.ensures((t,), r);
#[verifier::allow(undeclared_external_trait)]
pub assume_specification<T, E, U, F: FnOnce(T) -> Result<U, E> + core::marker::Destruct>[ Result::<T, E>::and_then ](r: Result<T, E>, op: F) -> (o: Result<U, E>)
    requires r matches Ok(t) ==> op.requires((t,)),
    ensures r matches Ok(t) ==> op.ensures((t,), o), r matches Err(e) ==> o == Err::<U, E>(e);

// ---- security::types ---------------------------------------------------------------------------------
pub type PermissionsHandle = u32;
#[verifier::external_body] pub struct SecurityError { msg: String }
pub type SecurityResult<T> = std::result::Result<T, SecurityError>;
// what the macro create_security_error_and_log!(..) evaluates to: some SecurityError
#[verifier::external_body] pub fn verif_security_error() -> SecurityError { unimplemented!() }
