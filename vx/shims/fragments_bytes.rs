// ---------------------------------------------------------------------------------------------
// SHIM (assumed contracts, trusted): bytes::Bytes / bytes::BytesMut  (crate `bytes` 1.x)
// view: Seq<u8>.  Every fn is external_body: the contract is the *assumed* specification of the
// dependency; documented panics are stated as `requires` (they become no-panic obligations at
// the call sites in the extracted code).  Range indexing (`b[..n]`, `m.as_mut()[a..b]`) is NOT
// shimmed: `Bytes: Deref<Target=[u8]>` / `BytesMut::as_mut() -> &mut [u8]` hand out std slices and
// vstd's own slice specs (range Index/IndexMut bounds, copy_from_slice length check) apply, so
// rewrite R12 is not needed for this unit.
// ---------------------------------------------------------------------------------------------
pub trait ByteRange {
    spec fn lo(&self) -> int;
    spec fn hi(&self, len: int) -> int;
}
impl ByteRange for core::ops::Range<usize> {
    open spec fn lo(&self) -> int { self.start as int }
    open spec fn hi(&self, len: int) -> int { self.end as int }
}
impl ByteRange for core::ops::RangeTo<usize> {
    open spec fn lo(&self) -> int { 0 }
    open spec fn hi(&self, len: int) -> int { self.end as int }
}
impl ByteRange for core::ops::RangeFrom<usize> {
    open spec fn lo(&self) -> int { self.start as int }
    open spec fn hi(&self, len: int) -> int { len }
}

#[verifier::external_body]
pub struct Bytes { inner: Vec<u8> }
impl View for Bytes { type V = Seq<u8>; uninterp spec fn view(&self) -> Seq<u8>; }
impl Bytes {
    #[verifier::external_body]
    pub fn len(&self) -> (r: usize) ensures r == self@.len() { unimplemented!() }
    // bytes::Bytes::slice: "Requires that begin <= end and end <= self.len(), otherwise slicing will panic."
    #[verifier::external_body]
    pub fn slice<R: ByteRange>(&self, range: R) -> (out: Bytes)
        requires 0 <= range.lo() <= range.hi(self@.len() as int) <= self@.len()
        ensures out@ == self@.subrange(range.lo(), range.hi(self@.len() as int))
    { unimplemented!() }
    #[verifier::external_body]
    pub fn copy_from_slice(data: &[u8]) -> (out: Bytes) ensures out@ == data@ { unimplemented!() }
}
impl Clone for Bytes {
    #[verifier::external_body]
    fn clone(&self) -> (r: Bytes) ensures r@ == self@ { unimplemented!() }
}
impl core::ops::Deref for Bytes {
    type Target = [u8];
    #[verifier::external_body]
    fn deref(&self) -> (r: &[u8]) ensures r@ == self@ { unimplemented!() }
}
// `Bytes::from(vec)` and `Vec::from(bytes)`
impl FromSpecImpl<Vec<u8>> for Bytes {
    open spec fn obeys_from_spec() -> bool { false }
    uninterp spec fn from_spec(v: Vec<u8>) -> Self;
}
impl From<Vec<u8>> for Bytes {
    #[verifier::external_body]
    fn from(v: Vec<u8>) -> (r: Bytes) ensures r@ == v@ { unimplemented!() }
}
impl FromSpecImpl<Bytes> for Vec<u8> {
    open spec fn obeys_from_spec() -> bool { false }
    uninterp spec fn from_spec(v: Bytes) -> Self;
}
impl From<Bytes> for Vec<u8> {
    #[verifier::external_body]
    fn from(b: Bytes) -> (r: Vec<u8>) ensures r@ == b@ { unimplemented!() }
}

#[verifier::external_body]
pub struct BytesMut { inner: Vec<u8> }
impl View for BytesMut { type V = Seq<u8>; uninterp spec fn view(&self) -> Seq<u8>; }
impl BytesMut {
    #[verifier::external_body]
    pub fn with_capacity(capacity: usize) -> (r: BytesMut) ensures r@.len() == 0 { unimplemented!() }
    #[verifier::external_body]
    pub fn len(&self) -> (r: usize) ensures r == self@.len() { unimplemented!() }
    // "Resizes the buffer so that len is equal to new_len. If new_len is greater than len, the
    //  buffer is extended by the difference with each additional byte set to value. If new_len is
    //  less than len, the buffer is simply truncated."
    #[verifier::external_body]
    pub fn resize(&mut self, new_len: usize, value: u8)
        ensures
            final(self)@.len() == new_len,
            forall|i: int| 0 <= i < new_len ==> #[trigger] final(self)@[i] == (if i < old(self)@.len() { old(self)@[i] } else { value }),
    { unimplemented!() }
    #[verifier::external_body]
    pub fn extend_from_slice(&mut self, extend: &[u8]) ensures final(self)@ == old(self)@ + extend@ { unimplemented!() }
    #[verifier::external_body]
    pub fn freeze(self) -> (r: Bytes) ensures r@ == self@ { unimplemented!() }
    // `AsMut<[u8]>::as_mut` (stated as an inherent method): the returned slice *is* the buffer
    #[verifier::external_body]
    pub fn as_mut(&mut self) -> (r: &mut [u8]) ensures r@ == old(self)@, final(self)@ == final(r)@ { unimplemented!() }
}
