// ---------------------------------------------------------------------------------------------
// Unit leases — SHIM additions (assumed, trusted) to shims/btreemap.rs; separate impl blocks, the
// contracts of btreemap.rs are unchanged.
// ---------------------------------------------------------------------------------------------
impl<K: Ord, V> BTreeMap<K, V> {
    // std: `impl<'a, K, V> IntoIterator for &'a BTreeMap<K, V> { fn into_iter(self) -> Iter<'a, K, V> { self.iter() } }`
    // (what `for (k, v) in &map` calls, R3): every entry exactly once, ascending key order
    #[verifier::external_body]
    pub fn into_iter<'a>(&'a self) -> (it: BRange<'a, K, V>)
        ensures is_range_of(it.rem(), self@, Bound::Unbounded, Bound::Unbounded)
    { unimplemented!() }
}

// Range::map(closure).collect() — restricted to `range(..).map(|(g, _)| *g).collect()`
impl<'a, K, V> BRange<'a, K, V> {
    #[verifier::external_body]
    pub fn map<T, F: Fn((&'a K, &'a V)) -> T>(self, f: F) -> (r: LeasesMapped<T>)
        requires forall|k: &'a K, v: &'a V| f.requires(((k, v),)),
        ensures r.items().len() == self.rem().len(),
                forall|i: int| 0 <= i < self.rem().len() ==> f.ensures(((&self.rem()[i].0, &self.rem()[i].1),), #[trigger] r.items()[i]),
    { unimplemented!() }
}
#[verifier::external_body]
#[verifier::reject_recursive_types(T)]
pub struct LeasesMapped<T> { v: Vec<T> }
impl<T> LeasesMapped<T> {
    pub uninterp spec fn items(&self) -> Seq<T>;
    #[verifier::external_body]
    pub fn collect(self) -> (r: Vec<T>) ensures r@ == self.items() { unimplemented!() }
}
