// ---------------------------------------------------------------------------------------------
// structure/sequence_number.rs : FragmentNumber (extracted) + the conversions the fragment code
// uses.  Derives dropped (R2): only Clone/Copy are needed by the extracted functions.
// ---------------------------------------------------------------------------------------------
@@extract struct src/structure/sequence_number.rs FragmentNumber derive=Clone,Copy

impl FragmentNumber {
@@extract const src/structure/sequence_number.rs FragmentNumber::INVALID
@@extract fn src/structure/sequence_number.rs FragmentNumber::new
@@ret r
@@ensures frag.fn.new
    r.0 == value
@@end
}
impl FromSpecImpl<FragmentNumber> for u32 {
    open spec fn obeys_from_spec() -> bool { true }
    open spec fn from_spec(v: FragmentNumber) -> Self { v.0 }
}
impl From<FragmentNumber> for u32 {
@@extract fn src/structure/sequence_number.rs "From<FragmentNumber> for u32::from"
@@nopub
@@ret r
@@ensures frag.fn.into_u32
    r == fragment_number.0
@@end
}
impl FromSpecImpl<FragmentNumber> for usize {
    open spec fn obeys_from_spec() -> bool { true }
    open spec fn from_spec(v: FragmentNumber) -> Self { v.0 as usize }
}
impl From<FragmentNumber> for usize {
@@extract fn src/structure/sequence_number.rs "From<FragmentNumber> for usize::from"
@@nopub
@@ret r
@@ensures frag.fn.into_usize
    r == fragment_number.0 as usize
@@end
}
