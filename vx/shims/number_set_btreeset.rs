// ---------------------------------------------------------------------------------------------
// SHIM (assumed contract, trusted): std::collections::BTreeSet<K>, restricted to what
// NumberSet::from_base_and_set uses: iter(), Iter::next / next_back / filter, Filter::next.
// view: Set<K>; element order: K's OrdSpec (cmp_spec). Every fn is external_body: the contract is
// the *assumed* specification of the standard library, not proved here.
// ---------------------------------------------------------------------------------------------
pub open spec fn bs_lt<K: Ord>(a: K, b: K) -> bool { a.cmp_spec(&b) == Ordering::Less }

#[verifier::external_body]
#[verifier::reject_recursive_types(K)]
pub struct BTreeSet<K> { inner: std::collections::BTreeSet<K> }

impl<K> View for BTreeSet<K> { type V = Set<K>; uninterp spec fn view(&self) -> Set<K>; }

// s is the strictly ascending sequence of exactly the elements of m
pub open spec fn is_set_iter_of<K: Ord>(s: Seq<K>, m: Set<K>) -> bool {
    &&& forall|i: int, j: int| 0 <= i < j < s.len() ==> bs_lt(#[trigger] s[i], #[trigger] s[j])
    &&& forall|i: int| 0 <= i < s.len() ==> m.contains(#[trigger] s[i])
    &&& forall|k: K| #[trigger] m.contains(k) ==> exists|i: int| 0 <= i < s.len() && s[i] == k
}

#[verifier::external_body]
#[verifier::reject_recursive_types(K)]
pub struct BSetIter<'a, K> { inner: std::collections::btree_set::Iter<'a, K> }

impl<'a, K> BSetIter<'a, K> {
    // elements still to come (ascending); next takes from the front, next_back from the back
    pub uninterp spec fn rem(&self) -> Seq<K>;

    #[verifier::external_body]
    pub fn next(&mut self) -> (r: Option<&'a K>)
        ensures
            match r {
                None => old(self).rem().len() == 0 && final(self).rem() == old(self).rem(),
                Some(k) => old(self).rem().len() > 0 && *k == old(self).rem()[0] && final(self).rem() == old(self).rem().skip(1),
            }
    { unimplemented!() }

    #[verifier::external_body]
    pub fn next_back(&mut self) -> (r: Option<&'a K>)
        ensures
            match r {
                None => old(self).rem().len() == 0 && final(self).rem() == old(self).rem(),
                Some(k) => old(self).rem().len() > 0 && *k == old(self).rem().last() && final(self).rem() == old(self).rem().drop_last(),
            }
    { unimplemented!() }

    // Iterator::filter — the predicate must be callable on every element
    #[verifier::external_body]
    pub fn filter<F: Fn(&&'a K) -> bool>(self, f: F) -> (r: BSetFilter<'a, K, F>)
        requires forall|x: &'a K| f.requires((&x,)),
        ensures r.rem() == self.rem(), r.pred() == f,
    { unimplemented!() }
}

// the predicate p returns false on every element of s
pub open spec fn all_rejected<'a, K, F: Fn(&&'a K) -> bool>(p: F, s: Seq<K>) -> bool {
    forall|i: int, x: &'a K| 0 <= i < s.len() && *x == s[i] ==> p.ensures((&x,), false)
}

#[verifier::external_body]
#[verifier::reject_recursive_types(K)]
#[verifier::reject_recursive_types(F)]
pub struct BSetFilter<'a, K, F> { inner: core::iter::Filter<std::collections::btree_set::Iter<'a, K>, F> }

impl<'a, K, F: Fn(&&'a K) -> bool> BSetFilter<'a, K, F> {
    pub uninterp spec fn rem(&self) -> Seq<K>;   // unfiltered elements still to come
    pub uninterp spec fn pred(&self) -> F;

    // next(): skips the elements the predicate rejects, returns the first it accepts
    #[verifier::external_body]
    pub fn next(&mut self) -> (r: Option<&'a K>)
        ensures
            final(self).pred() == old(self).pred(),
            match r {
                None => final(self).rem().len() == 0 && all_rejected(old(self).pred(), old(self).rem()),
                Some(k) => exists|n: int| 0 <= n < old(self).rem().len() && *k == old(self).rem()[n]
                    && final(self).rem() == old(self).rem().skip(n + 1)
                    && old(self).pred().ensures((&k,), true)
                    && all_rejected(old(self).pred(), old(self).rem().take(n)),
            }
    { unimplemented!() }
}

impl<K: Ord> BTreeSet<K> {
    #[verifier::external_body]
    pub fn iter<'a>(&'a self) -> (it: BSetIter<'a, K>)
        ensures is_set_iter_of(it.rem(), self@)
    { unimplemented!() }
}
