// ---------------------------------------------------------------------------------------------
// Unit reader_frag — SHIMS (assumed contracts, trusted) for std items used by the Reader's fragment
// glue.  Separate impl block that adds to shims/btreemap.rs without touching it.
// (BTreeMap::entry(..).or_insert_with(..) comes from shims/fragments_std.rs.)
// ---------------------------------------------------------------------------------------------

// --- BTreeMap::iter_mut: "Gets a mutable iterator over the entries of the map, sorted by key."
// `iter_mut` borrows the map mutably for 'a.  before() is the map at that moment; fin() is the
// (prophesied) content of the map when the borrow ends; rem() are the keys still to come.  Every
// entry is yielded once (ascending, hence no key twice); what is done through the `&mut V` handed
// out for key k is what fin() holds under k; the key set cannot change while the map is borrowed.
#[verifier::external_body]
#[verifier::reject_recursive_types(K)]
#[verifier::reject_recursive_types(V)]
pub struct BIterMut<'a, K, V> { inner: std::collections::btree_map::IterMut<'a, K, V> }
impl<'a, K, V> BIterMut<'a, K, V> {
    pub uninterp spec fn before(&self) -> Map<K, V>;
    pub uninterp spec fn fin(&self) -> Map<K, V>;
    pub uninterp spec fn rem(&self) -> Seq<K>;
    #[verifier::external_body]
    pub fn next(&mut self) -> (r: Option<(&'a K, &'a mut V)>)
        ensures
            final(self).before() == old(self).before(),
            final(self).fin() == old(self).fin(),
            match r {
                None => old(self).rem().len() == 0 && final(self).rem() == old(self).rem(),
                Some((k, v)) => old(self).rem().len() > 0 && *k == old(self).rem()[0] && final(self).rem() == old(self).rem().skip(1)
                    && *v == old(self).before()[*k] && old(self).fin()[*k] == *final(v),
            }
    { unimplemented!() }
}
impl<K: Ord, V> BTreeMap<K, V> {
    #[verifier::external_body]
    pub fn iter_mut<'a>(&'a mut self) -> (it: BIterMut<'a, K, V>)
        ensures
            it.before() == old(self)@,
            final(self)@ == it.fin(),
            it.fin().dom() == old(self)@.dom(),
            it.rem().no_duplicates(),
            forall|k: K| it.rem().contains(k) <==> old(self)@.contains_key(k),
    { unimplemented!() }
}

// --- Option::is_some_and (R6: the closure carries its own annotation)
pub assume_specification<T, F: FnOnce(T) -> bool>[ Option::<T>::is_some_and ](o: Option<T>, f: F) -> (r: bool)
    requires o is Some ==> f.requires((o->Some_0,)),
    ensures match o { Some(t) => f.ensures((t,), r), None => !r };

// --- Result::unwrap_or_else (same text as in units/reader_glue.rs.tmpl)
pub assume_specification<T, E, F: FnOnce(E) -> T + core::marker::Destruct> [core::result::Result::<T, E>::unwrap_or_else] (r: Result<T, E>, f: F) -> (o: T)
    where E: core::marker::Destruct
    requires r is Err ==> f.requires((r->Err_0,)),
    ensures match r { Ok(v) => o == v, Err(e) => f.ensures((e,), o) };
