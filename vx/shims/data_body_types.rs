// ---------------------------------------------------------------------------------------------
// Own shim file of unit `data_body` (messages/submessages/data.rs, data_frag.rs, elements/parameter.rs,
// elements/parameter_list.rs: the hand-written DATA / DATA_FRAG bodies and the inline-QoS ParameterList).
// Everything here is ASSUMED (trusted): contracts of `speedy` (Reader over a byte stream, the provided
// method read_from_stream_unbuffered_with_ctx, Writer::write_u16, read_vec), of `std::io::Cursor`, and the
// wire images of the leaf types whose (de)serialisers are derive output or live in another unit
// (EntityId, SequenceNumber, FragmentNumber, ParameterId, u16, u32).  Included AFTER shims/framing_types.rs
// (Bytes, BitFlags, FWriter / FWritable, io::Error come from there, unchanged).
// ---------------------------------------------------------------------------------------------

// ---- 16-bit words on the wire (speedy primitive encoder: byte order of the context) -------------
#[verifier::opaque]
pub open spec fn u16_wire(v: u16, e: Endianness) -> Seq<u8> {
    match e {
        Endianness::LittleEndian => seq![(v % 256) as u8, (v / 256) as u8],
        Endianness::BigEndian => seq![(v / 256) as u8, (v % 256) as u8],
    }
}
pub open spec fn u16_dec(b: Seq<u8>, e: Endianness) -> u16 {
    (match e {
        Endianness::LittleEndian => b[0] as int + 256 * (b[1] as int),
        Endianness::BigEndian => 256 * (b[0] as int) + b[1] as int,
    }) as u16
}

// ---- speedy::Reader over a byte stream + speedy::Readable ----------------------------------------
//   * Reader<'a, C>  ->  concrete DReader; view = the bytes still to come + the context byte order.
//     A read fails only when the input ends before the value does (StreamReader: read_exact on the
//     stream); after a failed read nothing is known about the stream.
//   * Readable<'a, C> -> DReadable: `dec(b, e)` = the value at the head of b in byte order e and the
//     number of bytes it occupies, None = the reader answers Err.  `W` is the value as far as the wire
//     determines it (a view: Vec contents instead of Vec objects).
#[verifier::external_body]
pub struct DReader { inner: Vec<u8> }
impl DReader {
    pub uninterp spec fn rem(&self) -> Seq<u8>;
    pub uninterp spec fn ctx(&self) -> Endianness;
    // Reader::read_vec::<u8>(len): `len` bytes as a Vec.  speedy 0.8.7 reader.rs:514: a StreamReader does not
    // know how much input is left (can_read_at_least == None), so it allocates Vec::with_capacity(len) first
    // and then read_exact()s: Err (UnexpectedEof) iff fewer than `len` bytes are left; the transient allocation
    // is `len` bytes whatever the input (the callers pass a u16: at most 65535 bytes, once, then the parse ends)
    #[verifier::external_body]
    pub fn read_vec(&mut self, len: usize) -> (r: Result<Vec<u8>, SpeedyError>)
        ensures
            final(self).ctx() == old(self).ctx(),
            match r {
                Ok(v) => len <= old(self).rem().len() && v@ == old(self).rem().take(len as int) && final(self).rem() == old(self).rem().skip(len as int),
                Err(_) => len > old(self).rem().len(),
            }
    { unimplemented!() }
}
pub trait DReadable: Sized {
    type W;
    spec fn w(&self) -> Self::W;
    spec fn dec(b: Seq<u8>, e: Endianness) -> Option<(Self::W, int)>;
    fn read_from(reader: &mut DReader) -> (r: Result<Self, SpeedyError>)
        ensures
            final(reader).ctx() == old(reader).ctx(),
            match r {
                Ok(v) => Self::dec(old(reader).rem(), old(reader).ctx()) matches Some(x)   // [data.wire.read]
                    && x.0 == v.w() && 0 <= x.1 <= old(reader).rem().len()   // [data.wire.read]
                    && final(reader).rem() == old(reader).rem().skip(x.1),   // [data.wire.read]
                Err(_) => Self::dec(old(reader).rem(), old(reader).ctx()) is None,   // [data.wire.read]
            };
}

// ---- std::io::Cursor<&&Bytes> as the hand-written body readers use it ----------------------------
// view: the byte string and the position.  `Read for Cursor`: reads from data[min(pos, len)..]
#[verifier::external_body]
pub struct DCursor { inner: Vec<u8> }
impl DCursor {
    pub uninterp spec fn data(&self) -> Seq<u8>;
    pub uninterp spec fn pos(&self) -> int;
    pub open spec fn tail(&self) -> Seq<u8> {
        if 0 <= self.pos() <= self.data().len() { self.data().skip(self.pos()) } else { Seq::empty() }
    }
    // (a Rust allocation never exceeds isize::MAX bytes: assumed of the underlying buffer)
    #[verifier::external_body]
    pub fn new<'a, 'b>(inner: &'b &'a Bytes) -> (r: DCursor)
        ensures r.data() == (**inner)@, r.pos() == 0, r.data().len() <= isize::MAX
    { unimplemented!() }
    #[verifier::external_body]
    pub fn position(&self) -> (r: u64) ensures r as int == self.pos() { unimplemented!() }
    // "Sets the position of this cursor" -- any value, also beyond the end
    #[verifier::external_body]
    pub fn set_position(&mut self, pos: u64) ensures final(self).pos() == pos as int, final(self).data() == old(self).data() { unimplemented!() }
}
// speedy::Readable::read_from_stream_unbuffered_with_ctx(ctx, &mut cursor) (provided method, readable.rs:522):
// `T::read_from` on a StreamReader with context ctx that is NOT buffering -- it takes exactly the bytes the
// value occupies from the stream (read_exact), so the cursor ends up right behind the value
pub trait DStreamReadable: DReadable {
    fn read_from_stream_unbuffered_with_ctx(ctx: Endianness, stream: &mut DCursor) -> (r: Result<Self, SpeedyError>)
        ensures
            final(stream).data() == old(stream).data(),
            match r {
                Ok(v) => Self::dec(old(stream).tail(), ctx) matches Some(x)
                    && x.0 == v.w() && 0 <= x.1 <= old(stream).tail().len()
                    && final(stream).pos() == old(stream).pos() + x.1,
                Err(_) => Self::dec(old(stream).tail(), ctx) is None,
            };
}
impl<T: DReadable> DStreamReadable for T {
    #[verifier::external_body]
    fn read_from_stream_unbuffered_with_ctx(ctx: Endianness, stream: &mut DCursor) -> (r: Result<Self, SpeedyError>) { unimplemented!() }
}
// speedy::Readable::read_from_stream_buffered_with_ctx (readable.rs:527): the same `T::read_from`, but on a StreamReader
// with an 8 KiB buffer that PRE-FETCHES from the stream (read_bytes_slow fills the buffer to capacity): the value is
// the same, the stream is left at ANY position between the end of the value and the end of the data.  Nothing in
// the pinned tree calls it; the stub exists so that a change to it is judged by the contract of its caller
pub trait DStreamReadableBuf: DReadable {
    fn read_from_stream_buffered_with_ctx(ctx: Endianness, stream: &mut DCursor) -> (r: Result<Self, SpeedyError>)
        ensures
            final(stream).data() == old(stream).data(),
            match r {
                Ok(v) => Self::dec(old(stream).tail(), ctx) matches Some(x)
                    && x.0 == v.w() && 0 <= x.1 <= old(stream).tail().len()
                    && old(stream).pos() + x.1 <= final(stream).pos() <= old(stream).data().len(),
                Err(_) => Self::dec(old(stream).tail(), ctx) is None,
            };
}
impl<T: DReadable> DStreamReadableBuf for T {
    #[verifier::external_body]
    fn read_from_stream_buffered_with_ctx(ctx: Endianness, stream: &mut DCursor) -> (r: Result<Self, SpeedyError>) { unimplemented!() }
}
pub type Error = SpeedyError;       // `speedy::Error` in data.rs / data_frag.rs

// ---- primitives (speedy's own impls -- assumed) ---------------------------------------------------
impl DReadable for u16 {
    type W = u16;
    open spec fn w(&self) -> u16 { *self }
    open spec fn dec(b: Seq<u8>, e: Endianness) -> Option<(u16, int)> { if b.len() >= 2 { Some((u16_dec(b, e), 2int)) } else { None } }
    #[verifier::external_body]
    fn read_from(reader: &mut DReader) -> (r: Result<Self, SpeedyError>) { unimplemented!() }
}
impl FWritable for u16 {
    open spec fn wire(&self, ctx: Endianness) -> Seq<u8> { u16_wire(*self, ctx) }
    #[verifier::external_body]
    fn write_to(&self, writer: &mut FWriter) -> (r: Result<(), SpeedyError>) { unimplemented!() }
}
// a u32 is 4 bytes in either byte order (Leaf below: the byte image itself is not needed by this unit)
impl FWriter {
    // Writer::write_u16 (writer.rs:26): the two bytes in the context byte order
    #[verifier::external_body]
    pub fn write_u16(&mut self, v: u16) -> (r: Result<(), SpeedyError>)
        ensures final(self).ctx() == old(self).ctx(), r is Ok ==> final(self).out() == old(self).out() + u16_wire(v, old(self).ctx())
    { unimplemented!() }
}
// speedy `impl Writable<C> for Option<T>` (writable_impl.rs:370): a presence tag byte, then the value.
// NOT RTPS wire format -- nothing in a submessage body may be written through it (finding F12)
impl<T: FWritable> FWritable for Option<T> {
    open spec fn wire(&self, ctx: Endianness) -> Seq<u8> {
        match self { Some(v) => seq![1u8] + v.wire(ctx), None => seq![0u8] }
    }
    #[verifier::external_body]
    fn write_to(&self, writer: &mut FWriter) -> (r: Result<(), SpeedyError>) { unimplemented!() }
}

// ---- leaf types of the DATA / DATA_FRAG header: derive(Readable, Writable) output (EntityId: 3 key bytes +
// kind byte; FragmentNumber: one u32) or real text under contract in unit number_set (SequenceNumber: high
// i32, low u32).  Fixed size, every byte combination is a value, the reader inverts the writer.
#[verifier::external_body] #[derive(Clone, Copy)] pub struct EntityId { _p: u8 }
// (SequenceNumber / FragmentNumber: the real structs, shims/data_body_sn.rs)
pub trait Leaf: Sized {
    spec fn size() -> int;
    spec fn of_bytes(b: Seq<u8>, e: Endianness) -> Self;
    spec fn to_bytes(self, e: Endianness) -> Seq<u8>;
    // ASSUMED (discharged by Kani c14_rt_heartbeat / c14_rt_hbfrag: EntityId, SequenceNumber, FragmentNumber fields
    // with every value, both byte orders; unit number_set numset.wire.* for SequenceNumber)
    proof fn leaf_rt(self, e: Endianness)
        ensures self.to_bytes(e).len() == Self::size(), Self::of_bytes(self.to_bytes(e), e) == self;
}
impl Leaf for EntityId {
    open spec fn size() -> int { 4 }
    uninterp spec fn of_bytes(b: Seq<u8>, e: Endianness) -> Self;
    uninterp spec fn to_bytes(self, e: Endianness) -> Seq<u8>;
    #[verifier::external_body]
    proof fn leaf_rt(self, e: Endianness) {}
}
impl Leaf for SequenceNumber {
    open spec fn size() -> int { 8 }
    uninterp spec fn of_bytes(b: Seq<u8>, e: Endianness) -> Self;
    uninterp spec fn to_bytes(self, e: Endianness) -> Seq<u8>;
    #[verifier::external_body]
    proof fn leaf_rt(self, e: Endianness) {}
}
impl Leaf for u32 {
    open spec fn size() -> int { 4 }
    uninterp spec fn of_bytes(b: Seq<u8>, e: Endianness) -> Self;
    uninterp spec fn to_bytes(self, e: Endianness) -> Seq<u8>;
    #[verifier::external_body]
    proof fn leaf_rt(self, e: Endianness) {}
}
impl Leaf for FragmentNumber {
    open spec fn size() -> int { 4 }
    uninterp spec fn of_bytes(b: Seq<u8>, e: Endianness) -> Self;
    uninterp spec fn to_bytes(self, e: Endianness) -> Seq<u8>;
    #[verifier::external_body]
    proof fn leaf_rt(self, e: Endianness) {}
}
pub open spec fn leaf_dec<T: Leaf>(b: Seq<u8>, e: Endianness) -> Option<(T, int)> {
    if b.len() >= T::size() { Some((T::of_bytes(b.take(T::size()), e), T::size())) } else { None }
}
impl DReadable for EntityId {
    type W = EntityId;
    open spec fn w(&self) -> EntityId { *self }
    open spec fn dec(b: Seq<u8>, e: Endianness) -> Option<(EntityId, int)> { leaf_dec::<EntityId>(b, e) }
    #[verifier::external_body]
    fn read_from(reader: &mut DReader) -> (r: Result<Self, SpeedyError>) { unimplemented!() }
}
impl DReadable for SequenceNumber {
    type W = SequenceNumber;
    open spec fn w(&self) -> SequenceNumber { *self }
    open spec fn dec(b: Seq<u8>, e: Endianness) -> Option<(SequenceNumber, int)> { leaf_dec::<SequenceNumber>(b, e) }
    #[verifier::external_body]
    fn read_from(reader: &mut DReader) -> (r: Result<Self, SpeedyError>) { unimplemented!() }
}
impl DReadable for FragmentNumber {
    type W = FragmentNumber;
    open spec fn w(&self) -> FragmentNumber { *self }
    open spec fn dec(b: Seq<u8>, e: Endianness) -> Option<(FragmentNumber, int)> { leaf_dec::<FragmentNumber>(b, e) }
    #[verifier::external_body]
    fn read_from(reader: &mut DReader) -> (r: Result<Self, SpeedyError>) { unimplemented!() }
}
impl DReadable for u32 {
    type W = u32;
    open spec fn w(&self) -> u32 { *self }
    open spec fn dec(b: Seq<u8>, e: Endianness) -> Option<(u32, int)> { leaf_dec::<u32>(b, e) }
    #[verifier::external_body]
    fn read_from(reader: &mut DReader) -> (r: Result<Self, SpeedyError>) { unimplemented!() }
}
impl FWritable for u32 {
    open spec fn wire(&self, ctx: Endianness) -> Seq<u8> { self.to_bytes(ctx) }
    #[verifier::external_body]
    fn write_to(&self, writer: &mut FWriter) -> (r: Result<(), SpeedyError>) { unimplemented!() }
}
impl FWritable for EntityId {
    open spec fn wire(&self, ctx: Endianness) -> Seq<u8> { self.to_bytes(ctx) }
    #[verifier::external_body]
    fn write_to(&self, writer: &mut FWriter) -> (r: Result<(), SpeedyError>) { unimplemented!() }
}
impl FWritable for SequenceNumber {
    open spec fn wire(&self, ctx: Endianness) -> Seq<u8> { self.to_bytes(ctx) }
    #[verifier::external_body]
    fn write_to(&self, writer: &mut FWriter) -> (r: Result<(), SpeedyError>) { unimplemented!() }
}
impl FWritable for FragmentNumber {
    open spec fn wire(&self, ctx: Endianness) -> Seq<u8> { self.to_bytes(ctx) }
    #[verifier::external_body]
    fn write_to(&self, writer: &mut FWriter) -> (r: Result<(), SpeedyError>) { unimplemented!() }
}

// ---- bytes::Bytes: `impl Deref<Target = [u8]> for Bytes` (the writers hand `&Bytes` to write_bytes) ----
impl core::ops::Deref for Bytes {
    type Target = [u8];
    #[verifier::external_body]
    fn deref(&self) -> (r: &[u8]) ensures r@ == self@ { unimplemented!() }
}
