// ---------------------------------------------------------------------------------------------
// structure/guid.rs : GuidPrefix, EntityKind, EntityId, GUID (extracted).  R2 template impls:
// PartialEq/Eq are structural equality (the definition of the derive).  Ord is left
// uninterpreted here (some total order consistent with Eq): units that use order-dependent map
// operations on GUID keys must bring their own lexicographic spec.
// ---------------------------------------------------------------------------------------------
@@extract struct src/structure/guid.rs GuidPrefix derive=Clone,Copy
@@extract struct src/structure/guid.rs EntityKind derive=Clone,Copy
@@extract struct src/structure/guid.rs EntityId derive=Clone,Copy
@@extract struct src/structure/guid.rs GUID derive=Clone,Copy

impl PartialEqSpecImpl for GuidPrefix {
    open spec fn obeys_eq_spec() -> bool { true }
    open spec fn eq_spec(&self, other: &Self) -> bool { *self == *other }
}
impl PartialEq for GuidPrefix { #[verifier::external_body] fn eq(&self, other: &Self) -> (r: bool) { self.bytes == other.bytes } }
impl Eq for GuidPrefix {}
impl PartialEqSpecImpl for EntityKind {
    open spec fn obeys_eq_spec() -> bool { true }
    open spec fn eq_spec(&self, other: &Self) -> bool { self.0 == other.0 }
}
impl PartialEq for EntityKind { fn eq(&self, other: &Self) -> (r: bool) { self.0 == other.0 } }
impl Eq for EntityKind {}
impl PartialEqSpecImpl for EntityId {
    open spec fn obeys_eq_spec() -> bool { true }
    open spec fn eq_spec(&self, other: &Self) -> bool { *self == *other }
}
impl PartialEq for EntityId { #[verifier::external_body] fn eq(&self, other: &Self) -> (r: bool) { self.entity_key == other.entity_key && self.entity_kind == other.entity_kind } }
impl Eq for EntityId {}
impl PartialEqSpecImpl for GUID {
    open spec fn obeys_eq_spec() -> bool { true }
    open spec fn eq_spec(&self, other: &Self) -> bool { *self == *other }
}
impl PartialEq for GUID { #[verifier::external_body] fn eq(&self, other: &Self) -> (r: bool) { self.prefix == other.prefix && self.entity_id == other.entity_id } }
impl Eq for GUID {}
impl PartialOrd for GUID { #[verifier::external_body] fn partial_cmp(&self, other: &Self) -> (r: Option<Ordering>) { unimplemented!() } }
impl Ord for GUID { #[verifier::external_body] fn cmp(&self, other: &Self) -> (r: Ordering) { unimplemented!() } }

impl EntityKind {
@@extract const src/structure/guid.rs EntityKind::READER_WITH_KEY_BUILT_IN
@@extract fn src/structure/guid.rs EntityKind::is_user_defined
@@end
}
impl EntityId {
@@extract const src/structure/guid.rs EntityId::SPDP_BUILTIN_PARTICIPANT_READER
}
impl GUID {
@@extract fn src/structure/guid.rs GUID::new_with_prefix_and_id
@@ret r
@@ensures guid.new
    r.prefix == prefix, r.entity_id == entity_id
@@end
}
