// ---------------------------------------------------------------------------------------------
// Unit leases — time.
// (1) SHIM (assumed, trusted): std::time::Instant / std::time::Duration, used as the REAL std types
//     through assumed one-line specifications.  Model: an Instant is a number of nanoseconds on an abstract
//     time line (`instant_ns`); `duration_since` is saturating subtraction (std: "returns a zero
//     duration if `earlier` is later than `self`"); a std Duration is (whole seconds, sub-second
//     nanoseconds < 10^9).  `Instant::now()` returns an otherwise unconstrained value marked
//     `clock_reading` (uninterpreted): nothing is assumed about how fast or whether the clock
//     advances, so every contract holds for every behaviour of a monotone clock.  A function can
//     only establish `clock_reading(x)` by obtaining x from `Instant::now()` during the call.
// (2) structure/duration.rs: Duration (extracted) with R2 template impls for the derives
//     (PartialEq/Eq/PartialOrd/Ord = lexicographic on (seconds, fraction)); `ticks()` is the
//     abstract value in units of 2^-32 s; lemma_duration_order: derived order == tick order.
// ---------------------------------------------------------------------------------------------
#[verifier::external_type_specification]
#[verifier::external_body]
pub struct ExInstant(Instant);

pub uninterp spec fn instant_ns(i: Instant) -> nat;
pub uninterp spec fn clock_reading(i: Instant) -> bool;
pub uninterp spec fn std_secs(d: std::time::Duration) -> nat;
pub uninterp spec fn std_nanos(d: std::time::Duration) -> nat;

pub spec const NANOS_PER_SEC: int = 1_000_000_000;
pub spec const TICKS_PER_SEC: int = 0x1_0000_0000;

// nanoseconds of silence between a life sign at `last` and a clock reading `now`
pub open spec fn silence_ns(now: Instant, last: Instant) -> int {
    if instant_ns(now) >= instant_ns(last) { instant_ns(now) - instant_ns(last) } else { 0 }
}
// the same in RTPS Duration ticks (2^-32 s), rounded down to a whole tick
pub open spec fn ns_to_ticks(n: int) -> int {
    (n / NANOS_PER_SEC) * TICKS_PER_SEC + ((n % NANOS_PER_SEC) * TICKS_PER_SEC) / NANOS_PER_SEC
}
pub open spec fn silence_ticks(now: Instant, last: Instant) -> int { ns_to_ticks(silence_ns(now, last)) }
pub open spec fn std_ticks(d: std::time::Duration) -> int {
    std_secs(d) * TICKS_PER_SEC + (std_nanos(d) * TICKS_PER_SEC) / NANOS_PER_SEC
}

pub assume_specification[ Instant::now ]() -> (r: Instant)
    ensures clock_reading(r);
pub assume_specification[ Instant::duration_since ](a: &Instant, earlier: Instant) -> (r: std::time::Duration)
    ensures std_secs(r) == silence_ns(*a, earlier) / NANOS_PER_SEC,
            std_nanos(r) == silence_ns(*a, earlier) % NANOS_PER_SEC;
pub assume_specification[ std::time::Duration::from_secs ](s: u64) -> (r: std::time::Duration)
    ensures std_secs(r) == s, std_nanos(r) == 0;
pub assume_specification[ std::time::Duration::as_secs ](d: &std::time::Duration) -> (r: u64)
    ensures r == std_secs(*d);
pub assume_specification[ std::time::Duration::subsec_nanos ](d: &std::time::Duration) -> (r: u32)
    ensures r == std_nanos(*d), r < 1_000_000_000;

// std one-liner missing from vstd: the lossless widening u32 -> i64
pub assume_specification[ <i64 as From<u32>>::from ](v: u32) -> (r: i64)
    ensures r == v as i64;

@@extract struct src/structure/duration.rs Duration derive=Clone,Copy

impl Duration {
    // abstract value: 2^-32 s ticks
    pub open spec fn ticks(self) -> int { self.seconds as int * TICKS_PER_SEC + self.fraction as int }
    pub open spec fn spec_from_ticks(t: int) -> Duration {
        Duration { seconds: (t / TICKS_PER_SEC) as i32, fraction: (t % TICKS_PER_SEC) as u32 }
    }
    pub open spec fn lex(&self, other: &Self) -> Ordering {
        if self.seconds < other.seconds { Ordering::Less } else if self.seconds > other.seconds { Ordering::Greater }
        else if self.fraction < other.fraction { Ordering::Less } else if self.fraction > other.fraction { Ordering::Greater }
        else { Ordering::Equal }
    }
}
impl PartialEqSpecImpl for Duration {
    open spec fn obeys_eq_spec() -> bool { true }
    open spec fn eq_spec(&self, other: &Self) -> bool { self.seconds == other.seconds && self.fraction == other.fraction }
}
impl PartialEq for Duration { fn eq(&self, other: &Self) -> (r: bool) { self.seconds == other.seconds && self.fraction == other.fraction } }
impl Eq for Duration {}
impl PartialOrdSpecImpl for Duration {
    open spec fn obeys_partial_cmp_spec() -> bool { true }
    open spec fn partial_cmp_spec(&self, other: &Self) -> Option<Ordering> { Some(self.lex(other)) }
}
impl PartialOrd for Duration {
    fn partial_cmp(&self, other: &Self) -> (r: Option<Ordering>) {
        if self.seconds < other.seconds { Some(Ordering::Less) } else if self.seconds > other.seconds { Some(Ordering::Greater) }
        else if self.fraction < other.fraction { Some(Ordering::Less) } else if self.fraction > other.fraction { Some(Ordering::Greater) }
        else { Some(Ordering::Equal) }
    }
}
impl OrdSpecImpl for Duration {
    open spec fn obeys_cmp_spec() -> bool { true }
    open spec fn cmp_spec(&self, other: &Self) -> Ordering { self.lex(other) }
}
impl Ord for Duration {
    fn cmp(&self, other: &Self) -> (r: Ordering) {
        if self.seconds < other.seconds { Ordering::Less } else if self.seconds > other.seconds { Ordering::Greater }
        else if self.fraction < other.fraction { Ordering::Less } else if self.fraction > other.fraction { Ordering::Greater }
        else { Ordering::Equal }
    }
}
// the derived (lexicographic) order is the order of the abstract tick values
pub proof fn lemma_duration_order(a: Duration, b: Duration)
    ensures
        (a.lex(&b) == Ordering::Less) <==> a.ticks() < b.ticks(),
        (a.lex(&b) == Ordering::Equal) <==> a.ticks() == b.ticks(),
        (a.lex(&b) == Ordering::Greater) <==> a.ticks() > b.ticks(),
        i64::MIN <= a.ticks() <= i64::MAX,
{
}

// bit-vector facts behind to_ticks / from_ticks / from(std Duration)
pub proof fn lemma_shl32_i64(s: i64)
    requires -0x8000_0000 <= s < 0x8000_0000
    ensures (s << 32) == s * 0x1_0000_0000
{
    assert((s << 32) == mul32_i64(s)) by (bit_vector) requires -0x8000_0000 <= s < 0x8000_0000;
}
pub open spec fn mul32_i64(s: i64) -> i64 { (s * 0x1_0000_0000) as i64 }
pub proof fn lemma_shr32_i64(t: i64)
    ensures -0x8000_0000 <= (t >> 32) < 0x8000_0000,
            t == (t >> 32) * 0x1_0000_0000 + ((t as u32) as int),
            (t >> 32) == (t as int) / 0x1_0000_0000, ((t as u32) as int) == (t as int) % 0x1_0000_0000,
{
    assert(-0x8000_0000 <= (t >> 32) < 0x8000_0000) by (bit_vector);
    let hi = t >> 32;
    let lo = t as u32;
    assert(t == ((hi * 0x1_0000_0000) as i64 + (lo as i64)) as i64) by (bit_vector) requires hi == t >> 32, lo == t as u32;
}
pub proof fn lemma_shl32_u64()
    ensures forall|x: u64| x < 0x1_0000_0000 ==> #[trigger] (x << 32) == x * 0x1_0000_0000
{
    assert forall|x: u64| x < 0x1_0000_0000 implies #[trigger] (x << 32) == x * 0x1_0000_0000 by {
        assert((x << 32) == mul32_u64(x)) by (bit_vector) requires x < 0x1_0000_0000;
    }
}
pub open spec fn mul32_u64(x: u64) -> u64 { (x * 0x1_0000_0000) as u64 }

impl Duration {
@@extract fn src/structure/duration.rs Duration::from_secs
@@ret r
@@ensures lease.duration.from_secs
    r.ticks() == secs as int * TICKS_PER_SEC, r.seconds == secs, r.fraction == 0
@@end

@@extract fn src/structure/duration.rs Duration::to_ticks
@@ret r
@@ensures lease.duration.ticks
    r == self.ticks()
@@body_start
    proof { lemma_shl32_i64(self.seconds as i64); }
@@end

@@extract fn src/structure/duration.rs Duration::from_ticks
@@ret r
@@ensures lease.duration.ticks
    r.ticks() == ticks, r == Duration::spec_from_ticks(ticks as int)
@@body_start
    proof { lemma_shr32_i64(ticks); }
@@end

@@extract fn src/structure/duration.rs Duration::from_std
@@ret r
@@ensures lease.duration.from_std
    std_secs(duration) < 0x8000_0000 ==> r.ticks() == std_ticks(duration)
@@end
}

impl FromSpecImpl<std::time::Duration> for Duration {
    // the value-level spec is the labelled postcondition on `from` below (it needs the range
    // hypothesis valid.lease.elapsed); no unconditional from_spec is claimed
    open spec fn obeys_from_spec() -> bool { false }
    open spec fn from_spec(v: std::time::Duration) -> Self { arbitrary() }
}
impl From<std::time::Duration> for Duration {
@@extract fn src/structure/duration.rs "From<std::time::Duration> for Duration::from"
@@nopub
@@ret r
@@ensures lease.duration.from_std
    std_secs(duration) < 0x8000_0000 ==> r.ticks() == std_ticks(duration)
@@body_start
    proof { lemma_shl32_u64(); }
@@end
}

impl AddSpecImpl<Duration> for Duration {
    open spec fn obeys_add_spec() -> bool { true }
    // the i64 tick addition inside `add` must not overflow
    open spec fn add_req(self, rhs: Duration) -> bool { i64::MIN <= self.ticks() + rhs.ticks() <= i64::MAX }   // [valid.lease.add]
    open spec fn add_spec(self, rhs: Duration) -> Duration { Duration::spec_from_ticks(self.ticks() + rhs.ticks()) }
}
impl core::ops::Add for Duration {
    type Output = Self;
@@extract fn src/structure/duration.rs "std::ops::Add for Duration::add"
@@nopub
@@end
}
pub proof fn lemma_spec_from_ticks(t: int)
    requires i64::MIN <= t <= i64::MAX
    ensures Duration::spec_from_ticks(t).ticks() == t
{
}
