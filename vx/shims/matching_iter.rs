// ---------------------------------------------------------------------------------------------
// SHIM (assumed contract, trusted): the iterator adapters `participant_lost` / `contains_writer`
// use on a BTreeMap range:  Range::map(closure).collect::<Vec<_>>()  and  Iter::any(closure).
// (same contract as the one unit writer_proxy states for `missing_seqnums`)
// ---------------------------------------------------------------------------------------------
impl<'a, K, V> BRange<'a, K, V> {
    #[verifier::external_body]
    pub fn map<T, F: Fn((&'a K, &'a V)) -> T>(self, f: F) -> (r: MappedRange<T>)
        requires forall|k: &'a K, v: &'a V| f.requires(((k, v),)),
        ensures r.items().len() == self.rem().len(),
                forall|i: int| 0 <= i < self.rem().len() ==> f.ensures(((&self.rem()[i].0, &self.rem()[i].1),), #[trigger] r.items()[i]),
    { unimplemented!() }

    // std: "Tests if any element of the iterator matches a predicate" (short-circuiting; the
    // closures it is used with here are pure)
    #[verifier::external_body]
    pub fn any<F: Fn((&'a K, &'a V)) -> bool>(&mut self, f: F) -> (r: bool)
        requires forall|k: &'a K, v: &'a V| f.requires(((k, v),)),
        ensures r ==> exists|i: int| 0 <= i < old(self).rem().len() && f.ensures(((&old(self).rem()[i].0, &old(self).rem()[i].1),), true),
                !r ==> forall|i: int| 0 <= i < old(self).rem().len() ==> f.ensures(((&#[trigger] old(self).rem()[i].0, &old(self).rem()[i].1),), false),
    { unimplemented!() }
}
#[verifier::external_body]
#[verifier::reject_recursive_types(T)]
pub struct MappedRange<T> { v: Vec<T> }
impl<T> MappedRange<T> {
    pub uninterp spec fn items(&self) -> Seq<T>;
    #[verifier::external_body]
    pub fn collect(self) -> (r: Vec<T>) ensures r@ == self.items() { unimplemented!() }
    // Iterator::next on the mapped range: the first remaining item, if any (kept so that a change which takes
    // only the FIRST item instead of collecting all is judged on its text; seed C12g)
    #[verifier::external_body]
    pub fn next(&mut self) -> (r: Option<T>)
        ensures old(self).items().len() == 0 ==> r is None && final(self).items() == old(self).items(),
                old(self).items().len() > 0 ==> r == Some(old(self).items()[0]) && final(self).items() == old(self).items().skip(1),
    { unimplemented!() }
}
