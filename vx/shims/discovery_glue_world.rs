// ---------------------------------------------------------------------------------------------
// Unit discovery_glue — SHIM / STUBS (assumed, trusted): everything the discovery thread reaches
// through interior mutability (`&self` channels, the `Arc<RwLock<DiscoveryDB>>`, the DDS reader's
// cache) is made explicit as ONE ghost object `World`, handed to the code as an erased
// `Tracked<&mut World>` argument (added by @@subst at the signature and at each call; ghost
// arguments do not exist at run time, so the executable text is the text of /repo).
//
//   scopes   one entry (state seen, state left) per write-lock scope on the DiscoveryDB opened by
//            the code under contract, in order.  R14: the state seen at lock() is ARBITRARY — nothing
//            about what this or any other thread left there is assumed, except the lock invariant
//            wf() (unit leases: established by update_participant, preserved by every function
//            there) and the arithmetic validity assumption elapsed_in_range() (valid.lease.elapsed).
//   out      everything that leaves the discovery thread, in program order: notifications to the
//            dp_event_loop thread, status events to the application, the re-reads of the SEDP
//            readers (stubs) with the argument they were called with, and a marker DbScope for each
//            write-lock scope (so that "DB first, then tell the others" is part of the trace).
//   spdp_in  what the DCPSParticipant reader will answer to the next take_next_sample() calls: an
//            arbitrary finite sequence of results (samples, Ok(None), errors in any order).
//   live_in  the prefixes queued on the spdp_liveness channel (sent by MessageReceiver for each
//            received SPDP DATA), in order.
// ---------------------------------------------------------------------------------------------
pub enum Out {
    Notify(DiscoveryNotificationType),
    Status(DomainParticipantStatusEvent),
    RereadTopics(Option<GuidPrefix>),
    RereadSubscriptions(Option<GuidPrefix>),
    RereadPublications(Option<GuidPrefix>),
    CleanupTimerSet,
    DbScope,          // a write-lock scope on the DiscoveryDB was opened (and closed before the next entry: the guard borrows the World)
}
pub type SpdpTake = Result<Option<DataSample<SpdpDiscoveredParticipantData>>, ReadError>;

pub tracked struct World {
    pub ghost scopes: Seq<(DiscoveryDB, DiscoveryDB)>,
    pub ghost out: Seq<Out>,
    pub ghost spdp_in: Seq<SpdpTake>,
    pub ghost live_in: Seq<GuidPrefix>,
}

// ---- placeholders (R9): values that are only moved ----
#[verifier::external_body] pub struct TopicData { opaque: u8 }
#[verifier::external_body] pub struct EndpointDescription { opaque: u8 }
#[verifier::external_body] pub struct QosPolicies { opaque: u8 }
#[verifier::external_body] pub struct ReadError { opaque: u8 }
#[verifier::external_body] pub struct DbHandle { opaque: u8 }            // Arc<RwLock<DiscoveryDB>>
#[verifier::external_body] pub struct LivenessReceiver { opaque: u8 }    // mio_channel::Receiver<GuidPrefix>
#[verifier::external_body] pub struct TryRecvError { opaque: u8 }
#[verifier::external_body] pub struct SpdpReader { opaque: u8 }          // DataReaderPlCdr<SpdpDiscoveredParticipantData>
#[verifier::external_body] pub struct CleanupTimer { opaque: u8 }        // mio_extras Timer<()>
pub struct SpdpTopicHandle { pub reader: SpdpReader }                    // with_key::DiscoveryTopicPlCdr<..>, field `reader`

// `impl Keyed for SpdpDiscoveredParticipantData { type K = Participant_GUID; }` (spdp_participant_data.rs)
pub trait Keyed { type K; }
impl Keyed for SpdpDiscoveredParticipantData { type K = Participant_GUID; }

// STUB (R14): write-lock acquisition.  The returned `&mut DiscoveryDB` stands for the
// RwLockWriteGuard (DerefMut); `*final(g)` is the state when the guard is dropped.
#[verifier::external_body]
pub fn discovery_db_write<'a>(Tracked(w): Tracked<&'a mut World>, discovery_db: &'a DbHandle) -> (g: &'a mut DiscoveryDB)
    ensures
        g.wf(), g.elapsed_in_range(),
        final(w).scopes == old(w).scopes.push((*g, *final(g))),
        final(w).out == old(w).out.push(Out::DbScope), final(w).spdp_in == old(w).spdp_in, final(w).live_in == old(w).live_in,
{ unimplemented!() }

impl SpdpReader {
    // STUB: the reader yields an arbitrary finite sequence of results
    #[verifier::external_body]
    pub fn take_next_sample(&mut self, Tracked(w): Tracked<&mut World>) -> (r: SpdpTake)
        ensures
            old(w).spdp_in.len() == 0 ==> (r matches Ok(None)) && *final(w) == *old(w),
            old(w).spdp_in.len() > 0 ==> r == old(w).spdp_in[0] && final(w).spdp_in == old(w).spdp_in.skip(1)
                && final(w).scopes == old(w).scopes && final(w).out == old(w).out && final(w).live_in == old(w).live_in,
    { unimplemented!() }
}
impl LivenessReceiver {
    // STUB: mio_channel::Receiver::try_recv — Err(Empty | Disconnected) when nothing is queued
    #[verifier::external_body]
    pub fn try_recv(&self, Tracked(w): Tracked<&mut World>) -> (r: Result<GuidPrefix, TryRecvError>)
        ensures
            old(w).live_in.len() == 0 ==> r is Err && *final(w) == *old(w),
            old(w).live_in.len() > 0 ==> r is Ok && r->Ok_0 == old(w).live_in[0] && final(w).live_in == old(w).live_in.skip(1)
                && final(w).scopes == old(w).scopes && final(w).out == old(w).out && final(w).spdp_in == old(w).spdp_in,
    { unimplemented!() }
}
impl CleanupTimer {
    #[verifier::external_body]
    pub fn set_timeout(&mut self, Tracked(w): Tracked<&mut World>, d: StdDuration, state: ())
        ensures final(w).out == old(w).out.push(Out::CleanupTimerSet), final(w).out.drop_last() == old(w).out,
                final(w).scopes == old(w).scopes, final(w).spdp_in == old(w).spdp_in, final(w).live_in == old(w).live_in,
    { unimplemented!() }
}
