// ---------------------------------------------------------------------------------------------
// SHIM (assumed contract, trusted): std::collections::BTreeSet<K>; view: Set<K>.
// Plus the iterator-adapter chain `BTreeMap::iter().filter_map(f).collect::<BTreeSet<_>>()`,
// generic in the closure (its `requires`/`ensures`), as BRange::map in units/writer_proxy.
// Nothing here is proved: each contract is the *assumed* specification of the standard library.
// ---------------------------------------------------------------------------------------------
pub open spec fn set_is_empty<K>(s: Set<K>) -> bool { forall|k: K| !s.contains(k) }

#[verifier::external_body]
#[verifier::reject_recursive_types(K)]
pub struct BTreeSet<K> { inner: std::collections::BTreeSet<K> }

impl<K> View for BTreeSet<K> { type V = Set<K>; uninterp spec fn view(&self) -> Set<K>; }

impl<K: Ord> BTreeSet<K> {
    #[verifier::external_body]
    pub fn new() -> (r: Self) ensures set_is_empty(r@) { unimplemented!() }

    #[verifier::external_body]
    pub fn insert(&mut self, k: K) -> (r: bool)
        ensures final(self)@ == old(self)@.insert(k), r == !old(self)@.contains(k),
    { unimplemented!() }

    #[verifier::external_body]
    pub fn remove(&mut self, k: &K) -> (r: bool)
        ensures final(self)@ == old(self)@.remove(*k), r == old(self)@.contains(*k),
    { unimplemented!() }

    #[verifier::external_body]
    pub fn contains(&self, k: &K) -> (r: bool)
        ensures r == self@.contains(*k),
    { unimplemented!() }

    #[verifier::external_body]
    pub fn is_empty(&self) -> (r: bool)
        ensures r == set_is_empty(self@),
    { unimplemented!() }

    #[verifier::external_body]
    pub fn len(&self) -> (r: usize)
        ensures self@.finite(), r == self@.len(),
    { unimplemented!() }
}

// `.filter_map(f)` on the entry iterator of a BTreeMap: one Option<T> per remaining entry, each
// related to its entry by the closure's own postcondition (nothing is assumed about `f`)
#[verifier::external_body]
#[verifier::reject_recursive_types(T)]
pub struct FilterMapped<T> { v: Vec<Option<T>> }

impl<'a, K, V> BRange<'a, K, V> {
    #[verifier::external_body]
    pub fn filter_map<T, F: Fn((&'a K, &'a V)) -> Option<T>>(self, f: F) -> (r: FilterMapped<T>)
        requires forall|k: &'a K, v: &'a V| f.requires(((k, v),)),
        ensures r.items().len() == self.rem().len(),
                forall|i: int| #![trigger r.items()[i]] #![trigger self.rem()[i]]
                    0 <= i < self.rem().len() ==> f.ensures(((&self.rem()[i].0, &self.rem()[i].1),), r.items()[i]),
    { unimplemented!() }
}

impl<T> FilterMapped<T> {
    pub uninterp spec fn items(&self) -> Seq<Option<T>>;
}
impl<T: Ord> FilterMapped<T> {
    // `.collect::<BTreeSet<T>>()`: exactly the `Some` items
    #[verifier::external_body]
    pub fn collect(self) -> (r: BTreeSet<T>)
        ensures
            forall|i: int| 0 <= i < self.items().len() && (#[trigger] self.items()[i]).is_some() ==> r@.contains(self.items()[i].unwrap()),
            forall|x: T| #[trigger] r@.contains(x) ==> exists|i: int| 0 <= i < self.items().len() && self.items()[i] == Some(x),
    { unimplemented!() }
}
