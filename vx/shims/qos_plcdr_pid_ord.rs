// R2 template impls for `#[derive(PartialEq, Eq, PartialOrd, Ord)]` on ParameterId { value: u16 }
// (needed because ParameterId is the key of the BTreeMap shim)
impl PartialEqSpecImpl for ParameterId {
    open spec fn obeys_eq_spec() -> bool { true }
    open spec fn eq_spec(&self, other: &Self) -> bool { self.value == other.value }
}
impl PartialEq for ParameterId { fn eq(&self, other: &Self) -> (r: bool) { self.value == other.value } }
impl Eq for ParameterId {}
impl PartialOrdSpecImpl for ParameterId {
    open spec fn obeys_partial_cmp_spec() -> bool { true }
    open spec fn partial_cmp_spec(&self, other: &Self) -> Option<Ordering> {
        if self.value < other.value { Some(Ordering::Less) } else if self.value == other.value { Some(Ordering::Equal) } else { Some(Ordering::Greater) }
    }
}
impl PartialOrd for ParameterId {
    fn partial_cmp(&self, other: &Self) -> (r: Option<Ordering>) {
        if self.value < other.value { Some(Ordering::Less) } else if self.value == other.value { Some(Ordering::Equal) } else { Some(Ordering::Greater) }
    }
}
impl OrdSpecImpl for ParameterId {
    open spec fn obeys_cmp_spec() -> bool { true }
    open spec fn cmp_spec(&self, other: &Self) -> Ordering {
        if self.value < other.value { Ordering::Less } else if self.value == other.value { Ordering::Equal } else { Ordering::Greater }
    }
}
impl Ord for ParameterId {
    fn cmp(&self, other: &Self) -> (r: Ordering) {
        if self.value < other.value { Ordering::Less } else if self.value == other.value { Ordering::Equal } else { Ordering::Greater }
    }
}
