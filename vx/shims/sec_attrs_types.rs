// ---------------------------------------------------------------------------------------------
// Types for unit sec_attrs (C17, governance document -> security attributes).
// The attribute structs are the SAME extractions as in shims/gating_plugins.rs
// (EndpointSecurityAttributes / ParticipantSecurityAttributes of security/access_control/types.rs):
// their fields is_rtps_protected / is_submessage_protected / is_payload_protected are what the
// contracts gate.sets.* of register_local_participant / _reader / _writer (unit gating) read.
// Here TopicSecurityAttributes and the plugin mask are extracted too (gating keeps them opaque).
// ---------------------------------------------------------------------------------------------
pub type PermissionsHandle = u32;
#[verifier::external_body] pub struct SecurityError { msg: String }
pub type SecurityResult<T> = std::result::Result<T, SecurityError>;
// what the macro create_security_error_and_log!(..) (security/types.rs: log::error! + SecurityError{msg: format!(..)})
// evaluates to: some SecurityError (the macro_rules shim at the top of the unit expands to this call)
#[verifier::external_body] pub fn verif_security_error() -> SecurityError { unimplemented!() }
#[verifier::external_body] pub struct Property { p: u8 }                       // security::types::Property
#[verifier::external_body] pub struct GlobPattern { p: u8 }                    // glob::Pattern (topic_expression)

@@extract struct src/security/types.rs PluginSecurityAttributesMask
pub type PluginParticipantSecurityAttributesMask = PluginSecurityAttributesMask;   // security/types.rs (aliases)
pub type PluginEndpointSecurityAttributesMask = PluginSecurityAttributesMask;

@@extract struct src/security/access_control/types.rs TopicSecurityAttributes
@@extract struct src/security/access_control/types.rs EndpointSecurityAttributes
@@extract struct src/security/access_control/types.rs ParticipantSecurityAttributes

// governance document (9.4.1.2): the parsed rules.  nth=0: the top-level structs (a second pair of
// the same names in `mod xml` mirrors the XSD and is only the parser's input)
@@extract enum src/security/access_control/access_control_builtin/domain_governance_document.rs ProtectionKind derive=Clone,Copy
@@extract enum src/security/access_control/access_control_builtin/domain_governance_document.rs BasicProtectionKind derive=Clone,Copy
@@extract struct src/security/access_control/access_control_builtin/domain_governance_document.rs TopicRule nth=0 opaque=topic_expression:GlobPattern
@@extract struct src/security/access_control/access_control_builtin/domain_governance_document.rs DomainRule nth=0 keep=allow_unauthenticated_participants,enable_join_access_control,discovery_protection_kind,liveliness_protection_kind,rtps_protection_kind,topic_access_rules

// builtin plugin attributes (9.4.2.3 / 9.4.2.5) and their mask bits (Tables 60 / 62)
@@extract struct src/security/access_control/access_control_builtin/types.rs BuiltinPluginParticipantSecurityAttributes
@@extract struct src/security/access_control/access_control_builtin/types.rs BuiltinPluginEndpointSecurityAttributes
@@extract enum src/security/access_control/access_control_builtin/types.rs BuiltinPluginParticipantSecurityAttributesMaskFlags repr=keep derive=Clone,Copy
@@extract enum src/security/access_control/access_control_builtin/types.rs BuiltinPluginEndpointSecurityAttributesMaskFlags repr=keep derive=Clone,Copy

@@extract struct src/security/access_control/access_control_builtin.rs AccessControlBuiltin keep=domain_rules

// --- enumflags2::BitFlags<T> over a `#[bitflags] #[repr(u32)]` enum: a u32 whose set bits are the
// inserted flags.  `flag_bits` is what the #[bitflags] derive stands for (R2): the discriminant.
pub trait BitFlagU32: Sized { spec fn flag_bits(self) -> u32; }
impl BitFlagU32 for BuiltinPluginParticipantSecurityAttributesMaskFlags { open spec fn flag_bits(self) -> u32 { self as u32 } }
impl BitFlagU32 for BuiltinPluginEndpointSecurityAttributesMaskFlags { open spec fn flag_bits(self) -> u32 { self as u32 } }
#[verifier::external_body]
#[verifier::reject_recursive_types(T)]
pub struct BitFlags<T> { _p: core::marker::PhantomData<T>, v: u32 }
impl<T: BitFlagU32> BitFlags<T> {
    pub uninterp spec fn raw(&self) -> u32;
    #[verifier::external_body]
    pub fn from_flag(f: T) -> (r: Self) ensures r.raw() == f.flag_bits() { unimplemented!() }
    #[verifier::external_body]
    pub fn insert(&mut self, f: T) ensures final(self).raw() == old(self).raw() | f.flag_bits() { unimplemented!() }
    #[verifier::external_body]
    pub fn bits(self) -> (r: u32) ensures r == self.raw() { unimplemented!() }
}

// --- Result::and_then (the closures carry their own annotations, R6); Result::map and
// Option::ok_or_else have vstd specifications
#[verifier::allow(undeclared_external_trait)]
pub assume_specification<T, E, U, F: FnOnce(T) -> Result<U, E> + core::marker::Destruct>[ Result::<T, E>::and_then ](r: Result<T, E>, op: F) -> (o: Result<U, E>)
    requires r matches Ok(t) ==> op.requires((t,)),
    ensures r matches Ok(t) ==> op.ensures((t,), o), r matches Err(e) ==> o == Err::<U, E>(e);
