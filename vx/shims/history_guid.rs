// ---------------------------------------------------------------------------------------------
// structure/guid.rs : GuidPrefix, EntityKind, EntityId, GUID (extracted) + R2 template impls for
// the derives (Copy, Clone, PartialEq, Eq, PartialOrd, Ord).  derive(Ord) on a struct is the
// lexicographic order of the fields in declaration order; on `[u8; N]` it is the lexicographic
// order of the bytes.  The exec bodies are external_body (they *are* the derive semantics, via
// the std array / integer comparisons); the specs are written out so that key order can be used
// in contracts.  Total-order laws are proved below (lemma_guid_order_*).
// ---------------------------------------------------------------------------------------------
pub open spec fn lex_u8(a: Seq<u8>, b: Seq<u8>) -> Ordering
    decreases a.len()
{
    if a.len() == 0 || b.len() == 0 {
        if a.len() < b.len() { Ordering::Less } else if a.len() == b.len() { Ordering::Equal } else { Ordering::Greater }
    } else if a[0] < b[0] { Ordering::Less }
    else if a[0] > b[0] { Ordering::Greater }
    else { lex_u8(a.skip(1), b.skip(1)) }
}
pub open spec fn then_ord(a: Ordering, b: Ordering) -> Ordering { if a == Ordering::Equal { b } else { a } }

@@extract struct src/structure/guid.rs GuidPrefix derive=Clone,Copy
@@extract struct src/structure/guid.rs EntityKind derive=Clone,Copy
@@extract struct src/structure/guid.rs EntityId derive=Clone,Copy
@@extract struct src/structure/guid.rs GUID derive=Clone,Copy

// ---- GuidPrefix
impl PartialEqSpecImpl for GuidPrefix {
    open spec fn obeys_eq_spec() -> bool { true }
    open spec fn eq_spec(&self, other: &Self) -> bool { self.bytes@ == other.bytes@ }
}
impl PartialEq for GuidPrefix { #[verifier::external_body] fn eq(&self, other: &Self) -> (r: bool) { self.bytes == other.bytes } }
impl Eq for GuidPrefix {}
impl PartialOrdSpecImpl for GuidPrefix {
    open spec fn obeys_partial_cmp_spec() -> bool { true }
    open spec fn partial_cmp_spec(&self, other: &Self) -> Option<Ordering> { Some(lex_u8(self.bytes@, other.bytes@)) }
}
impl PartialOrd for GuidPrefix { #[verifier::external_body] fn partial_cmp(&self, other: &Self) -> (r: Option<Ordering>) { Some(self.bytes.cmp(&other.bytes)) } }
impl OrdSpecImpl for GuidPrefix {
    open spec fn obeys_cmp_spec() -> bool { true }
    open spec fn cmp_spec(&self, other: &Self) -> Ordering { lex_u8(self.bytes@, other.bytes@) }
}
impl Ord for GuidPrefix { #[verifier::external_body] fn cmp(&self, other: &Self) -> (r: Ordering) { self.bytes.cmp(&other.bytes) } }

// ---- EntityKind
impl PartialEqSpecImpl for EntityKind {
    open spec fn obeys_eq_spec() -> bool { true }
    open spec fn eq_spec(&self, other: &Self) -> bool { self.0 == other.0 }
}
impl PartialEq for EntityKind { fn eq(&self, other: &Self) -> (r: bool) { self.0 == other.0 } }
impl Eq for EntityKind {}
pub open spec fn cmp_u8(a: u8, b: u8) -> Ordering { if a < b { Ordering::Less } else if a == b { Ordering::Equal } else { Ordering::Greater } }
impl PartialOrdSpecImpl for EntityKind {
    open spec fn obeys_partial_cmp_spec() -> bool { true }
    open spec fn partial_cmp_spec(&self, other: &Self) -> Option<Ordering> { Some(cmp_u8(self.0, other.0)) }
}
impl PartialOrd for EntityKind {
    fn partial_cmp(&self, other: &Self) -> (r: Option<Ordering>) {
        if self.0 < other.0 { Some(Ordering::Less) } else if self.0 == other.0 { Some(Ordering::Equal) } else { Some(Ordering::Greater) }
    }
}
impl OrdSpecImpl for EntityKind {
    open spec fn obeys_cmp_spec() -> bool { true }
    open spec fn cmp_spec(&self, other: &Self) -> Ordering { cmp_u8(self.0, other.0) }
}
impl Ord for EntityKind {
    fn cmp(&self, other: &Self) -> (r: Ordering) {
        if self.0 < other.0 { Ordering::Less } else if self.0 == other.0 { Ordering::Equal } else { Ordering::Greater }
    }
}

// ---- EntityId  (entity_key, then entity_kind)
impl EntityId {
    pub open spec fn ord_spec(&self, other: &Self) -> Ordering {
        then_ord(lex_u8(self.entity_key@, other.entity_key@), cmp_u8(self.entity_kind.0, other.entity_kind.0))
    }
}
impl PartialEqSpecImpl for EntityId {
    open spec fn obeys_eq_spec() -> bool { true }
    open spec fn eq_spec(&self, other: &Self) -> bool { self.entity_key@ == other.entity_key@ && self.entity_kind.0 == other.entity_kind.0 }
}
impl PartialEq for EntityId { #[verifier::external_body] fn eq(&self, other: &Self) -> (r: bool) { self.entity_key == other.entity_key && self.entity_kind.0 == other.entity_kind.0 } }
impl Eq for EntityId {}
impl PartialOrdSpecImpl for EntityId {
    open spec fn obeys_partial_cmp_spec() -> bool { true }
    open spec fn partial_cmp_spec(&self, other: &Self) -> Option<Ordering> { Some(self.ord_spec(other)) }
}
impl PartialOrd for EntityId {
    #[verifier::external_body]
    fn partial_cmp(&self, other: &Self) -> (r: Option<Ordering>) { Some(self.entity_key.cmp(&other.entity_key).then(self.entity_kind.0.cmp(&other.entity_kind.0))) }
}
impl OrdSpecImpl for EntityId {
    open spec fn obeys_cmp_spec() -> bool { true }
    open spec fn cmp_spec(&self, other: &Self) -> Ordering { self.ord_spec(other) }
}
impl Ord for EntityId {
    #[verifier::external_body]
    fn cmp(&self, other: &Self) -> (r: Ordering) { self.entity_key.cmp(&other.entity_key).then(self.entity_kind.0.cmp(&other.entity_kind.0)) }
}

// ---- GUID  (prefix, then entity_id — "It is important to have guid_prefix first")
impl GUID {
    pub open spec fn ord_spec(&self, other: &Self) -> Ordering {
        then_ord(lex_u8(self.prefix.bytes@, other.prefix.bytes@), self.entity_id.ord_spec(&other.entity_id))
    }
}
impl PartialEqSpecImpl for GUID {
    open spec fn obeys_eq_spec() -> bool { true }
    open spec fn eq_spec(&self, other: &Self) -> bool {
        self.prefix.bytes@ == other.prefix.bytes@ && self.entity_id.entity_key@ == other.entity_id.entity_key@
            && self.entity_id.entity_kind.0 == other.entity_id.entity_kind.0
    }
}
impl PartialEq for GUID {
    #[verifier::external_body]
    fn eq(&self, other: &Self) -> (r: bool) {
        self.prefix.bytes == other.prefix.bytes && self.entity_id.entity_key == other.entity_id.entity_key
            && self.entity_id.entity_kind.0 == other.entity_id.entity_kind.0
    }
}
impl Eq for GUID {}
impl PartialOrdSpecImpl for GUID {
    open spec fn obeys_partial_cmp_spec() -> bool { true }
    open spec fn partial_cmp_spec(&self, other: &Self) -> Option<Ordering> { Some(self.ord_spec(other)) }
}
impl PartialOrd for GUID {
    #[verifier::external_body]
    fn partial_cmp(&self, other: &Self) -> (r: Option<Ordering>) {
        Some(self.prefix.bytes.cmp(&other.prefix.bytes)
            .then(self.entity_id.entity_key.cmp(&other.entity_id.entity_key))
            .then(self.entity_id.entity_kind.0.cmp(&other.entity_id.entity_kind.0)))
    }
}
impl OrdSpecImpl for GUID {
    open spec fn obeys_cmp_spec() -> bool { true }
    open spec fn cmp_spec(&self, other: &Self) -> Ordering { self.ord_spec(other) }
}
impl Ord for GUID {
    #[verifier::external_body]
    fn cmp(&self, other: &Self) -> (r: Ordering) {
        self.prefix.bytes.cmp(&other.prefix.bytes)
            .then(self.entity_id.entity_key.cmp(&other.entity_id.entity_key))
            .then(self.entity_id.entity_kind.0.cmp(&other.entity_id.entity_kind.0))
    }
}

// ---- the lexicographic byte order is a total order (so GUID / EntityId / GuidPrefix keys obey
//      the BTreeMap key-order model)
pub proof fn lemma_lex_u8_refl(a: Seq<u8>)
    ensures lex_u8(a, a) == Ordering::Equal
    decreases a.len()
{
    if a.len() > 0 { lemma_lex_u8_refl(a.skip(1)); }
}
pub proof fn lemma_lex_u8_eq(a: Seq<u8>, b: Seq<u8>)
    requires lex_u8(a, b) == Ordering::Equal
    ensures a =~= b
    decreases a.len()
{
    if a.len() > 0 && b.len() > 0 {
        lemma_lex_u8_eq(a.skip(1), b.skip(1));
        assert forall|i: int| 0 <= i < a.len() implies a[i] == b[i] by {
            if i > 0 { assert(a.skip(1)[i - 1] == b.skip(1)[i - 1]); }
        }
    }
}
pub proof fn lemma_lex_u8_antisym(a: Seq<u8>, b: Seq<u8>)
    ensures (lex_u8(a, b) == Ordering::Less) == (lex_u8(b, a) == Ordering::Greater),
            (lex_u8(a, b) == Ordering::Equal) == (lex_u8(b, a) == Ordering::Equal),
    decreases a.len()
{
    if a.len() > 0 && b.len() > 0 { lemma_lex_u8_antisym(a.skip(1), b.skip(1)); }
}
pub proof fn lemma_lex_u8_trans(a: Seq<u8>, b: Seq<u8>, c: Seq<u8>)
    requires lex_u8(a, b) != Ordering::Greater, lex_u8(b, c) != Ordering::Greater
    ensures lex_u8(a, c) != Ordering::Greater,
            lex_u8(a, c) == Ordering::Equal ==> lex_u8(a, b) == Ordering::Equal && lex_u8(b, c) == Ordering::Equal,
    decreases a.len()
{
    if a.len() > 0 && b.len() > 0 && c.len() > 0 {
        if a[0] == b[0] && b[0] == c[0] { lemma_lex_u8_trans(a.skip(1), b.skip(1), c.skip(1)); }
    }
}
