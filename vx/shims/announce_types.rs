// ---------------------------------------------------------------------------------------------
// SHIM / STUBS (assumed, trusted) of unit announce: the types around the SEDP announcement of a local
// endpoint that are not under contract here.  Placeholders are opaque (R9); every stub's contract is an
// identity on an uninterpreted observer (`sp_*`): "the call returns what the object has", nothing more.
// ---------------------------------------------------------------------------------------------
// structure/locator.rs Locator, discovery/content_filter_property.rs ContentFilterProperty,
// no_security.rs / security EndpointSecurityInfo: only moved around here
#[verifier::external_body] pub struct Locator { opaque: u8 }
#[verifier::external_body] pub struct ContentFilterProperty { opaque: u8 }
#[verifier::external_body] pub struct EndpointSecurityInfo { opaque: u8 }
// std::time::Instant (DiscoveredWriterData.last_updated, "not serialized"); Instant::now() -> instant_now()
#[verifier::external_body] pub struct InstantOpaque { opaque: u8 }
#[verifier::external_body] pub fn instant_now() -> InstantOpaque { unimplemented!() }
// chrono::DateTime<Utc> (DiscoveredTopicData.updated_time, "never serialized"); Utc::now() -> utc_now()
#[verifier::external_body] pub struct DateTimeUtc { opaque: u8 }
#[verifier::external_body] pub fn utc_now() -> DateTimeUtc { unimplemented!() }

// dds/topic.rs Topic (Arc<InnerTopic>): immutable after creation; name() / get_type() / qos() return
// (clones of) what it was created with
#[verifier::external_body] pub struct Topic { opaque: u8 }
impl Topic {
    pub uninterp spec fn sp_name(&self) -> Seq<char>;
    pub uninterp spec fn sp_type(&self) -> TypeDesc;
    pub uninterp spec fn sp_qos(&self) -> QosPolicies;
    #[verifier::external_body] pub fn name(&self) -> (r: String) ensures r@ == self.sp_name() { unimplemented!() }
    #[verifier::external_body] pub fn get_type(&self) -> (r: TypeDesc) ensures r == self.sp_type() { unimplemented!() }
    // `impl HasQoSPolicy for Topic`
    #[verifier::external_body] pub fn qos(&self) -> (r: QosPolicies) ensures r == self.sp_qos() { unimplemented!() }
}

// dds/participant.rs DomainParticipant: guid() (RTPSEntity), domain_id(), participant_id()
#[verifier::external_body] pub struct DomainParticipant { opaque: u8 }
impl DomainParticipant {
    pub uninterp spec fn sp_guid(&self) -> GUID;
    #[verifier::external_body] pub fn guid(&self) -> (r: GUID) ensures r == self.sp_guid() { unimplemented!() }
    #[verifier::external_body] pub fn domain_id(&self) -> (r: u16) { unimplemented!() }
    #[verifier::external_body] pub fn participant_id(&self) -> (r: u16) { unimplemented!() }
}
// network/constant.rs user_traffic_unicast_port, network/util.rs get_local_unicast_locators: some port, some locators
#[verifier::external_body] pub fn user_traffic_unicast_port(domain_id: u16, participant_id: u16) -> (r: u16) { unimplemented!() }
#[verifier::external_body] pub fn get_local_unicast_locators(port: u16) -> (r: Vec<Locator>) { unimplemented!() }

// dds/with_key/datawriter.rs: the type parameters of DataWriter<D, SA> (sample type, serializer) play no role here
pub trait Keyed {}
pub trait SerializerAdapter<D> {}
#[verifier::external_body] #[verifier::accept_recursive_types(D)] pub struct CDRSerializerAdapter<D> { d: core::marker::PhantomData<D> }
impl<D> SerializerAdapter<D> for CDRSerializerAdapter<D> {}
// R2 template impl: `#[derive(Clone)]` on QosPolicies (every field an Option of a Copy type) = a field-wise copy
impl Clone for QosPolicies { #[verifier::external_body] fn clone(&self) -> (r: Self) ensures r == *self { unimplemented!() } }

// ---- around RtpsReaderProxy::from_reader (rtps/rtps_reader_proxy.rs) -----------------------------
// mio_06::Token (poll tokens are only used as map keys here)
pub struct Token(pub usize);
// DomainParticipant::self_locators() -> HashMap<Token, Vec<Locator>> ("clones a map of locator lists"): whatever
// the participant listens on; HashMap::remove hands out some entry or none (no contract: the locators are not
// part of what is decided here)
#[verifier::external_body] pub struct LocatorMap { opaque: u8 }
impl LocatorMap {
    #[verifier::external_body] pub fn remove(&mut self, k: &Token) -> (r: Option<Vec<Locator>>) { unimplemented!() }
}
impl DomainParticipant {
    #[verifier::external_body] pub fn self_locators(&self) -> (r: LocatorMap) { unimplemented!() }
}
// writer-side bookkeeping of RtpsReaderProxy (unit reader_proxy): created empty / zero, not looked at here
#[verifier::external_body] #[verifier::accept_recursive_types(T)] pub struct BTreeSet<T> { s: std::collections::BTreeSet<T> }
impl<T> BTreeSet<T> { #[verifier::external_body] pub fn new() -> (r: Self) { unimplemented!() } }
#[verifier::external_body] pub struct BitVec { opaque: u8 }
#[verifier::external_body] pub struct SequenceNumber { opaque: i64 }
impl SequenceNumber { #[verifier::external_body] pub fn zero() -> (r: Self) { unimplemented!() } }
impl PartialEq for SequenceNumber { #[verifier::external_body] fn eq(&self, other: &Self) -> (r: bool) { unimplemented!() } }
impl Eq for SequenceNumber {}
impl PartialOrd for SequenceNumber { #[verifier::external_body] fn partial_cmp(&self, other: &Self) -> (r: Option<Ordering>) { unimplemented!() } }
impl Ord for SequenceNumber { #[verifier::external_body] fn cmp(&self, other: &Self) -> (r: Ordering) { unimplemented!() } }
// derive(PartialOrd, Ord) on GuidPrefix: some total order (only used as a BTreeMap key here)
impl PartialOrd for GuidPrefix { #[verifier::external_body] fn partial_cmp(&self, other: &Self) -> (r: Option<Ordering>) { unimplemented!() } }
impl Ord for GuidPrefix { #[verifier::external_body] fn cmp(&self, other: &Self) -> (r: Ordering) { unimplemented!() } }
// derive(Clone, Copy) on Locator
impl Clone for Locator { #[verifier::external_body] fn clone(&self) -> (r: Self) { unimplemented!() } }

// ---- around DPEventLoop::remote_reader_discovered / remote_writer_discovered (rtps/dp_event_loop.rs) ---------
// std HashMap, key snapshots (R22) — same assumed contracts as in unit fanout
#[verifier::external_body]
#[verifier::reject_recursive_types(K)]
#[verifier::reject_recursive_types(V)]
pub struct HashMap<K, V> { inner: std::collections::HashMap<K, V> }
impl<K, V> View for HashMap<K, V> { type V = Map<K, V>; uninterp spec fn view(&self) -> Map<K, V>; }
impl<K, V> HashMap<K, V> {
    #[verifier::external_body]
    pub fn get_mut(&mut self, k: &K) -> (r: Option<&mut V>)
        ensures match r {
            Some(v) => old(self)@.contains_key(*k) && *v == old(self)@[*k] && final(self)@ == old(self)@.insert(*k, *final(v)),
            None => !old(self)@.contains_key(*k) && final(self)@ == old(self)@ },
    { unimplemented!() }
    // R22: the keys, each exactly once, in the (arbitrary) iteration order of the map
    #[verifier::external_body]
    pub fn vx_keys(&self) -> (r: Vec<K>)
        ensures r@.no_duplicates(), forall|k: K| r@.contains(k) <==> self@.contains_key(k),
    { unimplemented!() }
}
impl<K: Ord, V> BTreeMap<K, V> {
    #[verifier::external_body]
    pub fn vx_keys(&self) -> (r: Vec<K>)
        ensures r@.no_duplicates(), forall|k: K| r@.contains(k) <==> self@.contains_key(k),
    { unimplemented!() }
}
impl PartialOrd for EntityId { #[verifier::external_body] fn partial_cmp(&self, other: &Self) -> (r: Option<Ordering>) { unimplemented!() } }
impl Ord for EntityId { #[verifier::external_body] fn cmp(&self, other: &Self) -> (r: Ordering) { unimplemented!() } }

// rtps/reader.rs Reader, rtps/writer.rs Writer: opaque but for the topic name; their match bookkeeping is unit
// `matching` (c10.callsite.*: the verdict is taken on the QoS handed in here) — each operation is an
// uninterpreted transition function
pub struct Reader { pub topic: String, pub opaque: u64 }
pub struct Writer { pub topic: String, pub opaque: u64 }
pub uninterp spec fn r_update(r: Reader, p: RtpsWriterProxy, offered: QosPolicies) -> Reader;
pub uninterp spec fn w_update(w: Writer, p: RtpsReaderProxy, requested: QosPolicies) -> Writer;
impl Reader {
    #[verifier::external_body] pub fn topic_name(&self) -> (r: &String) ensures *r == self.topic { unimplemented!() }
    #[verifier::external_body] pub fn update_writer_proxy(&mut self, proxy: RtpsWriterProxy, offered_qos: &QosPolicies)
        ensures *final(self) == r_update(*old(self), proxy, *offered_qos) { unimplemented!() }
}
impl Writer {
    #[verifier::external_body] pub fn topic_name(&self) -> (r: &String) ensures *r == self.topic { unimplemented!() }
    #[verifier::external_body] pub fn update_reader_proxy(&mut self, proxy: &RtpsReaderProxy, requested_qos: &QosPolicies)
        ensures *final(self) == w_update(*old(self), *proxy, *requested_qos) { unimplemented!() }
}
// ASSUMED (std): `impl PartialEq for String` compares the contents.  vstd specifies exactly this for
// `String == String`; `&String == &String` (the blanket `impl PartialEq<&B> for &A`) goes through the spec-trait
// side (obeys_eq_spec / eq_spec), which vstd leaves uninterpreted for String.
#[verifier::external_body]
pub proof fn axiom_string_eq()
    ensures <String as PartialEqSpec>::obeys_eq_spec(), forall|a: String, b: String| #[trigger] a.eq_spec(&b) == (a@ == b@),
{}

// ---- around Discovery::write_single_reader_info / write_single_writer_info (discovery/discovery.rs) ---------
// Arc<RwLock<DiscoveryDB>>; discovery_db_read(): the returned reference stands for the RwLockReadGuard (Deref).
// The state seen under the lock is ARBITRARY (whatever this or another thread left there).
#[verifier::external_body] pub struct DbHandle { opaque: u8 }
#[verifier::external_body]
pub fn discovery_db_read<'a>(discovery_db: &'a DbHandle) -> (g: &'a DiscoveryDB) { unimplemented!() }
#[verifier::external_body] pub struct Timestamp { opaque: u8 }
#[verifier::external_body] pub struct WriteError { opaque: u8 }
// with_key::DiscoveryTopicPlCdr<DiscoveredReaderData> / <DiscoveredWriterData>, field `writer`: the DataWriters of the
// built-in topics DCPSSubscription / DCPSPublication.
// STUB whose `requires` IS the property (exit point): write(sample, timestamp) publishes one sample over SEDP.  The ghost
// arguments (added by @@subst at the call; erased at run time) name the DB state read under the lock and the GUID
// the caller was asked to announce.
#[verifier::external_body] pub struct SubWriter { opaque: u8 }
#[verifier::external_body] pub struct PubWriter { opaque: u8 }
pub struct SubTopic { pub writer: SubWriter }
pub struct PubTopic { pub writer: PubWriter }
impl SubWriter {
    #[verifier::external_body]
    pub fn write(&self, Ghost(db): Ghost<DiscoveryDB>, Ghost(guid): Ghost<GUID>, data: DiscoveredReaderData, source_timestamp: Option<Timestamp>) -> (r: Result<(), WriteError>)
        requires
            db.local_topic_readers@.contains_key(guid) && data == db.local_topic_readers@[guid],   // [announce.sedp.write]
    { unimplemented!() }
}
impl PubWriter {
    #[verifier::external_body]
    pub fn write(&self, Ghost(db): Ghost<DiscoveryDB>, Ghost(guid): Ghost<GUID>, data: DiscoveredWriterData, source_timestamp: Option<Timestamp>) -> (r: Result<(), WriteError>)
        requires
            db.local_topic_writers@.contains_key(guid) && data == db.local_topic_writers@[guid],   // [announce.sedp.write]
    { unimplemented!() }
}

// std: Option::filter - "Returns None if the option is None, otherwise calls predicate with the wrapped value and returns
// Some(t) if predicate returns true, None if it returns false" (kept so that a change which FILTERS an announced policy
// is judged on its text instead of degrading the function; seed C10g)
pub assume_specification<T: core::marker::Destruct, P: FnOnce(&T) -> bool + core::marker::Destruct>[ Option::<T>::filter ](o: Option<T>, p: P) -> (r: Option<T>)
    requires o matches Some(v) ==> p.requires((&v,)),
    ensures o is None ==> r is None,
            o matches Some(v) ==> (r is None || r == Some(v)) && (r is Some ==> p.ensures((&v,), true)) && (r is None ==> p.ensures((&v,), false));
