// ---------------------------------------------------------------------------------------------
// SHIM R14 (assumed contract, trusted): std::sync::{Mutex, MutexGuard, LockResult}
// A guard has a ghost view `g@ : T` = the protected value as this thread sees it.  `Deref` reads
// the view, `DerefMut` hands out a `&mut T` whose final value becomes the new view.  Between
// `lock()` and the drop of the guard reasoning is sequential and exact; the value seen at `lock()`
// is ARBITRARY (nothing about what other threads left there is assumed).  Poisoning is not
// modelled: `unwrap()` on the lock result has no precondition (a poisoned lock panics in the
// real code; panics on poisoning are outside C09).  Concurrency itself is C13's subject.
// ---------------------------------------------------------------------------------------------
#[verifier::external_body]
#[verifier::reject_recursive_types(T)]
pub struct Mutex<T> { inner: std::sync::Mutex<T> }

#[verifier::external_body]
#[verifier::reject_recursive_types(T)]
pub struct MutexGuard<'a, T> { inner: std::sync::MutexGuard<'a, T> }

#[verifier::external_body]
#[verifier::reject_recursive_types(T)]
pub struct LockResult<'a, T> { inner: std::sync::LockResult<std::sync::MutexGuard<'a, T>> }

impl<'a, T> View for MutexGuard<'a, T> { type V = T; uninterp spec fn view(&self) -> T; }

impl<'a, T> Deref for MutexGuard<'a, T> {
    type Target = T;
    #[verifier::external_body]
    fn deref(&self) -> (r: &T) ensures *r == self@ { unimplemented!() }
}
impl<'a, T> DerefMut for MutexGuard<'a, T> {
    #[verifier::external_body]
    fn deref_mut(&mut self) -> (r: &mut T) ensures *r == old(self)@, final(self)@ == *final(r) { unimplemented!() }
}
impl<T> Mutex<T> {
    // state seen at lock() is arbitrary: no postcondition
    #[verifier::external_body]
    pub fn lock(&self) -> (r: LockResult<'_, T>) { unimplemented!() }
}
impl<'a, T> LockResult<'a, T> {
    #[verifier::external_body]
    pub fn unwrap(self) -> (r: MutexGuard<'a, T>) { unimplemented!() }
}
