// ---------------------------------------------------------------------------------------------
// Unit leases — structure/guid.rs : GuidPrefix, EntityKind, EntityId, GUID (extracted text) with R2
// template impls for the derives.  derive(Ord) on a struct = lexicographic order of the fields in
// declaration order; on `[u8; N]` = lexicographic order of the bytes.  The exec comparison bodies
// are assumed, not verified (they stand for the derive expansion); their specs are written out below so
// that the BTreeMap key order can be used, and the prefix-range contract
//      GUID::new(p, EntityId::MIN) ..= GUID::new(p, EntityId::MAX)  contains exactly the GUIDs with prefix p
// is PROVED from them (lemma_prefix_range), not assumed.
// ---------------------------------------------------------------------------------------------
pub open spec fn lx_cmp(a: Seq<u8>, b: Seq<u8>) -> Ordering
    decreases a.len()
{
    if a.len() == 0 || b.len() == 0 {
        if a.len() < b.len() { Ordering::Less } else if a.len() == b.len() { Ordering::Equal } else { Ordering::Greater }
    } else if a[0] < b[0] { Ordering::Less }
    else if a[0] > b[0] { Ordering::Greater }
    else { lx_cmp(a.skip(1), b.skip(1)) }
}
pub open spec fn lx_then(a: Ordering, b: Ordering) -> Ordering { if a == Ordering::Equal { b } else { a } }
pub open spec fn lx_u8(a: u8, b: u8) -> Ordering { if a < b { Ordering::Less } else if a == b { Ordering::Equal } else { Ordering::Greater } }

@@extract struct src/structure/guid.rs GuidPrefix derive=Clone,Copy
@@extract struct src/structure/guid.rs EntityKind derive=Clone,Copy
@@extract struct src/structure/guid.rs EntityId derive=Clone,Copy
@@extract struct src/structure/guid.rs GUID derive=Clone,Copy

// ---- GuidPrefix { bytes: [u8; 12] }
impl PartialEqSpecImpl for GuidPrefix {
    open spec fn obeys_eq_spec() -> bool { true }
    open spec fn eq_spec(&self, other: &Self) -> bool { *self == *other }
}
impl PartialEq for GuidPrefix { #[verifier::external_body] fn eq(&self, other: &Self) -> (r: bool) { self.bytes == other.bytes } }
impl Eq for GuidPrefix {}
impl PartialOrdSpecImpl for GuidPrefix {
    open spec fn obeys_partial_cmp_spec() -> bool { true }
    open spec fn partial_cmp_spec(&self, other: &Self) -> Option<Ordering> { Some(lx_cmp(self.bytes@, other.bytes@)) }
}
impl PartialOrd for GuidPrefix { #[verifier::external_body] fn partial_cmp(&self, other: &Self) -> (r: Option<Ordering>) { Some(self.bytes.cmp(&other.bytes)) } }
impl OrdSpecImpl for GuidPrefix {
    open spec fn obeys_cmp_spec() -> bool { true }
    open spec fn cmp_spec(&self, other: &Self) -> Ordering { lx_cmp(self.bytes@, other.bytes@) }
}
impl Ord for GuidPrefix { #[verifier::external_body] fn cmp(&self, other: &Self) -> (r: Ordering) { self.bytes.cmp(&other.bytes) } }

// ---- EntityKind(u8)
impl PartialEqSpecImpl for EntityKind {
    open spec fn obeys_eq_spec() -> bool { true }
    open spec fn eq_spec(&self, other: &Self) -> bool { self.0 == other.0 }
}
impl PartialEq for EntityKind { fn eq(&self, other: &Self) -> (r: bool) { self.0 == other.0 } }
impl Eq for EntityKind {}

// ---- EntityId { entity_key: [u8; 3], entity_kind: EntityKind }
impl EntityId {
    pub open spec fn ord_spec(&self, other: &Self) -> Ordering {
        lx_then(lx_cmp(self.entity_key@, other.entity_key@), lx_u8(self.entity_kind.0, other.entity_kind.0))
    }
}
impl PartialEqSpecImpl for EntityId {
    open spec fn obeys_eq_spec() -> bool { true }
    open spec fn eq_spec(&self, other: &Self) -> bool { *self == *other }
}
impl PartialEq for EntityId {
    #[verifier::external_body]
    fn eq(&self, other: &Self) -> (r: bool) { self.entity_key == other.entity_key && self.entity_kind.0 == other.entity_kind.0 }
}
impl Eq for EntityId {}

// ---- GUID { prefix, entity_id }   ("It is important to have guid_prefix first")
impl GUID {
    pub open spec fn ord_spec(&self, other: &Self) -> Ordering {
        lx_then(lx_cmp(self.prefix.bytes@, other.prefix.bytes@), self.entity_id.ord_spec(&other.entity_id))
    }
}
impl PartialEqSpecImpl for GUID {
    open spec fn obeys_eq_spec() -> bool { true }
    open spec fn eq_spec(&self, other: &Self) -> bool { *self == *other }
}
impl PartialEq for GUID {
    #[verifier::external_body]
    fn eq(&self, other: &Self) -> (r: bool) {
        self.prefix.bytes == other.prefix.bytes && self.entity_id.entity_key == other.entity_id.entity_key
            && self.entity_id.entity_kind.0 == other.entity_id.entity_kind.0
    }
}
impl Eq for GUID {}
impl PartialOrdSpecImpl for GUID {
    open spec fn obeys_partial_cmp_spec() -> bool { true }
    open spec fn partial_cmp_spec(&self, other: &Self) -> Option<Ordering> { Some(self.ord_spec(other)) }
}
impl PartialOrd for GUID {
    #[verifier::external_body]
    fn partial_cmp(&self, other: &Self) -> (r: Option<Ordering>) {
        Some(self.prefix.bytes.cmp(&other.prefix.bytes)
            .then(self.entity_id.entity_key.cmp(&other.entity_id.entity_key))
            .then(self.entity_id.entity_kind.0.cmp(&other.entity_id.entity_kind.0)))
    }
}
impl OrdSpecImpl for GUID {
    open spec fn obeys_cmp_spec() -> bool { true }
    open spec fn cmp_spec(&self, other: &Self) -> Ordering { self.ord_spec(other) }
}
impl Ord for GUID {
    #[verifier::external_body]
    fn cmp(&self, other: &Self) -> (r: Ordering) {
        self.prefix.bytes.cmp(&other.prefix.bytes)
            .then(self.entity_id.entity_key.cmp(&other.entity_id.entity_key))
            .then(self.entity_id.entity_kind.0.cmp(&other.entity_id.entity_kind.0))
    }
}

// ---- real constants and constructors used by GuidPrefix::range
// (R20: initialisers with `[x; N]` are exec-only in Verus -> `exec const … ensures … { E }`; the
//  ensures clauses are checked against the real initialiser text)
pub open spec fn eid_min() -> EntityId { EntityId { entity_key: [0x00u8, 0x00u8, 0x00u8], entity_kind: EntityKind(0x00) } }
pub open spec fn eid_max() -> EntityId { EntityId { entity_key: [0xFFu8, 0xFFu8, 0xFFu8], entity_kind: EntityKind(0xFF) } }
impl EntityKind {
@@extract const src/structure/guid.rs EntityKind::MIN
@@extract const src/structure/guid.rs EntityKind::MAX
@@extract const src/structure/guid.rs EntityKind::PARTICIPANT_BUILT_IN
}
impl EntityId {
@@extract const_exec src/structure/guid.rs EntityId::MIN ensures="EntityId::MIN.entity_key =~= eid_min().entity_key, EntityId::MIN.entity_kind == eid_min().entity_kind"
@@extract const_exec src/structure/guid.rs EntityId::MAX ensures="EntityId::MAX == eid_max()"
@@extract const src/structure/guid.rs EntityId::PARTICIPANT
}
impl GUID {
@@extract fn src/structure/guid.rs GUID::new_with_prefix_and_id
@@ret r
@@ensures guid.new
    r.prefix == prefix, r.entity_id == entity_id
@@end
@@extract fn src/structure/guid.rs GUID::new
@@ret r
@@ensures guid.new
    r.prefix == prefix, r.entity_id == entity_id
@@end
}

// the set of keys selected by `prefix.range()` as (lo, hi) bounds of the BTreeMap model
pub open spec fn prefix_lo(p: GuidPrefix) -> GUID { GUID { prefix: p, entity_id: eid_min() } }
pub open spec fn prefix_hi(p: GuidPrefix) -> GUID { GUID { prefix: p, entity_id: eid_max() } }

impl VRangeBounds<GUID> for RangeInclusive<GUID> {
    // mirrors std `impl RangeBounds<T> for RangeInclusive<T>`: start_bound = Included(start),
    // end_bound = if exhausted { Excluded(end) } else { Included(end) }
    open spec fn lo(&self) -> Bound<GUID> { Bound::Included(self@.start) }
    open spec fn hi(&self) -> Bound<GUID> { if self@.exhausted { Bound::Excluded(self@.end) } else { Bound::Included(self@.end) } }
}

impl GuidPrefix {
// R8: the opaque return type `impl RangeBounds<GUID>` is named by the concrete type of the body
@@extract fn src/structure/guid.rs GuidPrefix::range
@@subst impl RangeBounds<GUID>=RangeInclusive<GUID>
@@ret r
@@ensures guid.range
    r.lo() == Bound::Included(prefix_lo(*self)), r.hi() == Bound::Included(prefix_hi(*self)),
    bounds_ok(r.lo(), r.hi()),
    forall|g: GUID| #[trigger] in_bounds(g, r.lo(), r.hi()) <==> g.prefix == *self,
@@body_start
    proof { lemma_prefix_range(*self); }
@@end
}

// ---- lemmas about the lexicographic order
pub proof fn lemma_lx_refl(a: Seq<u8>)
    ensures lx_cmp(a, a) == Ordering::Equal
    decreases a.len()
{
    if a.len() > 0 { lemma_lx_refl(a.skip(1)); }
}
pub proof fn lemma_lx_eq(a: Seq<u8>, b: Seq<u8>)
    requires lx_cmp(a, b) == Ordering::Equal
    ensures a =~= b
    decreases a.len()
{
    if a.len() > 0 && b.len() > 0 {
        lemma_lx_eq(a.skip(1), b.skip(1));
        assert forall|i: int| 0 <= i < a.len() implies a[i] == b[i] by {
            if i > 0 { assert(a.skip(1)[i - 1] == b.skip(1)[i - 1]); }
        }
    }
}
pub proof fn lemma_lx_antisym(a: Seq<u8>, b: Seq<u8>)
    ensures (lx_cmp(a, b) == Ordering::Less) == (lx_cmp(b, a) == Ordering::Greater),
            (lx_cmp(a, b) == Ordering::Equal) == (lx_cmp(b, a) == Ordering::Equal),
    decreases a.len()
{
    if a.len() > 0 && b.len() > 0 { lemma_lx_antisym(a.skip(1), b.skip(1)); }
}
// all-zero is the least and all-0xFF the greatest sequence of its length
pub proof fn lemma_lx_min_max(lo: Seq<u8>, x: Seq<u8>, hi: Seq<u8>)
    requires lo.len() == x.len(), hi.len() == x.len(),
             forall|i: int| 0 <= i < lo.len() ==> lo[i] == 0u8,
             forall|i: int| 0 <= i < hi.len() ==> hi[i] == 0xFFu8,
    ensures lx_cmp(lo, x) != Ordering::Greater, lx_cmp(x, hi) != Ordering::Greater,
    decreases x.len()
{
    if x.len() > 0 { lemma_lx_min_max(lo.skip(1), x.skip(1), hi.skip(1)); }
}
pub proof fn lemma_prefix_eq(a: GuidPrefix, b: GuidPrefix)
    ensures (lx_cmp(a.bytes@, b.bytes@) == Ordering::Equal) <==> a == b
{
    if lx_cmp(a.bytes@, b.bytes@) == Ordering::Equal { lemma_lx_eq(a.bytes@, b.bytes@); assert(a.bytes =~= b.bytes); }
    if a == b { lemma_lx_refl(a.bytes@); }
}
// GUID keys: the key order is irreflexive on distinct keys (ascending iteration => distinct keys)
pub proof fn lemma_guid_lt_ne(a: GUID, b: GUID)
    requires klt(a, b)
    ensures a != b
{
    if a == b { lemma_lx_refl(a.prefix.bytes@); lemma_lx_refl(a.entity_id.entity_key@); }
}
pub proof fn lemma_prefix_lt_ne(a: GuidPrefix, b: GuidPrefix)
    requires klt(a, b)
    ensures a != b
{
    if a == b { lemma_lx_refl(a.bytes@); }
}
// the contract of GuidPrefix::range(): exactly the GUIDs with that prefix
pub proof fn lemma_prefix_range(p: GuidPrefix)
    ensures
        kle(prefix_lo(p), prefix_hi(p)),
        forall|g: GUID| #[trigger] in_bounds(g, Bound::Included(prefix_lo(p)), Bound::Included(prefix_hi(p))) <==> g.prefix == p,
{
    let lo = prefix_lo(p);
    let hi = prefix_hi(p);
    lemma_lx_refl(p.bytes@);
    assert forall|g: GUID| #[trigger] in_bounds(g, Bound::Included(lo), Bound::Included(hi)) <==> g.prefix == p by {
        lemma_prefix_eq(p, g.prefix);
        lemma_lx_antisym(p.bytes@, g.prefix.bytes@);
        lemma_lx_min_max(eid_min().entity_key@, g.entity_id.entity_key@, eid_max().entity_key@);
    }
    lemma_lx_min_max(eid_min().entity_key@, eid_max().entity_key@, eid_max().entity_key@);
}
