// ---------------------------------------------------------------------------------------------
// structure/sequence_number.rs : FragmentNumber, FragmentNumberRange (extracted) + R2 template impls
// (PartialEq/PartialOrd on the inner u32, NumOps -> Add) — only what the DATAFRAG loop of
// Writer::send_cache_change uses.  (R4: `impl Iterator … next` becomes inherent.)
// ---------------------------------------------------------------------------------------------
@@extract struct src/structure/sequence_number.rs FragmentNumber derive=Clone,Copy
impl PartialEqSpecImpl for FragmentNumber {
    open spec fn obeys_eq_spec() -> bool { true }
    open spec fn eq_spec(&self, other: &Self) -> bool { self.0 == other.0 }
}
impl PartialEq for FragmentNumber { fn eq(&self, other: &Self) -> (r: bool) { self.0 == other.0 } }
impl PartialOrdSpecImpl for FragmentNumber {
    open spec fn obeys_partial_cmp_spec() -> bool { true }
    open spec fn partial_cmp_spec(&self, other: &Self) -> Option<Ordering> {
        if self.0 < other.0 { Some(Ordering::Less) } else if self.0 == other.0 { Some(Ordering::Equal) } else { Some(Ordering::Greater) }
    }
}
impl PartialOrd for FragmentNumber {
    fn partial_cmp(&self, other: &Self) -> (r: Option<Ordering>) {
        if self.0 < other.0 { Some(Ordering::Less) } else if self.0 == other.0 { Some(Ordering::Equal) } else { Some(Ordering::Greater) }
    }
}
impl AddSpecImpl<FragmentNumber> for FragmentNumber {
    open spec fn obeys_add_spec() -> bool { true }
    open spec fn add_req(self, rhs: FragmentNumber) -> bool { self.0 + rhs.0 <= u32::MAX }   // [nopanic.fn.add]
    open spec fn add_spec(self, rhs: FragmentNumber) -> FragmentNumber { FragmentNumber((self.0 + rhs.0) as u32) }
}
impl core::ops::Add for FragmentNumber {
    type Output = FragmentNumber;
    fn add(self, rhs: FragmentNumber) -> FragmentNumber { FragmentNumber(self.0 + rhs.0) }
}
impl FragmentNumber {
@@extract fn src/structure/sequence_number.rs FragmentNumber::new
@@ret r
@@ensures fnum.new
    r.0 == value
@@end
@@extract fn src/structure/sequence_number.rs FragmentNumber::range_inclusive
@@ret r
@@ensures fnum.range_inclusive
    r.begin == begin, r.end == end
@@end
}
@@extract struct src/structure/sequence_number.rs FragmentNumberRange derive=Clone,Copy
impl FragmentNumberRange {
@@extract fn src/structure/sequence_number.rs FragmentNumberRange::new
@@ret r
@@ensures fnum.range.new
    r.begin == begin, r.end == end
@@end
    pub open spec fn count(&self) -> int { if self.begin.0 > self.end.0 { 0 } else { self.end.0 - self.begin.0 + 1 } }
@@extract fn src/structure/sequence_number.rs "Iterator for FragmentNumberRange::next"
@@subst Self::Item=FragmentNumber
@@ret r
@@requires nopanic.fnum.next
    old(self).end.0 < u32::MAX
@@ensures fnum.next
    final(self).end == old(self).end,
    match r {
        None => old(self).begin.0 > old(self).end.0 && final(self).begin == old(self).begin,
        Some(b) => b == old(self).begin && old(self).begin.0 <= old(self).end.0 && final(self).begin.0 == old(self).begin.0 + 1,
    }
@@end
}
