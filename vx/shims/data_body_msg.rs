// ---------------------------------------------------------------------------------------------
// Own shim file of unit `data_body`: placeholders and stubs around MessageBuilder::data_msg / data_frag_msg
// (the same ones unit framing uses in shims/framing_data.rs, EXCEPT ParameterList / Parameter, which are the
// real types here).  Placeholder types are only moved, never inspected.
// ---------------------------------------------------------------------------------------------
#[verifier::external_body] pub struct SecurityPluginsHandle { _p: u8 }
#[verifier::external_body] pub struct WriteOptions { _p: u8 }
#[verifier::external_body] #[derive(Clone, Copy)] pub struct SampleIdentity { _p: u8 }
#[verifier::external_body] pub struct SerializedPayload { _p: u8 }
#[verifier::external_body] #[derive(Clone, Copy)] pub struct ChangeKind { _p: u8 }
#[verifier::external_body] pub struct Gap { _p: u8 }
#[verifier::external_body] pub struct Heartbeat { _p: u8 }
#[verifier::external_body] pub struct HeartbeatFrag { _p: u8 }
#[verifier::external_body] pub struct ReaderSubmessage { _p: u8 }
#[verifier::external_body] pub struct InterpreterSubmessage { _p: u8 }
#[verifier::external_body] pub struct GAP_Flags { _p: u8 }
#[verifier::external_body] pub struct HEARTBEAT_Flags { _p: u8 }
#[verifier::external_body] pub struct HEARTBEATFRAG_Flags { _p: u8 }

impl Clone for SerializedPayload { #[verifier::external_body] fn clone(&self) -> (r: Self) { unimplemented!() } }
// (a Rust allocation never exceeds isize::MAX bytes: assumed of the underlying buffer, as for Bytes::len)
impl From<SerializedPayload> for Bytes { #[verifier::external_body] fn from(sp: SerializedPayload) -> (r: Bytes) ensures r@.len() <= isize::MAX { unimplemented!() } }
impl From<Vec<u8>> for Bytes { #[verifier::external_body] fn from(v: Vec<u8>) -> (r: Bytes) ensures r@ == v@ { unimplemented!() } }
impl From<Bytes> for Vec<u8> { #[verifier::external_body] fn from(b: Bytes) -> (r: Vec<u8>) ensures r@ == b@ { unimplemented!() } }
pub assume_specification<T, const N: usize>[ <Vec<T> as From<[T; N]>>::from ](a: [T; N]) -> (r: Vec<T>)
    ensures r@ == a@;
impl WriteOptions {
    #[verifier::external_body]
    pub fn related_sample_identity(&self) -> Option<SampleIdentity> { unimplemented!() }
}
impl SampleIdentity {
    // speedy `Writable::write_to_vec_with_ctx` of a fixed-size struct (derive(Writable): GUID 16 bytes + SequenceNumber 8
    // bytes) into a Vec: assumed not to fail and to give those 24 bytes
    #[verifier::external_body]
    pub fn write_to_vec_with_ctx(&self, ctx: Endianness) -> (r: Result<Vec<u8>, SpeedyError>) ensures r matches Ok(v) && v@.len() == 24 { unimplemented!() }
}
impl Parameter {
    // PID_STATUS_INFO with the three flag bits (BitVec arithmetic; the real text ends in `value: vec![0, 0, 0, last_byte]`):
    // some parameter with a 4-byte value
    #[verifier::external_body]
    pub fn create_pid_status_info_parameter(is_disposed: bool, is_unregistered: bool, is_filtered: bool) -> (r: Parameter)
        ensures r.value@.len() == 4
    { unimplemented!() }
}
impl DDSData {
    // real text verified in unit fragments (frag.slice); (a Rust allocation never exceeds isize::MAX bytes)
    #[verifier::external_body]
    pub fn bytes_slice(&self, from: usize, to: usize) -> (r: Bytes) ensures r@.len() <= isize::MAX { unimplemented!() }
}
// enumflags2: flag-set algebra on the underlying byte
impl<T: FlagBit> BitFlags<T> {
    #[verifier::external_body]
    pub fn empty() -> (r: Self) ensures r.bits_spec() == 0 { unimplemented!() }
    #[verifier::external_body]
    pub fn from_flag(g: T) -> (r: Self) ensures r.bits_spec() == g.bit() { unimplemented!() }
}
impl<T: FlagBit> vstd::std_specs::ops::BitOrSpecImpl<BitFlags<T>> for BitFlags<T> {
    open spec fn obeys_bitor_spec() -> bool { false }
    open spec fn bitor_req(self, rhs: BitFlags<T>) -> bool { true }
    uninterp spec fn bitor_spec(self, rhs: BitFlags<T>) -> BitFlags<T>;
}
impl<T: FlagBit> core::ops::BitOr for BitFlags<T> {
    type Output = BitFlags<T>;
    #[verifier::external_body]
    fn bitor(self, rhs: Self) -> (r: Self) ensures r.bits_spec() == self.bits_spec() | rhs.bits_spec() { unimplemented!() }
}
pub assume_specification<T: Ord + core::marker::Destruct>[ std::cmp::min ](a: T, b: T) -> (r: T)
    ensures r == (if b.cmp_spec(&a) == Ordering::Less { b } else { a });
