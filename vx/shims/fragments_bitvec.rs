// ---------------------------------------------------------------------------------------------
// SHIM (assumed contracts, trusted): bit_vec::BitVec  (crate `bit-vec` 0.8), view: Seq<bool>
// ---------------------------------------------------------------------------------------------
#[verifier::external_body]
pub struct BitVec { inner: Vec<bool> }
impl View for BitVec { type V = Seq<bool>; uninterp spec fn view(&self) -> Seq<bool>; }
impl BitVec {
    #[verifier::external_body]
    pub fn from_elem(nbits: usize, bit: bool) -> (r: BitVec)
        ensures r@.len() == nbits, forall|i: int| 0 <= i < nbits ==> #[trigger] r@[i] == bit
    { unimplemented!() }
    // bit-vec: `assert!(i < self.nbits, "index out of bounds: {:?} >= {:?}", i, self.nbits);`
    // -> the `requires` is the no-panic obligation of every caller
    #[verifier::external_body]
    pub fn set(&mut self, i: usize, x: bool)
        requires i < old(self)@.len(),
        ensures final(self)@ == old(self)@.update(i as int, x)
    { unimplemented!() }
    #[verifier::external_body]
    pub fn get(&self, i: usize) -> (r: Option<bool>)
        ensures r == (if i < self@.len() { Some(self@[i as int]) } else { None::<bool> })
    { unimplemented!() }
    #[verifier::external_body]
    pub fn all(&self) -> (r: bool) ensures r == (forall|i: int| 0 <= i < self@.len() ==> self@[i]) { unimplemented!() }
    #[verifier::external_body]
    pub fn len(&self) -> (r: usize) ensures r == self@.len() { unimplemented!() }
}
