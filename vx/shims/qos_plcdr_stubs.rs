// ---------------------------------------------------------------------------------------------
// STUBS of unit qos_plcdr: callees left unverified, with the contract the unit relies on (assumed).
// ---------------------------------------------------------------------------------------------

// Option<Result<T, E>>::transpose (std): "None -> Ok(None), Some(Ok(x)) -> Ok(Some(x)), Some(Err(e)) -> Err(e)"
pub assume_specification<T, E>[ Option::<Result<T, E>>::transpose ](o: Option<Result<T, E>>) -> (r: Result<Option<T>, E>)
    ensures r == (match o { Some(Ok(x)) => Ok::<Option<T>, E>(Some(x)), Some(Err(e)) => Err::<Option<T>, E>(e), None => Ok::<Option<T>, E>(None) });

// Result::and_then (std): "Calls op if the result is Ok, otherwise returns the Err value of self." (same text as in
// shims/sec_attrs_types.rs)
#[verifier::allow(undeclared_external_trait)]
pub assume_specification<T, E, U, F: FnOnce(T) -> Result<U, E> + core::marker::Destruct>[ Result::<T, E>::and_then ](r: Result<T, E>, op: F) -> (o: Result<U, E>)
    requires r matches Ok(t) ==> op.requires((t,)),
    ensures r matches Ok(t) ==> op.ensures((t,), o), r matches Err(e) ==> o == Err::<U, E>(e);

// Option::filter (std): "Returns None if the option is None, otherwise calls predicate with the wrapped value and returns
// Some(t) if predicate returns true, None if it returns false."  Not used by the pinned text; present so that a change
// that filters a policy before emitting it is decided (its closure has no contract, so nothing is known about the result).
#[verifier::allow(undeclared_external_trait)]
pub assume_specification<T: core::marker::Destruct, P: FnOnce(&T) -> bool + core::marker::Destruct>[ Option::<T>::filter ](o: Option<T>, predicate: P) -> (r: Option<T>)
    requires o matches Some(t) ==> predicate.requires((&t,)),
    ensures match o { None => r is None, Some(t) => (r == Some(t) && predicate.ensures((&t,), true)) || (r is None && predicate.ensures((&t,), false)) };

// BTreeMap::entry(k).or_default() for Vec values, the two std calls folded into one (R20): "Ensures a value is
// in the entry by inserting the default value if empty, and returns a mutable reference to the value in the
// entry." (Vec::default() is the empty vector); what is written through the reference ends up in the map.
impl<K: Ord, V> BTreeMap<K, Vec<V>> {
    #[verifier::external_body]
    pub fn entry_or_default(&mut self, k: K) -> (r: &mut Vec<V>)
        ensures
            (*r)@ == (if old(self)@.contains_key(k) { old(self)@[k]@ } else { Seq::<V>::empty() }),
            final(self)@ == old(self)@.insert(k, *final(r)),
    { unimplemented!() }
}
