// ---------------------------------------------------------------------------------------------
// STUB (unverified callee here; its real text is under contract in unit `number_set`):
// structure/sequence_number.rs  SequenceNumberSet = NumberSet<SequenceNumber>, reduced to the
// abstract view (base, member) and the methods the C04 units call.  The contracts below restate
// number_set's labels numset.base, numset.new, numset.iter.exact + NumberSetIter::next,
// numset.from.{members,base,empty,window}.
// ---------------------------------------------------------------------------------------------
#[verifier::external_body]
pub struct SequenceNumberSet { x: u8 }

#[verifier::external_body]
pub struct SnSetIter<'a> { s: &'a SequenceNumberSet }

impl SequenceNumberSet {
    pub uninterp spec fn spec_base(&self) -> SequenceNumber;
    pub uninterp spec fn member(&self, k: int) -> bool;

    // s is the strictly ascending sequence of exactly the members
    pub open spec fn is_members_seq(&self, s: Seq<SequenceNumber>) -> bool {
        &&& forall|i: int, j: int| 0 <= i < j < s.len() ==> s[i].0 < s[j].0
        &&& forall|i: int| 0 <= i < s.len() ==> self.member((#[trigger] s[i]).0 as int)
        &&& forall|k: int| #[trigger] self.member(k) ==> exists|i: int| 0 <= i < s.len() && s[i].0 == k
    }

    #[verifier::external_body]
    pub fn base(&self) -> (r: SequenceNumber)
        ensures r == self.spec_base(),
    { unimplemented!() }

    #[verifier::external_body]
    pub fn new_empty(bitmap_base: SequenceNumber) -> (r: Self)
        ensures r.spec_base() == bitmap_base, forall|k: int| !r.member(k),
    { unimplemented!() }

    #[verifier::external_body]
    pub fn iter(&self) -> (r: SnSetIter<'_>)
        ensures self.is_members_seq(r.rem()),
    { unimplemented!() }

    // "Construct a new NumberSet from base and set ... Highest possible number in set is base+255."
    #[verifier::external_body]
    pub fn from_base_and_set(base: SequenceNumber, set: &BTreeSet<SequenceNumber>) -> (r: Self)
        requires
            forall|k: SequenceNumber| set@.contains(k) ==> k.0 < i64::MAX,     // valid.numset.from
        ensures
            // numset.from.members
            (exists|m: SequenceNumber| set@.contains(m)) && base.0 >= 1 && (forall|m: SequenceNumber| set@.contains(m) ==> base.0 <= m.0)
                ==> (forall|k: SequenceNumber| r.member(k.0 as int) <==> (set@.contains(k) && k.0 < base.0 + 256)),
            // numset.from.base
            (forall|m: SequenceNumber| set@.contains(m) ==> base.0 <= m.0) && (base.0 >= 1 || (forall|m: SequenceNumber| !set@.contains(m)))
                ==> r.spec_base() == base,
            // numset.from.empty
            (forall|m: SequenceNumber| !set@.contains(m)) ==> (forall|k: int| !r.member(k)),
            // numset.from.window, and in_range (base + num_bits <= i64::MAX): members are representable
            forall|k: int| r.member(k) ==> r.spec_base().0 <= k < r.spec_base().0 + 256 && k <= i64::MAX,
    { unimplemented!() }
}

impl<'a> SnSetIter<'a> {
    pub uninterp spec fn rem(&self) -> Seq<SequenceNumber>;   // members still to come, ascending

    #[verifier::external_body]
    pub fn next(&mut self) -> (r: Option<SequenceNumber>)
        ensures
            match r {
                None => old(self).rem().len() == 0 && final(self).rem() == old(self).rem(),
                Some(k) => old(self).rem().len() > 0 && k == old(self).rem()[0] && final(self).rem() == old(self).rem().skip(1),
            }
    { unimplemented!() }
}
