// ---------------------------------------------------------------------------------------------
// Shim additions for unit cache_window (assumed std contracts; shims/btreemap.rs is unchanged):
//  * BTreeMap::range also takes a tuple of OWNED bounds and a half-open `a..b` Range.  The panic
//    condition is the shared `bounds_ok` (precondition of the shim's `range`): std panics iff
//    start > end, or start == end with both bounds Excluded; for `a..b` (Included(a), Excluded(b))
//    that is: iff a > b.
//  * std::cmp::max, Option::map_or
// ---------------------------------------------------------------------------------------------
impl<K> VRangeBounds<K> for (Bound<K>, Bound<K>) {
    open spec fn lo(&self) -> Bound<K> { self.0 }
    open spec fn hi(&self) -> Bound<K> { self.1 }
}
impl<K> VRangeBounds<K> for core::ops::Range<K> {
    open spec fn lo(&self) -> Bound<K> { Bound::Included(self.start) }
    open spec fn hi(&self) -> Bound<K> { Bound::Excluded(self.end) }
}
pub assume_specification<T: Ord + core::marker::Destruct>[ std::cmp::max ](a: T, b: T) -> (r: T)
    ensures r == (if a.cmp_spec(&b) == Ordering::Greater { a } else { b });
pub assume_specification<T: Ord + core::marker::Destruct>[ std::cmp::min ](a: T, b: T) -> (r: T)
    ensures r == (if a.cmp_spec(&b) == Ordering::Greater { b } else { a });
pub assume_specification<T, U, F: FnOnce(T) -> U + core::marker::Destruct>[ Option::<T>::map_or ](o: Option<T>, default: U, f: F) -> (r: U)
    where U: core::marker::Destruct
    requires o matches Some(t) ==> f.requires((t,)),
    ensures match o { Some(t) => f.ensures((t,), r), None => r == default };
