// R2 template impls for `#[derive(PartialEq, Eq)]` on Duration { seconds: i32, fraction: u32 } (field-wise);
// not used by the pinned text of the two functions, present so that a change comparing durations (e.g. against
// Duration::INFINITE) is still decided instead of leaving the extraction undecided
impl PartialEqSpecImpl for Duration {
    open spec fn obeys_eq_spec() -> bool { true }
    open spec fn eq_spec(&self, other: &Self) -> bool { self.seconds == other.seconds && self.fraction == other.fraction }
}
impl PartialEq for Duration { fn eq(&self, other: &Self) -> (r: bool) { self.seconds == other.seconds && self.fraction == other.fraction } }
impl Eq for Duration {}
