// ---------------------------------------------------------------------------------------------
// structure/time.rs : Timestamp (extracted) + R2 template impls of the derived PartialEq /
// PartialOrd / Ord (declaration order: seconds, then fraction).  `Timestamp::now()` reads the
// system clock through chrono: stub with no contract (any value).
// ---------------------------------------------------------------------------------------------
@@extract struct src/structure/time.rs Timestamp derive=Clone,Copy

pub open spec fn ts_cmp(a: Timestamp, b: Timestamp) -> Ordering {
    if a.seconds < b.seconds { Ordering::Less } else if a.seconds > b.seconds { Ordering::Greater }
    else if a.fraction < b.fraction { Ordering::Less } else if a.fraction > b.fraction { Ordering::Greater }
    else { Ordering::Equal }
}
impl PartialEqSpecImpl for Timestamp {
    open spec fn obeys_eq_spec() -> bool { true }
    open spec fn eq_spec(&self, other: &Self) -> bool { self.seconds == other.seconds && self.fraction == other.fraction }
}
impl PartialEq for Timestamp { fn eq(&self, other: &Self) -> (r: bool) { self.seconds == other.seconds && self.fraction == other.fraction } }
impl Eq for Timestamp {}
impl PartialOrdSpecImpl for Timestamp {
    open spec fn obeys_partial_cmp_spec() -> bool { true }
    open spec fn partial_cmp_spec(&self, other: &Self) -> Option<Ordering> { Some(ts_cmp(*self, *other)) }
}
impl PartialOrd for Timestamp {
    fn partial_cmp(&self, other: &Self) -> (r: Option<Ordering>) {
        if self.seconds < other.seconds { Some(Ordering::Less) } else if self.seconds > other.seconds { Some(Ordering::Greater) }
        else if self.fraction < other.fraction { Some(Ordering::Less) } else if self.fraction > other.fraction { Some(Ordering::Greater) }
        else { Some(Ordering::Equal) }
    }
}
impl Timestamp {
    #[verifier::external_body]
    pub fn now() -> Timestamp { unimplemented!() }
}
