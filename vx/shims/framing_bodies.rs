// ---------------------------------------------------------------------------------------------
// Own shim file of unit `framing`: the submessage BODIES.  Each body type is an opaque placeholder
// (or its real struct where the builders construct it field by field); its reader is a STUB that
// returns an ARBITRARY result (any value or any error) as a function of exactly the bytes and the
// byte order / flags it is handed: `parse` is uninterpreted, so a contract of the framing code that
// names `X::parse(bytes, e)` holds for every possible body parser and can only be met by handing the
// stub exactly those bytes.  Its writer is a STUB producing an uninterpreted byte string `wire(ctx)`.
// Their own robustness / round trip is covered elsewhere (units number_set, fragments; Kani
// c06_reader_nopanic_*, c14_rt_*, c14_ns_*; xc/wire_roundtrip.rs).
// ---------------------------------------------------------------------------------------------
@@extract enum src/messages/submessages/submessage_flag.rs ACKNACK_Flags repr=keep derive=Clone,Copy
@@extract enum src/messages/submessages/submessage_flag.rs DATA_Flags repr=keep derive=Clone,Copy
@@extract enum src/messages/submessages/submessage_flag.rs DATAFRAG_Flags repr=keep derive=Clone,Copy
@@extract enum src/messages/submessages/submessage_flag.rs GAP_Flags repr=keep derive=Clone,Copy
@@extract enum src/messages/submessages/submessage_flag.rs HEARTBEAT_Flags repr=keep derive=Clone,Copy
@@extract enum src/messages/submessages/submessage_flag.rs HEARTBEATFRAG_Flags repr=keep derive=Clone,Copy
@@extract enum src/messages/submessages/submessage_flag.rs INFODESTINATION_Flags repr=keep derive=Clone,Copy
@@extract enum src/messages/submessages/submessage_flag.rs INFOREPLY_Flags repr=keep derive=Clone,Copy
@@extract enum src/messages/submessages/submessage_flag.rs INFOSOURCE_Flags repr=keep derive=Clone,Copy
@@extract enum src/messages/submessages/submessage_flag.rs INFOTIMESTAMP_Flags repr=keep derive=Clone,Copy
@@extract enum src/messages/submessages/submessage_flag.rs NACKFRAG_Flags repr=keep derive=Clone,Copy
// the bit a flag occupies = its explicit discriminant (enumflags2 `#[bitflags] #[repr(u8)]`)
impl FlagBit for ACKNACK_Flags { open spec fn bit(self) -> u8 { self as u8 } }
impl FlagBit for DATA_Flags { open spec fn bit(self) -> u8 { self as u8 } }
impl FlagBit for DATAFRAG_Flags { open spec fn bit(self) -> u8 { self as u8 } }
impl FlagBit for GAP_Flags { open spec fn bit(self) -> u8 { self as u8 } }
impl FlagBit for HEARTBEAT_Flags { open spec fn bit(self) -> u8 { self as u8 } }
impl FlagBit for HEARTBEATFRAG_Flags { open spec fn bit(self) -> u8 { self as u8 } }
impl FlagBit for INFODESTINATION_Flags { open spec fn bit(self) -> u8 { self as u8 } }
impl FlagBit for INFOREPLY_Flags { open spec fn bit(self) -> u8 { self as u8 } }
impl FlagBit for INFOSOURCE_Flags { open spec fn bit(self) -> u8 { self as u8 } }
impl FlagBit for INFOTIMESTAMP_Flags { open spec fn bit(self) -> u8 { self as u8 } }
impl FlagBit for NACKFRAG_Flags { open spec fn bit(self) -> u8 { self as u8 } }

// identifiers: only moved
#[verifier::external_body] #[derive(Clone, Copy)] pub struct GuidPrefix { _p: u8 }
#[verifier::external_body] #[derive(Clone, Copy)] pub struct EntityId { _p: u8 }
#[verifier::external_body] #[derive(Clone, Copy)] pub struct SequenceNumber { _p: u8 }

// speedy::Readable::read_from_buffer_with_ctx(ctx, &bytes) of a body type
pub trait FReadable: Sized {
    spec fn parse(b: Seq<u8>, e: Endianness) -> Option<Self>;
    fn read_from_buffer_with_ctx(ctx: Endianness, buffer: &Bytes) -> (r: Result<Self, SpeedyError>)
        ensures match r { Ok(x) => Self::parse(buffer@, ctx) == Some(x), Err(_) => Self::parse(buffer@, ctx) is None };
}
// the number of bytes a body writes does not depend on the byte order (ASSUMED per type; where RTPS
// fixes the size the number is stated; the named harness checks `bytes written == that`)
pub trait BodyLen: FWritable {
    spec fn wire_len(&self) -> int;
    proof fn wire_len_ok(&self, e: Endianness) ensures self.wire(e).len() == self.wire_len(), 0 <= self.wire_len();
}

#[verifier::external_body] pub struct Gap { _p: u8 }
#[verifier::external_body] pub struct AckNack { _p: u8 }
#[verifier::external_body] pub struct NackFrag { _p: u8 }
#[verifier::external_body] pub struct HeartbeatFrag { _p: u8 }
#[verifier::external_body] pub struct InfoSource { _p: u8 }
#[verifier::external_body] pub struct InfoReply { _p: u8 }
#[verifier::external_body] #[derive(Clone, Copy)] pub struct Timestamp { _p: u8 }
@@extract struct src/messages/submessages/heartbeat.rs Heartbeat
@@extract struct src/messages/submessages/data.rs Data
@@extract struct src/messages/submessages/data_frag.rs DataFrag
@@extract struct src/messages/submessages/info_destination.rs InfoDestination

impl FReadable for Gap {
    uninterp spec fn parse(b: Seq<u8>, e: Endianness) -> Option<Self>;
    #[verifier::external_body]
    fn read_from_buffer_with_ctx(ctx: Endianness, buffer: &Bytes) -> (r: Result<Self, SpeedyError>) { unimplemented!() }
}
impl FReadable for AckNack {
    uninterp spec fn parse(b: Seq<u8>, e: Endianness) -> Option<Self>;
    #[verifier::external_body]
    fn read_from_buffer_with_ctx(ctx: Endianness, buffer: &Bytes) -> (r: Result<Self, SpeedyError>) { unimplemented!() }
}
impl FReadable for NackFrag {
    uninterp spec fn parse(b: Seq<u8>, e: Endianness) -> Option<Self>;
    #[verifier::external_body]
    fn read_from_buffer_with_ctx(ctx: Endianness, buffer: &Bytes) -> (r: Result<Self, SpeedyError>) { unimplemented!() }
}
impl FReadable for Heartbeat {
    uninterp spec fn parse(b: Seq<u8>, e: Endianness) -> Option<Self>;
    #[verifier::external_body]
    fn read_from_buffer_with_ctx(ctx: Endianness, buffer: &Bytes) -> (r: Result<Self, SpeedyError>) { unimplemented!() }
}
impl FReadable for HeartbeatFrag {
    uninterp spec fn parse(b: Seq<u8>, e: Endianness) -> Option<Self>;
    #[verifier::external_body]
    fn read_from_buffer_with_ctx(ctx: Endianness, buffer: &Bytes) -> (r: Result<Self, SpeedyError>) { unimplemented!() }
}
impl FReadable for InfoDestination {
    uninterp spec fn parse(b: Seq<u8>, e: Endianness) -> Option<Self>;
    #[verifier::external_body]
    fn read_from_buffer_with_ctx(ctx: Endianness, buffer: &Bytes) -> (r: Result<Self, SpeedyError>) { unimplemented!() }
}
impl FReadable for InfoSource {
    uninterp spec fn parse(b: Seq<u8>, e: Endianness) -> Option<Self>;
    #[verifier::external_body]
    fn read_from_buffer_with_ctx(ctx: Endianness, buffer: &Bytes) -> (r: Result<Self, SpeedyError>) { unimplemented!() }
}
impl FReadable for InfoReply {
    uninterp spec fn parse(b: Seq<u8>, e: Endianness) -> Option<Self>;
    #[verifier::external_body]
    fn read_from_buffer_with_ctx(ctx: Endianness, buffer: &Bytes) -> (r: Result<Self, SpeedyError>) { unimplemented!() }
}
impl FReadable for Timestamp {
    uninterp spec fn parse(b: Seq<u8>, e: Endianness) -> Option<Self>;
    #[verifier::external_body]
    fn read_from_buffer_with_ctx(ctx: Endianness, buffer: &Bytes) -> (r: Result<Self, SpeedyError>) { unimplemented!() }
}

// DATA / DATA_FRAG have hand-written readers that take the flags (byte order, inline QoS, key) themselves
impl Data {
    pub uninterp spec fn parse_flags(b: Seq<u8>, f: BitFlags<DATA_Flags>) -> Option<Data>;
    #[verifier::external_body]
    pub fn deserialize_data(buffer: &Bytes, flags: BitFlags<DATA_Flags>) -> (r: io::Result<Data>)
        ensures match r { Ok(x) => Data::parse_flags(buffer@, flags) == Some(x), Err(_) => Data::parse_flags(buffer@, flags) is None }
    { unimplemented!() }
}
impl DataFrag {
    pub uninterp spec fn parse_flags(b: Seq<u8>, f: BitFlags<DATAFRAG_Flags>) -> Option<DataFrag>;
    #[verifier::external_body]
    pub fn deserialize(buffer: &Bytes, flags: BitFlags<DATAFRAG_Flags>) -> (r: io::Result<DataFrag>)
        ensures match r { Ok(x) => DataFrag::parse_flags(buffer@, flags) == Some(x), Err(_) => DataFrag::parse_flags(buffer@, flags) is None }
    { unimplemented!() }
}

// speedy::Readable::read_from_buffer (provided method) of the 4-byte submessage header: runs
// `read_from` (real text, unit framing: clause frame.wire.read) over the buffer; fails iff fewer than
// 4 bytes are there (Kani c06_reader_nopanic_subheader), else returns the header decoded from the
// first 4 bytes -- every kind, flags and octetsToNextHeader value can come out; does not consume.
impl SubmessageHeader {
    pub open spec fn decode(b: Seq<u8>) -> SubmessageHeader { hdr_decode(b) }
    #[verifier::external_body]
    pub fn read_from_buffer(buffer: &Bytes) -> (r: Result<SubmessageHeader, SpeedyError>)
        ensures match r { Ok(h) => buffer@.len() >= 4 && h == SubmessageHeader::decode(buffer@.subrange(0, 4)), Err(_) => buffer@.len() < 4 }
    { unimplemented!() }
}
// SubmessageKind is `#[derive(Readable, Writable)] struct { value: u8 }`: one byte, every value
// accepted (derive output is not source text; Kani c14_header)
impl FStreamReadable for SubmessageKind {
    open spec fn decodable(b: Seq<u8>) -> bool { b.len() >= 1 }
    open spec fn consumed(b: Seq<u8>) -> int { 1 }
    open spec fn decoded(b: Seq<u8>) -> SubmessageKind { SubmessageKind { value: b[0] } }
    #[verifier::external_body]
    fn read_from(reader: &mut FReader) -> (r: Result<Self, SpeedyError>) { unimplemented!() }
}
impl FWritable for SubmessageKind {
    open spec fn wire(&self, ctx: Endianness) -> Seq<u8> { seq![self.value] }
    #[verifier::external_body]
    fn write_to(&self, writer: &mut FWriter) -> (r: Result<(), SpeedyError>) { unimplemented!() }
}

// the 20-byte RTPS message header (messages/header.rs: real struct, real `valid`, real constructors in unit
// framing); its derive(Readable, Writable) over byte arrays is a stub (Kani c06_reader_nopanic_msgheader):
// `read_from_buffer` fails iff fewer than 20 bytes are there, else returns the header decoded from the
// first 20 bytes (uninterpreted: ARBITRARY field values); does not consume.
impl Header {
    pub uninterp spec fn decode(b: Seq<u8>) -> Header;
    #[verifier::external_body]
    pub fn read_from_buffer(buffer: &Bytes) -> (r: Result<Header, SpeedyError>)
        ensures match r { Ok(h) => buffer@.len() >= 20 && h == Header::decode(buffer@.subrange(0, 20)), Err(_) => buffer@.len() < 20 }
    { unimplemented!() }
}

// ---- the body WRITERS (derive(Writable) / hand-written Writable of the body types): stubs producing an
// uninterpreted byte string `wire(ctx)` per value and context byte order -----------------------------
impl FWritable for Gap {
    uninterp spec fn wire(&self, ctx: Endianness) -> Seq<u8>;
    #[verifier::external_body]
    fn write_to(&self, writer: &mut FWriter) -> (r: Result<(), SpeedyError>) { unimplemented!() }
}
impl FWritable for AckNack {
    uninterp spec fn wire(&self, ctx: Endianness) -> Seq<u8>;
    #[verifier::external_body]
    fn write_to(&self, writer: &mut FWriter) -> (r: Result<(), SpeedyError>) { unimplemented!() }
}
impl FWritable for NackFrag {
    uninterp spec fn wire(&self, ctx: Endianness) -> Seq<u8>;
    #[verifier::external_body]
    fn write_to(&self, writer: &mut FWriter) -> (r: Result<(), SpeedyError>) { unimplemented!() }
}
impl FWritable for HeartbeatFrag {
    uninterp spec fn wire(&self, ctx: Endianness) -> Seq<u8>;
    #[verifier::external_body]
    fn write_to(&self, writer: &mut FWriter) -> (r: Result<(), SpeedyError>) { unimplemented!() }
}
impl FWritable for InfoSource {
    uninterp spec fn wire(&self, ctx: Endianness) -> Seq<u8>;
    #[verifier::external_body]
    fn write_to(&self, writer: &mut FWriter) -> (r: Result<(), SpeedyError>) { unimplemented!() }
}
impl FWritable for InfoReply {
    uninterp spec fn wire(&self, ctx: Endianness) -> Seq<u8>;
    #[verifier::external_body]
    fn write_to(&self, writer: &mut FWriter) -> (r: Result<(), SpeedyError>) { unimplemented!() }
}
impl FWritable for Timestamp {
    uninterp spec fn wire(&self, ctx: Endianness) -> Seq<u8>;
    #[verifier::external_body]
    fn write_to(&self, writer: &mut FWriter) -> (r: Result<(), SpeedyError>) { unimplemented!() }
}
impl FWritable for Data {
    uninterp spec fn wire(&self, ctx: Endianness) -> Seq<u8>;
    #[verifier::external_body]
    fn write_to(&self, writer: &mut FWriter) -> (r: Result<(), SpeedyError>) { unimplemented!() }
}
impl FWritable for DataFrag {
    uninterp spec fn wire(&self, ctx: Endianness) -> Seq<u8>;
    #[verifier::external_body]
    fn write_to(&self, writer: &mut FWriter) -> (r: Result<(), SpeedyError>) { unimplemented!() }
}
impl FWritable for Heartbeat {
    uninterp spec fn wire(&self, ctx: Endianness) -> Seq<u8>;
    #[verifier::external_body]
    fn write_to(&self, writer: &mut FWriter) -> (r: Result<(), SpeedyError>) { unimplemented!() }
}
impl FWritable for InfoDestination {
    uninterp spec fn wire(&self, ctx: Endianness) -> Seq<u8>;
    #[verifier::external_body]
    fn write_to(&self, writer: &mut FWriter) -> (r: Result<(), SpeedyError>) { unimplemented!() }
}
impl FWritable for Header {
    uninterp spec fn wire(&self, ctx: Endianness) -> Seq<u8>;
    #[verifier::external_body]
    fn write_to(&self, writer: &mut FWriter) -> (r: Result<(), SpeedyError>) { unimplemented!() }
}

impl BodyLen for Gap {
    uninterp spec fn wire_len(&self) -> int;
    #[verifier::external_body]
    proof fn wire_len_ok(&self, e: Endianness) {}
}
impl BodyLen for AckNack {
    uninterp spec fn wire_len(&self) -> int;
    #[verifier::external_body]
    proof fn wire_len_ok(&self, e: Endianness) {}
}
impl BodyLen for NackFrag {
    uninterp spec fn wire_len(&self) -> int;
    #[verifier::external_body]
    proof fn wire_len_ok(&self, e: Endianness) {}
}
impl BodyLen for HeartbeatFrag {
    open spec fn wire_len(&self) -> int { 24 }      // RTPS 9.4.5.8; Kani c14_rt_hbfrag
    #[verifier::external_body]
    proof fn wire_len_ok(&self, e: Endianness) {}
}
impl BodyLen for InfoSource {
    open spec fn wire_len(&self) -> int { 20 }      // RTPS 9.4.5.11; Kani c14_rt_infosrc
    #[verifier::external_body]
    proof fn wire_len_ok(&self, e: Endianness) {}
}
impl BodyLen for InfoReply {
    uninterp spec fn wire_len(&self) -> int;
    #[verifier::external_body]
    proof fn wire_len_ok(&self, e: Endianness) {}
}
impl BodyLen for Timestamp {
    open spec fn wire_len(&self) -> int { 8 }      // RTPS 9.4.5.9 / 9.3.2; Kani c14_rt_infots
    #[verifier::external_body]
    proof fn wire_len_ok(&self, e: Endianness) {}
}
impl BodyLen for Data {
    uninterp spec fn wire_len(&self) -> int;
    #[verifier::external_body]
    proof fn wire_len_ok(&self, e: Endianness) {}
}
impl BodyLen for DataFrag {
    uninterp spec fn wire_len(&self) -> int;
    #[verifier::external_body]
    proof fn wire_len_ok(&self, e: Endianness) {}
}
impl BodyLen for Heartbeat {
    open spec fn wire_len(&self) -> int { 28 }      // RTPS 9.4.5.7; Kani c14_rt_heartbeat
    #[verifier::external_body]
    proof fn wire_len_ok(&self, e: Endianness) {}
}
impl BodyLen for InfoDestination {
    open spec fn wire_len(&self) -> int { 12 }      // RTPS 9.4.5.12; Kani c14_rt_infodst
    #[verifier::external_body]
    proof fn wire_len_ok(&self, e: Endianness) {}
}

// speedy `Writable::write_to_vec()` (provided method): write_to into a fresh Vec in speedy's default
// context byte order -- some byte order; only its length is used by the callers
pub trait FToVec: FWritable {
    fn write_to_vec(&self) -> (r: Result<Vec<u8>, SpeedyError>)
        ensures r matches Ok(v) ==> exists|e: Endianness| v@ == #[trigger] self.wire(e);
}
impl FToVec for Heartbeat { #[verifier::external_body] fn write_to_vec(&self) -> (r: Result<Vec<u8>, SpeedyError>) { unimplemented!() } }
impl FToVec for Gap { #[verifier::external_body] fn write_to_vec(&self) -> (r: Result<Vec<u8>, SpeedyError>) { unimplemented!() } }

// hand-written length functions of the variable-length bodies (real text elsewhere: AckNack / NackFrag:
// Kani c14_rt_acknack_w* / c14_rt_nackfrag_w* "bytes == len_serialized()" + unit number_set numset.len;
// Data / DataFrag: Kani c14_rt_data_p* (bounded) + xc/wire_roundtrip.rs): the result is the number of bytes written
impl AckNack { #[verifier::external_body] pub fn len_serialized(&self) -> (r: usize) ensures r == self.wire_len() { unimplemented!() } }
impl NackFrag { #[verifier::external_body] pub fn len_serialized(&self) -> (r: usize) ensures r == self.wire_len() { unimplemented!() } }
impl InfoDestination { #[verifier::external_body] pub fn len_serialized(&self) -> (r: usize) ensures r == self.wire_len() { unimplemented!() } }
impl Data { #[verifier::external_body] pub fn len_serialized(&self) -> (r: usize) ensures r == self.wire_len() { unimplemented!() } }
impl DataFrag { #[verifier::external_body] pub fn len_serialized(&self) -> (r: usize) ensures r == self.wire_len() { unimplemented!() } }
