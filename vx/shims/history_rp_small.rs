// ---------------------------------------------------------------------------------------------
// rtps/rtps_reader_proxy.rs : the small set operations of RtpsReaderProxy with their contracts
// (labels rp.*).  Shared by the units `reader_proxy` and `repair_decision`.  Needs the struct
// RtpsReaderProxy (keep= at least remote_reader_guid, all_acked_before, unsent_changes,
// pending_gap), SequenceNumber and the BTreeSet shim.
// ---------------------------------------------------------------------------------------------
// STUB of an unverified callee (hard limit: returns `impl DoubleEndedIterator`, DESIGN 3.2):
// RtpsReaderProxy::unsent_changes_iter = self.unsent_changes.iter().cloned()
#[verifier::external_body]
pub struct UnsentIter<'a> { it: std::iter::Cloned<std::collections::btree_set::Iter<'a, SequenceNumber>> }
impl<'a> UnsentIter<'a> {
    pub uninterp spec fn rem(&self) -> Seq<SequenceNumber>;
    #[verifier::external_body]
    pub fn next(&mut self) -> (r: Option<SequenceNumber>)
        ensures
            match r {
                None => old(self).rem().len() == 0 && final(self).rem() == old(self).rem(),
                Some(k) => old(self).rem().len() > 0 && k == old(self).rem()[0] && final(self).rem() == old(self).rem().skip(1),
            }
    { unimplemented!() }
}

impl RtpsReaderProxy {
    pub open spec fn unsent(&self, k: SequenceNumber) -> bool { self.unsent_changes@.contains(k) }
    pub open spec fn gap(&self, k: SequenceNumber) -> bool { self.pending_gap@.contains(k) }
    // sample k has been positively acknowledged by this reader
    pub open spec fn acked(&self, k: i64) -> bool { k < self.all_acked_before.0 }

    #[verifier::external_body]
    pub fn unsent_changes_iter(&self) -> (r: UnsentIter<'_>)
        ensures is_set_iter_of(r.rem(), self.unsent_changes@),
    { unimplemented!() }

@@extract fn src/rtps/rtps_reader_proxy.rs RtpsReaderProxy::first_unsent_change
@@ret r
@@ensures rp.first_unsent
    // the lowest sequence number still to be sent, None iff there is none
    match r {
        None => forall|k: SequenceNumber| !self.unsent(k),
        Some(f) => self.unsent(f) && forall|k: SequenceNumber| self.unsent(k) ==> f.0 <= k.0,
    }
@@end

@@extract fn src/rtps/rtps_reader_proxy.rs RtpsReaderProxy::mark_change_sent
@@ensures rp.mark_sent
    // a requested number leaves `unsent` only by being sent (or acknowledged, see rp.acknack.unsent)
    final(self).unsent_changes@ == old(self).unsent_changes@.remove(seq_num),
@@ensures rp.frame
    final(self).all_acked_before == old(self).all_acked_before, final(self).pending_gap@ == old(self).pending_gap@,
    final(self).remote_reader_guid == old(self).remote_reader_guid, final(self).repair_mode == old(self).repair_mode,
@@end

@@extract fn src/rtps/rtps_reader_proxy.rs RtpsReaderProxy::remove_from_unsent_set_all_before
@@ensures rp.remove_before
    forall|k: SequenceNumber| #[trigger] final(self).unsent(k) <==> (old(self).unsent(k) && k.0 >= before_seq_num.0),
@@ensures rp.frame
    final(self).all_acked_before == old(self).all_acked_before, final(self).pending_gap@ == old(self).pending_gap@,
    final(self).remote_reader_guid == old(self).remote_reader_guid, final(self).repair_mode == old(self).repair_mode,
@@body_end
    proof {
        assert forall|k: SequenceNumber| #[trigger] self.unsent(k) <==> (old(self).unsent(k) && k.0 >= before_seq_num.0) by {
            assert(klt(k, before_seq_num) <==> k.0 < before_seq_num.0);
        }
    }
@@end

@@extract fn src/rtps/rtps_reader_proxy.rs RtpsReaderProxy::insert_pending_gap
@@ensures rp.gap.insert
    final(self).pending_gap@ == old(self).pending_gap@.insert(seq_num),
@@ensures rp.frame
    final(self).all_acked_before == old(self).all_acked_before, final(self).unsent_changes@ == old(self).unsent_changes@,
    final(self).remote_reader_guid == old(self).remote_reader_guid, final(self).repair_mode == old(self).repair_mode,
@@end

@@extract fn src/rtps/rtps_reader_proxy.rs RtpsReaderProxy::get_pending_gap
@@ret r
@@ensures rp.gap.get
    r@ == self.pending_gap@
@@end

@@extract fn src/rtps/rtps_reader_proxy.rs RtpsReaderProxy::notify_new_cache_change
@@ensures rp.notify
    // a newly written sample is owed to this reader
    final(self).unsent_changes@ == old(self).unsent_changes@.insert(sequence_number),
@@ensures rp.frame
    final(self).all_acked_before == old(self).all_acked_before, final(self).pending_gap@ == old(self).pending_gap@,
    final(self).remote_reader_guid == old(self).remote_reader_guid, final(self).repair_mode == old(self).repair_mode,
@@end

@@extract fn src/rtps/rtps_reader_proxy.rs RtpsReaderProxy::acked_up_to_before
@@ret r
@@ensures rp.acked
    r == self.all_acked_before
@@end
}
