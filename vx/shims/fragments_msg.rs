// ---------------------------------------------------------------------------------------------
// Placeholders and stubs around MessageBuilder::data_frag_msg (unit `fragments`).
// Placeholder types (R9) are only moved, never inspected.  Stubs are callees left unverified
// (inline-QoS parameters, speedy serialisation of the related sample identity, enumflags2).
// ---------------------------------------------------------------------------------------------
#[verifier::external_body] #[derive(Clone, Copy)] pub struct Endianness { _p: u8 }          // speedy::Endianness
#[verifier::external_body] pub struct SecurityPluginsHandle { _p: u8 }
#[verifier::external_body] pub struct WriteOptions { _p: u8 }
#[verifier::external_body] #[derive(Clone, Copy)] pub struct SampleIdentity { _p: u8 }
#[verifier::external_body] #[derive(Debug)] pub struct SpeedyError { _p: u8 }
#[verifier::external_body] pub struct Data { _p: u8 }
#[verifier::external_body] pub struct Gap { _p: u8 }
#[verifier::external_body] pub struct Heartbeat { _p: u8 }
#[verifier::external_body] pub struct HeartbeatFrag { _p: u8 }
#[verifier::external_body] pub struct ReaderSubmessage { _p: u8 }
#[verifier::external_body] pub struct InterpreterSubmessage { _p: u8 }
#[verifier::external_body] pub struct DATA_Flags { _p: u8 }
#[verifier::external_body] pub struct GAP_Flags { _p: u8 }
#[verifier::external_body] pub struct HEARTBEAT_Flags { _p: u8 }
#[verifier::external_body] pub struct HEARTBEATFRAG_Flags { _p: u8 }

impl WriteOptions {
    #[verifier::external_body]
    pub fn related_sample_identity(&self) -> Option<SampleIdentity> { unimplemented!() }
}
impl SampleIdentity {
    // speedy `Writable::write_to_vec_with_ctx` of a fixed-size struct into a Vec: assumed not to fail
    #[verifier::external_body]
    pub fn write_to_vec_with_ctx(&self, ctx: Endianness) -> (r: Result<Vec<u8>, SpeedyError>) ensures r.is_ok() { unimplemented!() }
}
impl ParameterList {
    #[verifier::external_body] pub fn new() -> ParameterList { unimplemented!() }
    #[verifier::external_body] pub fn push(&mut self, p: Parameter) { unimplemented!() }
    #[verifier::external_body] pub fn is_empty(&self) -> bool { unimplemented!() }
}
impl DataFrag {
    // serialized length (feeds the submessage header's content_length only)
    #[verifier::external_body] pub fn len_serialized(&self) -> usize { unimplemented!() }
}
// enumflags2 / submessage_flag.rs (`submessageflag_impls!` is a macro body: not extractable)
impl<T> BitFlags<T> {
    #[verifier::external_body]
    pub fn empty() -> (r: Self) ensures forall|f: T| !r.has(f) { unimplemented!() }
    #[verifier::external_body]
    pub fn from_flag(g: T) -> (r: Self) ensures forall|f: T| r.has(f) <==> f == g { unimplemented!() }
    #[verifier::external_body]
    pub fn bits(&self) -> u8 { unimplemented!() }
}
impl<T> Clone for BitFlags<T> { #[verifier::external_body] fn clone(&self) -> (r: Self) ensures r == *self { unimplemented!() } }
impl<T> Copy for BitFlags<T> {}
impl BitFlags<DATAFRAG_Flags> {
    #[verifier::external_body]
    pub fn from_endianness(end: Endianness) -> (r: Self) ensures forall|f: DATAFRAG_Flags| r.has(f) ==> f == DATAFRAG_Flags::Endianness { unimplemented!() }
}
impl<T> vstd::std_specs::ops::BitOrSpecImpl<BitFlags<T>> for BitFlags<T> {
    open spec fn obeys_bitor_spec() -> bool { false }
    open spec fn bitor_req(self, rhs: BitFlags<T>) -> bool { true }
    uninterp spec fn bitor_spec(self, rhs: BitFlags<T>) -> BitFlags<T>;
}
impl<T> core::ops::BitOr for BitFlags<T> {
    type Output = BitFlags<T>;
    #[verifier::external_body]
    fn bitor(self, rhs: Self) -> (r: Self) ensures forall|f: T| r.has(f) <==> (self.has(f) || rhs.has(f)) { unimplemented!() }
}
