// (shared part of units framing / framing_sec: included verbatim by both)
impl Message {
@@extract fn src/rtps/message.rs Message::new
@@ret r
@@ensures frame.msg.new
    r.header == header, r.submessages@ == Seq::<Submessage>::empty()
@@end

@@extract fn src/rtps/message.rs Message::read_from_buffer
@@ret r
@@ensures frame.reject.iff
    // a datagram is rejected (Err, never a panic) exactly when it has no valid RTPS header or its
    // submessage framing is malformed / a body is rejected; otherwise every submessage is returned
    r is Err <==> (buffer@.len() < 20 || !Header::decode(buffer@.subrange(0, 20)).valid_spec()
        || parse_subs(buffer@.subrange(20, buffer@.len() as int)) is None)
@@ensures frame.body.slice
    r matches Ok(m) ==> m.header == Header::decode(buffer@.subrange(0, 20))
        && parse_subs(buffer@.subrange(20, buffer@.len() as int)) == Some(psubs(m.submessages@))
@@ensures frame.rt.read
    // (the two clauses above as the one predicate the round-trip lemma frame.rt.message is stated over)
    msg_read_contract(buffer@, r)
@@ensures work.frame.submessages
    // memory in proportion to the bytes received: at most one Submessage per 4 bytes
    r matches Ok(m) ==> 4 * m.submessages@.len() <= buffer@.len() - 20
@@closure 1
    |e: SpeedyError| -> (o: io::Error)
@@before_loop 1
    let ghost all = buffer@.subrange(20, buffer@.len() as int);
    let ghost mut steps: int = 0;      // loop iterations so far
    proof { assert(psubs(message.submessages@) =~= Seq::<PSub>::empty()); }
@@loop 1 term.frame.loop
      invariant
        all == buffer@.subrange(20, buffer@.len() as int),   // [frame.body.slice]
        message.header == Header::decode(buffer@.subrange(0, 20)),   // [frame.body.slice]
        submessages_left@.len() <= all.len(),   // [work.frame.iterations]
        // what is still to be parsed, appended to what has been collected, is what the whole denotes
        parse_subs(all) == (match parse_subs(submessages_left@) { None => None::<Seq<PSub>>, Some(s) => Some(psubs(message.submessages@) + s) }),   // [frame.body.slice]
        // each iteration consumes at least the 4 header bytes
        4 * steps <= all.len() - submessages_left@.len(),   // [work.frame.iterations]
        message.submessages@.len() <= steps,   // [work.frame.submessages]
      decreases submessages_left@.len()   // [term.frame.loop]
@@loop_body_start 1
      let ghost left0 = submessages_left@;
      let ghost subs0 = message.submessages@;
@@loop_body_end 1
      proof {
        steps = steps + 1;
        lemma_psubs_push(subs0, message.submessages@);
      }
@@after_loop 1
    proof {
        // work bound: at most len/4 iterations, whatever the datagram announces
        assert(4 * steps <= buffer@.len() - 20);   // [work.frame.iterations]
        assert(psubs(message.submessages@) + Seq::<PSub>::empty() =~= psubs(message.submessages@));
    }
@@end
}

proof fn lemma_psubs_push(a: Seq<Submessage>, b: Seq<Submessage>)
    ensures
        b == a ==> psubs(b) == psubs(a),
        b.len() == a.len() + 1 && b.drop_last() == a ==> psubs(b) =~= psubs(a).push(psub(b.last())),
{
    if b.len() == a.len() + 1 && b.drop_last() == a {
        assert(psubs(b).drop_last() =~= psubs(a));
    }
}

