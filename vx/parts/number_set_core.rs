// NumberSet under contract (shared by units number_set and reader_glue)
global size_of usize == 8;
// shims/sn.rs implements this spec trait (declared in shims/btreemap.rs, which this unit does not need)
@@include shims/number_set_fn.rs
@@include shims/number_set_btreeset.rs
@@include shims/number_set_speedy.rs
global size_of SequenceNumber == 8;
global size_of FragmentNumber == 4;

// i64: From<SequenceNumber> (not in shims/sn.rs) — real text + spec impl
impl FromSpecImpl<SequenceNumber> for i64 {
    open spec fn obeys_from_spec() -> bool { true }
    open spec fn from_spec(v: SequenceNumber) -> Self { v.0 }
}
impl From<SequenceNumber> for i64 {
@@extract fn src/structure/sequence_number.rs "From<SequenceNumber> for i64::from"
@@nopub
@@ret r
@@ensures sn.into_i64
    r == sequence_number.0
@@end
}

// ---------- view -------------------------------------------------------------------------------
// RTPS 9.4.2.6: bit i of the set lives in word i/32 under mask 1 << (31 - i%32)  (MSB first)
pub open spec fn bit_set(w: u32, b: u32) -> bool { (w & (1u32 << ((31 - b) as u32))) != 0 }
pub open spec fn has_bit(bm: Seq<u32>, nb: int, i: int) -> bool {
    0 <= i < nb && bit_set(bm[i / 32], (i % 32) as u32)
}
// ascending sequence of the set bit positions in [lo, hi)
pub open spec fn bits_seq(bm: Seq<u32>, nb: int, lo: int, hi: int) -> Seq<int>
    decreases hi - lo
{
    if lo >= hi { Seq::<int>::empty() }
    else if has_bit(bm, nb, lo) { seq![lo] + bits_seq(bm, nb, lo + 1, hi) }
    else { bits_seq(bm, nb, lo + 1, hi) }
}
pub open spec fn has_val(bm: Seq<u32>, nb: int, base: int, k: int) -> bool { has_bit(bm, nb, k - base) }
pub open spec fn ceil32(n: int) -> int { (n + 31) / 32 }

pub trait NumVal { spec fn val(&self) -> int; }
impl NumVal for SequenceNumber { open spec fn val(&self) -> int { self.0 as int } }
impl NumVal for FragmentNumber { open spec fn val(&self) -> int { self.0 as int } }

@@extract struct src/structure/sequence_number.rs NumberSet drop_where=1
@@extract struct src/structure/sequence_number.rs NumberSetIter drop_where=1

impl<N: NumVal> NumberSet<N> {
    // representation invariant (comment on the field `bitmap`)
    pub open spec fn wf(&self) -> bool { self.bitmap@.len() == ceil32(self.num_bits as int) }
    // member(k) := exists i < num_bits. k == base + i && bit i set
    pub open spec fn member(&self, k: int) -> bool {
        has_val(self.bitmap@, self.num_bits as int, self.bitmap_base.val(), k)
    }
    // s is the strictly ascending sequence of exactly the members
    pub open spec fn is_members_seq(&self, s: Seq<int>) -> bool {
        &&& forall|i: int, j: int| 0 <= i < j < s.len() ==> s[i] < s[j]
        &&& forall|i: int| 0 <= i < s.len() ==> self.member(#[trigger] s[i])
        &&& forall|k: int| #[trigger] self.member(k) ==> exists|i: int| 0 <= i < s.len() && s[i] == k
    }
}
impl<'a, N: NumVal> NumberSetIter<'a, N> {
    pub open spec fn iwf(&self) -> bool {
        self.seq.wf() && self.at_bit <= self.rev_at_bit <= self.seq.num_bits
    }
    // values still to come: front = next(), back = next_back()
    pub open spec fn remaining(&self) -> Seq<int> {
        bits_seq(self.seq.bitmap@, self.seq.num_bits as int, self.at_bit as int, self.rev_at_bit as int)
            .map_values(|i: int| self.seq.bitmap_base.val() + i)
    }
}

// ================================= N = SequenceNumber ==========================================
impl NumberSet<SequenceNumber> {
    // arithmetic validity: base + num_bits representable (C06; established by from_base_and_set)
    pub open spec fn in_range(&self) -> bool { self.bitmap_base.0 + self.num_bits <= i64::MAX }

@@extract fn src/structure/sequence_number.rs NumberSet::new
@@subst N=SequenceNumber
@@ret r
@@requires valid.numset.new
    num_bits <= u32::MAX - 31
@@ensures numset.new
    r.wf(), r.num_bits == num_bits, r.bitmap_base == bitmap_base,
    forall|k: int| !r.member(k),
@@before_tail
    proof { lemma_zero_word(); }
@@end

@@extract fn src/structure/sequence_number.rs NumberSet::base
@@subst N=SequenceNumber
@@ret r
@@ensures numset.base
    r == self.bitmap_base
@@end

@@extract fn src/structure/sequence_number.rs NumberSet::new_empty
@@subst N=SequenceNumber
@@ret r
@@ensures numset.new
    r.wf(), r.num_bits == 0, r.bitmap_base == bitmap_base,
    forall|k: int| !r.member(k),
@@end

@@extract fn src/structure/sequence_number.rs NumberSet::insert
@@subst N=SequenceNumber
@@requires wf.numset
    old(self).wf()
@@requires valid.numset.range
    old(self).in_range()
@@ensures numset.insert.view
    forall|k: int| final(self).member(k) <==> (old(self).member(k)
        || (k == sn.0 && old(self).bitmap_base.0 <= k < old(self).bitmap_base.0 + old(self).num_bits)),
@@ensures numset.insert.frame
    final(self).wf(), final(self).num_bits == old(self).num_bits, final(self).bitmap_base == old(self).bitmap_base,
@@body_end
    proof {
        let base = old(self).bitmap_base.0 as int;
        let nb = old(self).num_bits as int;
        if base <= sn.0 < base + nb {
            let bit_pos = (sn.0 - base) as u32;
            let word_num = bit_pos / 32;
            let bit_num = bit_pos % 32;
            let w = old(self).bitmap@[word_num as int];
            assert forall|k: int| self.member(k) <==> (old(self).member(k) || (k == sn.0 && base <= k < base + nb)) by {
                let i = k - base;
                if 0 <= i < nb {
                    let c = (i % 32) as u32;
                    if i / 32 == word_num as int { lemma_or_bit(w, bit_num, c); }
                }
            }
        }
    }
@@end

@@extract fn src/structure/sequence_number.rs NumberSet::from_base_and_set
@@subst N=SequenceNumber
@@ret r
@@requires valid.numset.from
    forall|k: SequenceNumber| set@.contains(k) ==> k.0 < i64::MAX
@@ensures numset.from.members
    (exists|m: SequenceNumber| set@.contains(m)) && base.0 >= 1 && (forall|m: SequenceNumber| set@.contains(m) ==> base.0 <= m.0)
        ==> (forall|k: SequenceNumber| r.member(k.0 as int) <==> (set@.contains(k) && k.0 < base.0 + 256)),
@@ensures numset.from.base
    (forall|m: SequenceNumber| set@.contains(m) ==> base.0 <= m.0) && (base.0 >= 1 || (forall|m: SequenceNumber| !set@.contains(m)))
        ==> r.bitmap_base == base,
@@ensures numset.from.empty
    (forall|m: SequenceNumber| !set@.contains(m)) ==> r.num_bits == 0 && (forall|k: int| !r.member(k)),
@@ensures numset.from.window
    r.wf(), r.num_bits <= 256,
    forall|k: int| r.member(k) ==> r.bitmap_base.0 <= k < r.bitmap_base.0 + 256,
@@ensures numset.from.clamp.start
    forall|m: SequenceNumber| set@.contains(m) && m.0 < base.0 && m.0 >= 1 && (forall|x: SequenceNumber| set@.contains(x) ==> m.0 <= x.0)
        ==> r.bitmap_base == m && (forall|k: SequenceNumber| r.member(k.0 as int) <==> (set@.contains(k) && k.0 < m.0 + 256)),
@@ensures numset.from.clamp.one
    (exists|m: SequenceNumber| set@.contains(m)) && (base.0 < 1 || (exists|m: SequenceNumber| set@.contains(m) && m.0 < 1))
        ==> r.bitmap_base.0 == 1 && r.num_bits == 0 && (forall|k: int| !r.member(k)),
@@ensures valid.numset.range
    r.in_range()
@@refpat "(Some(&start), Some(&end))" "(Some(start_r), Some(end_r))"
@@after "(Some(&start), Some(&end)) => {"
        let start = *start_r; let end = *end_r;
        proof {
            assert forall|x: SequenceNumber| set@.contains(x) implies start.0 <= x.0 <= end.0 by { }
            assert(set@.contains(start) && set@.contains(end));
        }
@@closure 1
    |s: &&SequenceNumber| -> (b: bool) ensures b == (base.0 <= s.0 && s.0 <= end.0)
@@desugar_for 1
@@before_loop 1
        let ghost all = it_1.rem();
        let ghost mut idx: int = 0;
@@loop 1
          invariant_except_break
            it_1.rem() == all.skip(idx),
          invariant
            is_set_iter_of(all, set@),
            0 <= idx <= all.len(),
            forall|x: &SequenceNumber, b: bool| it_1.pred().ensures((&x,), b) ==> b == (base.0 <= x.0 && x.0 <= end.0),
            sns.wf(), sns.bitmap_base == base, sns.num_bits == end.0 - base.0 + 1, sns.in_range(),
            forall|k: int| sns.member(k) ==> base.0 <= k <= end.0 && set@.contains(SequenceNumber(k as i64)),
            forall|i: int| 0 <= i < idx && base.0 <= (#[trigger] all[i]).0 <= end.0 ==> sns.member(all[i].0 as int),
          ensures
            all_rejected(it_1.pred(), all.skip(idx)),
          decreases all.len() - idx
@@loop_body_start 1
          let ghost rem0 = all.skip(idx);
          let ghost n: int = choose|n: int| 0 <= n < rem0.len() && *s == rem0[n] && it_1.rem() == rem0.skip(n + 1)
              && all_rejected(it_1.pred(), rem0.take(n));
          proof {
              assert(*s == all[idx + n]);
              assert(set@.contains(all[idx + n]));
              assert(SequenceNumber(s.0) == *s);
              assert forall|i: int| idx <= i < idx + n implies !(base.0 <= (#[trigger] all[i]).0 <= end.0) by {
                  assert(all[i] == rem0.take(n)[i - idx]);
                  assert(it_1.pred().ensures((&&all[i],), false));
              }
              assert(it_1.rem() =~= all.skip(idx + n + 1));
          }
@@loop_body_end 1
          proof { idx = idx + n + 1; }
@@after_loop 1
        proof {
            assert forall|i: int| idx <= i < all.len() implies !(base.0 <= (#[trigger] all[i]).0 <= end.0) by {
                assert(all[i] == all.skip(idx)[i - idx]);
                assert(it_1.pred().ensures((&&all[i],), false));
            }
        }
@@end

@@extract fn src/structure/sequence_number.rs NumberSet::iter
@@subst N=SequenceNumber
@@ret r
@@requires wf.numset
    self.wf()
@@ensures numset.iter.exact
    self.is_members_seq(r.remaining()),
@@ensures numset.iter.init
    r.iwf(), r.seq == self,
@@before_tail
    proof {
        lemma_bits_seq_exact(self.bitmap@, self.num_bits as int, 0, self.num_bits as int);
        lemma_members_seq(self.bitmap@, self.num_bits as int, self.bitmap_base.0 as int);
    }
@@end

@@extract fn src/structure/sequence_number.rs NumberSet::len_serialized
@@subst N=SequenceNumber
@@ret r
@@ensures numset.len
    r == 8 + 4 + 4 * ceil32(self.num_bits as int)
@@end

@@extract fn src/structure/sequence_number.rs NumberSet::is_empty
@@subst N=SequenceNumber
@@ret r
@@requires wf.numset
    self.wf()
@@requires valid.numset.range
    self.in_range()
@@ensures numset.is_empty
    r == (forall|k: int| !self.member(k))
@@end
}

// R4: `impl Iterator / DoubleEndedIterator for NumberSetIter<'_, N>` become inherent methods
impl<'a> NumberSetIter<'a, SequenceNumber> {
@@extract fn src/structure/sequence_number.rs "Iterator for NumberSetIter::next"
@@subst Self::Item=SequenceNumber
@@subst N=SequenceNumber
@@ret r
@@requires wf.numset.iter
    old(self).iwf()
@@requires valid.numset.range
    old(self).seq.in_range()
@@ensures numset.iter.next
    match r {
        None => old(self).remaining().len() == 0 && final(self).remaining().len() == 0,
        Some(v) => old(self).remaining().len() > 0 && v.0 == old(self).remaining()[0]
            && final(self).remaining() =~= old(self).remaining().skip(1),
    }
@@ensures numset.iter.frame
    final(self).iwf(), final(self).seq == old(self).seq, final(self).rev_at_bit == old(self).rev_at_bit,
@@loop 1
      invariant
        self.iwf(), self.seq == old(self).seq, self.rev_at_bit == old(self).rev_at_bit,
        old(self).at_bit <= self.at_bit,
        self.seq.in_range(),
        self.remaining() == old(self).remaining(),
      decreases self.rev_at_bit - self.at_bit
@@loop_body_start 1
      let ghost bm = self.seq.bitmap@;
      let ghost nb = self.seq.num_bits as int;
      let ghost at0 = self.at_bit as int;
      proof { axiom_i64_from_u32(); }
@@before "return Some"
        proof {
            assert(has_bit(bm, nb, at0));
            assert(bits_seq(bm, nb, at0, self.rev_at_bit as int) == seq![at0] + bits_seq(bm, nb, at0 + 1, self.rev_at_bit as int));
        }
@@loop_body_end 1
      proof { assert(!has_bit(bm, nb, at0)); }
@@end

@@extract fn src/structure/sequence_number.rs "DoubleEndedIterator for NumberSetIter::next_back"
@@subst Self::Item=SequenceNumber
@@subst N=SequenceNumber
@@ret r
@@requires wf.numset.iter
    old(self).iwf()
@@requires valid.numset.range
    old(self).seq.in_range()
@@ensures numset.iter.next_back
    match r {
        None => old(self).remaining().len() == 0 && final(self).remaining().len() == 0,
        Some(v) => old(self).remaining().len() > 0 && v.0 == old(self).remaining().last()
            && final(self).remaining() =~= old(self).remaining().drop_last(),
    }
@@ensures numset.iter.frame
    final(self).iwf(), final(self).seq == old(self).seq, final(self).at_bit == old(self).at_bit,
@@loop 1
      invariant
        self.iwf(), self.seq == old(self).seq, self.at_bit == old(self).at_bit,
        self.rev_at_bit <= old(self).rev_at_bit,
        self.seq.in_range(),
        self.remaining() == old(self).remaining(),
      decreases self.rev_at_bit - self.at_bit
@@loop_body_start 1
      let ghost bm = self.seq.bitmap@;
      let ghost nb = self.seq.num_bits as int;
      let ghost rev0 = self.rev_at_bit as int;
      proof { lemma_bits_seq_back(bm, nb, self.at_bit as int, rev0); axiom_i64_from_u32(); }
@@end
}

// ================================= N = FragmentNumber ==========================================
impl NumberSet<FragmentNumber> {
    // arithmetic validity: base + num_bits representable (C06; established by from_base_and_set)
    pub open spec fn in_range(&self) -> bool { self.bitmap_base.0 + self.num_bits <= u32::MAX }

@@extract fn src/structure/sequence_number.rs NumberSet::new
@@subst N=FragmentNumber
@@ret r
@@requires valid.numset.new
    num_bits <= u32::MAX - 31
@@ensures numset.new
    r.wf(), r.num_bits == num_bits, r.bitmap_base == bitmap_base,
    forall|k: int| !r.member(k),
@@before_tail
    proof { lemma_zero_word(); }
@@end

@@extract fn src/structure/sequence_number.rs NumberSet::base
@@subst N=FragmentNumber
@@ret r
@@ensures numset.base
    r == self.bitmap_base
@@end

@@extract fn src/structure/sequence_number.rs NumberSet::new_empty
@@subst N=FragmentNumber
@@ret r
@@ensures numset.new
    r.wf(), r.num_bits == 0, r.bitmap_base == bitmap_base,
    forall|k: int| !r.member(k),
@@end

@@extract fn src/structure/sequence_number.rs NumberSet::insert
@@subst N=FragmentNumber
@@requires wf.numset
    old(self).wf()
@@requires valid.numset.range
    old(self).in_range()
@@ensures numset.insert.view
    forall|k: int| final(self).member(k) <==> (old(self).member(k)
        || (k == sn.0 && old(self).bitmap_base.0 <= k < old(self).bitmap_base.0 + old(self).num_bits)),
@@ensures numset.insert.frame
    final(self).wf(), final(self).num_bits == old(self).num_bits, final(self).bitmap_base == old(self).bitmap_base,
@@body_end
    proof {
        let base = old(self).bitmap_base.0 as int;
        let nb = old(self).num_bits as int;
        if base <= sn.0 < base + nb {
            let bit_pos = (sn.0 - base) as u32;
            let word_num = bit_pos / 32;
            let bit_num = bit_pos % 32;
            let w = old(self).bitmap@[word_num as int];
            assert forall|k: int| self.member(k) <==> (old(self).member(k) || (k == sn.0 && base <= k < base + nb)) by {
                let i = k - base;
                if 0 <= i < nb {
                    let c = (i % 32) as u32;
                    if i / 32 == word_num as int { lemma_or_bit(w, bit_num, c); }
                }
            }
        }
    }
@@end

@@extract fn src/structure/sequence_number.rs NumberSet::from_base_and_set
@@subst N=FragmentNumber
@@ret r
@@requires valid.numset.from
    forall|k: FragmentNumber| set@.contains(k) ==> k.0 < u32::MAX
@@ensures numset.from.members
    (exists|m: FragmentNumber| set@.contains(m)) && base.0 >= 1 && (forall|m: FragmentNumber| set@.contains(m) ==> base.0 <= m.0)
        ==> (forall|k: FragmentNumber| r.member(k.0 as int) <==> (set@.contains(k) && k.0 < base.0 + 256)),
@@ensures numset.from.base
    (forall|m: FragmentNumber| set@.contains(m) ==> base.0 <= m.0) && (base.0 >= 1 || (forall|m: FragmentNumber| !set@.contains(m)))
        ==> r.bitmap_base == base,
@@ensures numset.from.empty
    (forall|m: FragmentNumber| !set@.contains(m)) ==> r.num_bits == 0 && (forall|k: int| !r.member(k)),
@@ensures numset.from.window
    r.wf(), r.num_bits <= 256,
    forall|k: int| r.member(k) ==> r.bitmap_base.0 <= k < r.bitmap_base.0 + 256,
@@ensures numset.from.clamp.start
    forall|m: FragmentNumber| set@.contains(m) && m.0 < base.0 && m.0 >= 1 && (forall|x: FragmentNumber| set@.contains(x) ==> m.0 <= x.0)
        ==> r.bitmap_base == m && (forall|k: FragmentNumber| r.member(k.0 as int) <==> (set@.contains(k) && k.0 < m.0 + 256)),
@@ensures numset.from.clamp.one
    (exists|m: FragmentNumber| set@.contains(m)) && (base.0 < 1 || (exists|m: FragmentNumber| set@.contains(m) && m.0 < 1))
        ==> r.bitmap_base.0 == 1 && r.num_bits == 0 && (forall|k: int| !r.member(k)),
@@ensures valid.numset.range
    r.in_range()
@@refpat "(Some(&start), Some(&end))" "(Some(start_r), Some(end_r))"
@@after "(Some(&start), Some(&end)) => {"
        let start = *start_r; let end = *end_r;
        proof {
            assert forall|x: FragmentNumber| set@.contains(x) implies start.0 <= x.0 <= end.0 by { }
            assert(set@.contains(start) && set@.contains(end));
        }
@@closure 1
    |s: &&FragmentNumber| -> (b: bool) ensures b == (base.0 <= s.0 && s.0 <= end.0)
@@desugar_for 1
@@before_loop 1
        let ghost all = it_1.rem();
        let ghost mut idx: int = 0;
@@loop 1
          invariant_except_break
            it_1.rem() == all.skip(idx),
          invariant
            is_set_iter_of(all, set@),
            0 <= idx <= all.len(),
            forall|x: &FragmentNumber, b: bool| it_1.pred().ensures((&x,), b) ==> b == (base.0 <= x.0 && x.0 <= end.0),
            sns.wf(), sns.bitmap_base == base, sns.num_bits == end.0 - base.0 + 1, sns.in_range(),
            forall|k: int| sns.member(k) ==> base.0 <= k <= end.0 && set@.contains(FragmentNumber(k as u32)),
            forall|i: int| 0 <= i < idx && base.0 <= (#[trigger] all[i]).0 <= end.0 ==> sns.member(all[i].0 as int),
          ensures
            all_rejected(it_1.pred(), all.skip(idx)),
          decreases all.len() - idx
@@loop_body_start 1
          let ghost rem0 = all.skip(idx);
          let ghost n: int = choose|n: int| 0 <= n < rem0.len() && *s == rem0[n] && it_1.rem() == rem0.skip(n + 1)
              && all_rejected(it_1.pred(), rem0.take(n));
          proof {
              assert(*s == all[idx + n]);
              assert(set@.contains(all[idx + n]));
              assert(FragmentNumber(s.0) == *s);
              assert forall|i: int| idx <= i < idx + n implies !(base.0 <= (#[trigger] all[i]).0 <= end.0) by {
                  assert(all[i] == rem0.take(n)[i - idx]);
                  assert(it_1.pred().ensures((&&all[i],), false));
              }
              assert(it_1.rem() =~= all.skip(idx + n + 1));
          }
@@loop_body_end 1
          proof { idx = idx + n + 1; }
@@after_loop 1
        proof {
            assert forall|i: int| idx <= i < all.len() implies !(base.0 <= (#[trigger] all[i]).0 <= end.0) by {
                assert(all[i] == all.skip(idx)[i - idx]);
                assert(it_1.pred().ensures((&&all[i],), false));
            }
        }
@@end

@@extract fn src/structure/sequence_number.rs NumberSet::iter
@@subst N=FragmentNumber
@@ret r
@@requires wf.numset
    self.wf()
@@ensures numset.iter.exact
    self.is_members_seq(r.remaining()),
@@ensures numset.iter.init
    r.iwf(), r.seq == self,
@@before_tail
    proof {
        lemma_bits_seq_exact(self.bitmap@, self.num_bits as int, 0, self.num_bits as int);
        lemma_members_seq(self.bitmap@, self.num_bits as int, self.bitmap_base.0 as int);
    }
@@end

@@extract fn src/structure/sequence_number.rs NumberSet::len_serialized
@@subst N=FragmentNumber
@@ret r
@@ensures numset.len
    r == 4 + 4 + 4 * ceil32(self.num_bits as int)
@@end

@@extract fn src/structure/sequence_number.rs NumberSet::is_empty
@@subst N=FragmentNumber
@@ret r
@@requires wf.numset
    self.wf()
@@requires valid.numset.range
    self.in_range()
@@ensures numset.is_empty
    r == (forall|k: int| !self.member(k))
@@end
}

// R4: `impl Iterator / DoubleEndedIterator for NumberSetIter<'_, N>` become inherent methods
impl<'a> NumberSetIter<'a, FragmentNumber> {
@@extract fn src/structure/sequence_number.rs "Iterator for NumberSetIter::next"
@@subst Self::Item=FragmentNumber
@@subst N=FragmentNumber
@@ret r
@@requires wf.numset.iter
    old(self).iwf()
@@requires valid.numset.range
    old(self).seq.in_range()
@@ensures numset.iter.next
    match r {
        None => old(self).remaining().len() == 0 && final(self).remaining().len() == 0,
        Some(v) => old(self).remaining().len() > 0 && v.0 == old(self).remaining()[0]
            && final(self).remaining() =~= old(self).remaining().skip(1),
    }
@@ensures numset.iter.frame
    final(self).iwf(), final(self).seq == old(self).seq, final(self).rev_at_bit == old(self).rev_at_bit,
@@loop 1
      invariant
        self.iwf(), self.seq == old(self).seq, self.rev_at_bit == old(self).rev_at_bit,
        old(self).at_bit <= self.at_bit,
        self.seq.in_range(),
        self.remaining() == old(self).remaining(),
      decreases self.rev_at_bit - self.at_bit
@@loop_body_start 1
      let ghost bm = self.seq.bitmap@;
      let ghost nb = self.seq.num_bits as int;
      let ghost at0 = self.at_bit as int;
      proof { axiom_i64_from_u32(); }
@@before "return Some"
        proof {
            assert(has_bit(bm, nb, at0));
            assert(bits_seq(bm, nb, at0, self.rev_at_bit as int) == seq![at0] + bits_seq(bm, nb, at0 + 1, self.rev_at_bit as int));
        }
@@loop_body_end 1
      proof { assert(!has_bit(bm, nb, at0)); }
@@end

@@extract fn src/structure/sequence_number.rs "DoubleEndedIterator for NumberSetIter::next_back"
@@subst Self::Item=FragmentNumber
@@subst N=FragmentNumber
@@ret r
@@requires wf.numset.iter
    old(self).iwf()
@@requires valid.numset.range
    old(self).seq.in_range()
@@ensures numset.iter.next_back
    match r {
        None => old(self).remaining().len() == 0 && final(self).remaining().len() == 0,
        Some(v) => old(self).remaining().len() > 0 && v.0 == old(self).remaining().last()
            && final(self).remaining() =~= old(self).remaining().drop_last(),
    }
@@ensures numset.iter.frame
    final(self).iwf(), final(self).seq == old(self).seq, final(self).at_bit == old(self).at_bit,
@@loop 1
      invariant
        self.iwf(), self.seq == old(self).seq, self.at_bit == old(self).at_bit,
        self.rev_at_bit <= old(self).rev_at_bit,
        self.seq.in_range(),
        self.remaining() == old(self).remaining(),
      decreases self.rev_at_bit - self.at_bit
@@loop_body_start 1
      let ghost bm = self.seq.bitmap@;
      let ghost nb = self.seq.num_bits as int;
      let ghost rev0 = self.rev_at_bit as int;
      proof { lemma_bits_seq_back(bm, nb, self.at_bit as int, rev0); axiom_i64_from_u32(); }
@@end
}



// =============================== wire format (C14 2b(ii)) ======================================
pub assume_specification<T: Ord + core::marker::Destruct>[ std::cmp::min ](a: T, b: T) -> (r: T)
    ensures r == (if a.cmp_spec(&b) == Ordering::Greater { b } else { a });

// std one-liner (assumed): `i64::from(x: i32)` is the widening conversion
#[verifier::external_body]
pub proof fn axiom_i64_from_i32()
    ensures <i64 as vstd::std_specs::convert::FromSpec<i32>>::obeys_from_spec(),
            forall|x: i32| #[trigger] <i64 as vstd::std_specs::convert::FromSpec<i32>>::from_spec(x) == x as i64,
{}

// ---- SequenceNumber: RTPS 9.4.2.5 — high word (signed) first, then low word (unsigned) --------
pub open spec fn sn_hi_word(v: i64) -> u32 { ((v >> 32) as i32) as u32 }
pub open spec fn sn_lo_word(v: i64) -> u32 { v as u32 }

impl VReadable for SequenceNumber {
    open spec fn decodable(w: Seq<u32>) -> bool { w.len() >= 2 }
    open spec fn consumed(w: Seq<u32>) -> int { 2 }
    open spec fn decodes(w: Seq<u32>, v: &Self) -> bool { v.0 == (w[0] as i32) as int * 0x1_0000_0000 + w[1] as int }
@@extract fn src/structure/sequence_number.rs "Readable for SequenceNumber::read_from"
@@nopub
@@subst <R: Reader<'a, C>>=
@@subst R=VReader
@@subst C::Error=VError
@@ret r
@@before_tail
    proof { axiom_i64_from_i32(); axiom_i64_from_u32(); lemma_sn_compose(high, low); }
@@end
}
impl VWritable for SequenceNumber {
    open spec fn enc_ok(&self) -> bool { true }
    open spec fn encode(&self) -> Seq<u32> { seq![sn_hi_word(self.0), sn_lo_word(self.0)] }
@@extract fn src/structure/sequence_number.rs "Writable for SequenceNumber::write_to"
@@nopub
@@subst <T: ?Sized + Writer<C>>=
@@subst T=VWriter
@@subst C::Error=VError
@@ret r
@@before_tail
    proof { assert(writer.out() =~= old(writer).out() + self.encode()); }
@@end
}

proof fn lemma_sn_compose(high: i32, low: u32)
    ensures
        i64::MIN <= ((high as i64) << 32) + (low as i64) <= i64::MAX,
        ((high as i64) << 32) + (low as i64) == high as int * 0x1_0000_0000 + low as int,
{
    assert(((high as i64) << 32) == (high as i64) * 0x1_0000_0000) by (bit_vector);
}

// decode(encode(v)) == v   ("parses back to itself", SequenceNumber part)
proof fn lemma_sn_roundtrip(v: SequenceNumber, rest: Seq<u32>, v2: SequenceNumber)
    requires SequenceNumber::decodes(v.encode() + rest, &v2)
    ensures v2 == v   // [numset.wire.roundtrip]
{
    let x = v.0;
    let w = v.encode() + rest;
    assert(w[0] == sn_hi_word(x) && w[1] == sn_lo_word(x));
    assert((((((x >> 32) as i32) as u32) as i32) as i64) * 0x1_0000_0000 + ((x as u32) as i64) == x) by (bit_vector);
}

// ---- FragmentNumber: #[derive(Readable, Writable)] on a u32 newtype — derive output is not
// source text; assumed: one word (executed for real by the Kani harnesses)
impl VReadable for FragmentNumber {
    open spec fn decodable(w: Seq<u32>) -> bool { w.len() >= 1 }
    open spec fn consumed(w: Seq<u32>) -> int { 1 }
    open spec fn decodes(w: Seq<u32>, v: &Self) -> bool { v.0 == w[0] }
    #[verifier::external_body]
    fn read_from(reader: &mut VReader) -> (r: Result<Self, VError>) { unimplemented!() }
}
impl VWritable for FragmentNumber {
    open spec fn enc_ok(&self) -> bool { true }
    open spec fn encode(&self) -> Seq<u32> { seq![self.0] }
    #[verifier::external_body]
    fn write_to(&self, writer: &mut VWriter) -> (r: Result<(), VError>) { unimplemented!() }
}

// ---- NumberSet<SequenceNumber> on the wire: base (2 words), num_bits, ceil(num_bits/32) bitmap words ----
impl VReadable for NumberSet<SequenceNumber> {
    open spec fn decodable(w: Seq<u32>) -> bool {
        SequenceNumber::decodable(w) && w.len() >= 3int && w[2] <= 256 && w.len() >= 3int + ceil32(w[2] as int)
    }
    open spec fn consumed(w: Seq<u32>) -> int { 3int + ceil32(w[2] as int) }
    open spec fn decodes(w: Seq<u32>, v: &Self) -> bool {
        SequenceNumber::decodes(w, &v.bitmap_base) && v.num_bits == w[2]
            && v.bitmap@ == w.subrange(3int, 3int + ceil32(w[2] as int))
    }
@@extract fn src/structure/sequence_number.rs "Readable for NumberSet::read_from"
@@nopub
@@subst <R: Reader<'a, C>>=
@@subst R=VReader
@@subst C::Error=VError
@@subst speedy::Error::custom=VError::custom
@@subst N=SequenceNumber
@@ret r
@@body_start
    let ghost w = reader.rem();
@@desugar_for 1
@@loop 1
        invariant
          it_1.end == word_count, it_1.start <= word_count,
          w == old(reader).rem(),
          word_count == ceil32(num_bits as int), num_bits <= 256,
          SequenceNumber::decodable(w), SequenceNumber::consumed(w) == 2, w.len() >= 3int, w[2] == num_bits,
          bitmap@ == w.subrange(3int, 3int + it_1.start),
          reader.rem() == w.skip(3int + it_1.start),
          w.len() >= 3int + it_1.start,
        ensures
          it_1.start == word_count,
        decreases it_1.end - it_1.start
@@loop_body_start 1
        let ghost k = it_1.start - 1;
        proof { assert(reader.rem().len() == w.len() - (3 + k)); }
@@loop_body_end 1
        proof {
            assert(bitmap@ =~= w.subrange(3int, 3int + it_1.start));
            assert(reader.rem() =~= w.skip(3int + it_1.start));
        }
@@end
}
impl VWritable for NumberSet<SequenceNumber> {
    open spec fn enc_ok(&self) -> bool { self.wf() && self.num_bits <= u32::MAX - 31 }
    open spec fn encode(&self) -> Seq<u32> { self.bitmap_base.encode() + seq![self.num_bits] + self.bitmap@ }
@@extract fn src/structure/sequence_number.rs "Writable for NumberSet::write_to"
@@nopub
@@subst <T: ?Sized + Writer<C>>=
@@subst T=VWriter
@@subst C::Error=VError
@@ret r
@@desugar_for 1
@@loop 1
        invariant
          self.enc_ok(), word_count == ceil32(self.num_bits as int), bitmap_len == word_count,
          it_1.end == word_count, it_1.start <= word_count,
          writer.out() == old(writer).out() + self.bitmap_base.encode() + seq![self.num_bits] + self.bitmap@.take(it_1.start as int),
        ensures
          it_1.start == word_count,
        decreases it_1.end - it_1.start
@@before_loop 1
        proof { assert(writer.out() =~= old(writer).out() + self.bitmap_base.encode() + seq![self.num_bits] + self.bitmap@.take(0)); }
@@loop_body_end 1
        proof { assert(writer.out() =~= old(writer).out() + self.bitmap_base.encode() + seq![self.num_bits] + self.bitmap@.take(it_1.start as int)); }
@@after_loop 1
        proof {
            assert(self.bitmap@.take(word_count as int) =~= self.bitmap@);
            assert(writer.out() =~= old(writer).out() + self.encode());
        }
@@end
}

// ---- NumberSet<FragmentNumber> on the wire: base (1 words), num_bits, ceil(num_bits/32) bitmap words ----
impl VReadable for NumberSet<FragmentNumber> {
    open spec fn decodable(w: Seq<u32>) -> bool {
        FragmentNumber::decodable(w) && w.len() >= 2int && w[1] <= 256 && w.len() >= 2int + ceil32(w[1] as int)
    }
    open spec fn consumed(w: Seq<u32>) -> int { 2int + ceil32(w[1] as int) }
    open spec fn decodes(w: Seq<u32>, v: &Self) -> bool {
        FragmentNumber::decodes(w, &v.bitmap_base) && v.num_bits == w[1]
            && v.bitmap@ == w.subrange(2int, 2int + ceil32(w[1] as int))
    }
@@extract fn src/structure/sequence_number.rs "Readable for NumberSet::read_from"
@@nopub
@@subst <R: Reader<'a, C>>=
@@subst R=VReader
@@subst C::Error=VError
@@subst speedy::Error::custom=VError::custom
@@subst N=FragmentNumber
@@ret r
@@body_start
    let ghost w = reader.rem();
@@desugar_for 1
@@loop 1
        invariant
          it_1.end == word_count, it_1.start <= word_count,
          w == old(reader).rem(),
          word_count == ceil32(num_bits as int), num_bits <= 256,
          FragmentNumber::decodable(w), FragmentNumber::consumed(w) == 1, w.len() >= 2int, w[1] == num_bits,
          bitmap@ == w.subrange(2int, 2int + it_1.start),
          reader.rem() == w.skip(2int + it_1.start),
          w.len() >= 2int + it_1.start,
        ensures
          it_1.start == word_count,
        decreases it_1.end - it_1.start
@@loop_body_start 1
        let ghost k = it_1.start - 1;
        proof { assert(reader.rem().len() == w.len() - (2 + k)); }
@@loop_body_end 1
        proof {
            assert(bitmap@ =~= w.subrange(2int, 2int + it_1.start));
            assert(reader.rem() =~= w.skip(2int + it_1.start));
        }
@@end
}
impl VWritable for NumberSet<FragmentNumber> {
    open spec fn enc_ok(&self) -> bool { self.wf() && self.num_bits <= u32::MAX - 31 }
    open spec fn encode(&self) -> Seq<u32> { self.bitmap_base.encode() + seq![self.num_bits] + self.bitmap@ }
@@extract fn src/structure/sequence_number.rs "Writable for NumberSet::write_to"
@@nopub
@@subst <T: ?Sized + Writer<C>>=
@@subst T=VWriter
@@subst C::Error=VError
@@ret r
@@desugar_for 1
@@loop 1
        invariant
          self.enc_ok(), word_count == ceil32(self.num_bits as int), bitmap_len == word_count,
          it_1.end == word_count, it_1.start <= word_count,
          writer.out() == old(writer).out() + self.bitmap_base.encode() + seq![self.num_bits] + self.bitmap@.take(it_1.start as int),
        ensures
          it_1.start == word_count,
        decreases it_1.end - it_1.start
@@before_loop 1
        proof { assert(writer.out() =~= old(writer).out() + self.bitmap_base.encode() + seq![self.num_bits] + self.bitmap@.take(0)); }
@@loop_body_end 1
        proof { assert(writer.out() =~= old(writer).out() + self.bitmap_base.encode() + seq![self.num_bits] + self.bitmap@.take(it_1.start as int)); }
@@after_loop 1
        proof {
            assert(self.bitmap@.take(word_count as int) =~= self.bitmap@);
            assert(writer.out() =~= old(writer).out() + self.encode());
        }
@@end
}


// "parses back to itself" for NumberSet<SequenceNumber> (over the contracts of write_to / read_from, no code):
// the words written for a valid set s, followed by anything, are accepted by the reader, occupy
// exactly len_serialized()/4 words, and every value they decode to has the base, num_bits, bitmap
// — hence the members — of s.
proof fn lemma_numset_roundtrip_sn(s: NumberSet<SequenceNumber>, rest: Seq<u32>, s2: NumberSet<SequenceNumber>)
    requires
        s.wf(), s.num_bits <= 256,
        NumberSet::<SequenceNumber>::decodes(s.encode() + rest, &s2),
    ensures
        NumberSet::<SequenceNumber>::decodable(s.encode() + rest),   // [numset.wire.roundtrip]
        NumberSet::<SequenceNumber>::consumed(s.encode() + rest) == s.encode().len(),   // [numset.wire.roundtrip]
        4 * s.encode().len() == 8 + 4 + 4 * ceil32(s.num_bits as int),   // [numset.wire.len]
        s2.bitmap_base == s.bitmap_base, s2.num_bits == s.num_bits, s2.bitmap@ == s.bitmap@,   // [numset.wire.roundtrip]
        s2.wf(),   // [numset.wire.roundtrip]
        forall|k: int| s2.member(k) <==> s.member(k),   // [numset.wire.roundtrip]
{
    let w = s.encode() + rest;
    let e = s.encode();
    assert(s.bitmap_base.encode().len() == 2);
    assert(e.len() == 2 + 1 + s.bitmap@.len());
    assert(w[2] == e[2] && e[2] == s.num_bits);
    assert(w.subrange(3int, 3int + ceil32(s.num_bits as int)) =~= s.bitmap@) by {
        assert forall|i: int| 0 <= i < s.bitmap@.len() implies w[3 + i] == s.bitmap@[i] by {
            assert(w[3 + i] == e[3 + i]);
        }
    }
    assert(w =~= s.bitmap_base.encode() + (seq![s.num_bits] + s.bitmap@ + rest));
    lemma_sn_roundtrip(s.bitmap_base, seq![s.num_bits] + s.bitmap@ + rest, s2.bitmap_base);
}

// "parses back to itself" for NumberSet<FragmentNumber> (over the contracts of write_to / read_from, no code):
// the words written for a valid set s, followed by anything, are accepted by the reader, occupy
// exactly len_serialized()/4 words, and every value they decode to has the base, num_bits, bitmap
// — hence the members — of s.
proof fn lemma_numset_roundtrip_fn(s: NumberSet<FragmentNumber>, rest: Seq<u32>, s2: NumberSet<FragmentNumber>)
    requires
        s.wf(), s.num_bits <= 256,
        NumberSet::<FragmentNumber>::decodes(s.encode() + rest, &s2),
    ensures
        NumberSet::<FragmentNumber>::decodable(s.encode() + rest),   // [numset.wire.roundtrip]
        NumberSet::<FragmentNumber>::consumed(s.encode() + rest) == s.encode().len(),   // [numset.wire.roundtrip]
        4 * s.encode().len() == 4 + 4 + 4 * ceil32(s.num_bits as int),   // [numset.wire.len]
        s2.bitmap_base == s.bitmap_base, s2.num_bits == s.num_bits, s2.bitmap@ == s.bitmap@,   // [numset.wire.roundtrip]
        s2.wf(),   // [numset.wire.roundtrip]
        forall|k: int| s2.member(k) <==> s.member(k),   // [numset.wire.roundtrip]
{
    let w = s.encode() + rest;
    let e = s.encode();
    assert(s.bitmap_base.encode().len() == 1);
    assert(e.len() == 1 + 1 + s.bitmap@.len());
    assert(w[1] == e[1] && e[1] == s.num_bits);
    assert(w.subrange(2int, 2int + ceil32(s.num_bits as int)) =~= s.bitmap@) by {
        assert forall|i: int| 0 <= i < s.bitmap@.len() implies w[2 + i] == s.bitmap@[i] by {
            assert(w[2 + i] == e[2 + i]);
        }
    }
    assert(w[0] == e[0] && e[0] == s.bitmap_base.0);
}

// ---------- lemmas (proof only) ------------------------------------------------------------------
proof fn lemma_zero_word()
    ensures forall|b: u32| b < 32 ==> !bit_set(0u32, b)
{
    assert forall|b: u32| b < 32 implies !bit_set(0u32, b) by {
        assert(0u32 & (1u32 << ((31 - b) as u32)) == 0) by (bit_vector);
    }
}

proof fn lemma_or_bit(w: u32, b: u32, c: u32)
    requires b < 32, c < 32
    ensures bit_set(w | (1u32 << ((31 - b) as u32)), c) == (bit_set(w, c) || c == b)
{
    assert(((w | (1u32 << ((31 - b) as u32))) & (1u32 << ((31 - c) as u32)) != 0)
        == ((w & (1u32 << ((31 - c) as u32)) != 0) || c == b)) by (bit_vector)
        requires b < 32, c < 32;
}

// bits_seq(lo,hi) is strictly ascending and contains exactly the set bit positions of [lo,hi)
proof fn lemma_bits_seq_exact(bm: Seq<u32>, nb: int, lo: int, hi: int)
    ensures
        forall|a: int, b: int| 0 <= a < b < bits_seq(bm, nb, lo, hi).len() ==> bits_seq(bm, nb, lo, hi)[a] < bits_seq(bm, nb, lo, hi)[b],
        forall|a: int| 0 <= a < bits_seq(bm, nb, lo, hi).len() ==> lo <= #[trigger] bits_seq(bm, nb, lo, hi)[a] < hi && has_bit(bm, nb, bits_seq(bm, nb, lo, hi)[a]),
        forall|i: int| lo <= i < hi && has_bit(bm, nb, i) ==> exists|a: int| 0 <= a < bits_seq(bm, nb, lo, hi).len() && bits_seq(bm, nb, lo, hi)[a] == i,
    decreases hi - lo
{
    let s = bits_seq(bm, nb, lo, hi);
    if lo < hi {
        lemma_bits_seq_exact(bm, nb, lo + 1, hi);
        let t = bits_seq(bm, nb, lo + 1, hi);
        if has_bit(bm, nb, lo) {
            assert(s == seq![lo] + t);
            assert(s[0] == lo);
            assert forall|a: int| 1 <= a < s.len() implies s[a] == t[a - 1] by {}
            assert forall|i: int| lo <= i < hi && has_bit(bm, nb, i) implies exists|a: int| 0 <= a < s.len() && s[a] == i by {
                if i == lo { assert(s[0] == i); }
                else { let a = choose|a: int| 0 <= a < t.len() && t[a] == i; assert(s[a + 1] == i); }
            }
        } else {
            assert(s == t);
        }
    }
}

proof fn lemma_members_seq(bm: Seq<u32>, nb: int, base: int)
    ensures ({
        let s = bits_seq(bm, nb, 0, nb).map_values(|i: int| base + i);
        &&& forall|i: int, j: int| 0 <= i < j < s.len() ==> s[i] < s[j]
        &&& forall|i: int| 0 <= i < s.len() ==> has_val(bm, nb, base, #[trigger] s[i])
        &&& forall|k: int| #[trigger] has_val(bm, nb, base, k) ==> exists|i: int| 0 <= i < s.len() && s[i] == k
    })
{
    lemma_bits_seq_exact(bm, nb, 0, nb);
    let b = bits_seq(bm, nb, 0, nb);
    let s = b.map_values(|i: int| base + i);
    assert forall|k: int| #[trigger] has_val(bm, nb, base, k) implies exists|i: int| 0 <= i < s.len() && s[i] == k by {
        let a = choose|a: int| 0 <= a < b.len() && b[a] == k - base;
        assert(s[a] == k);
    }
}

// decomposition of bits_seq from the high end
proof fn lemma_bits_seq_back(bm: Seq<u32>, nb: int, lo: int, hi: int)
    requires lo < hi
    ensures bits_seq(bm, nb, lo, hi) == bits_seq(bm, nb, lo, hi - 1) + (if has_bit(bm, nb, hi - 1) { seq![hi - 1] } else { Seq::<int>::empty() })
    decreases hi - lo
{
    let tail = if has_bit(bm, nb, hi - 1) { seq![hi - 1] } else { Seq::<int>::empty() };
    if lo + 1 == hi {
        assert(bits_seq(bm, nb, lo + 1, hi) == Seq::<int>::empty());
        assert(bits_seq(bm, nb, lo, hi - 1) == Seq::<int>::empty());
        assert(bits_seq(bm, nb, lo, hi) =~= Seq::<int>::empty() + tail);
    } else {
        lemma_bits_seq_back(bm, nb, lo + 1, hi);
        if has_bit(bm, nb, lo) {
            assert(bits_seq(bm, nb, lo, hi) =~= (seq![lo] + bits_seq(bm, nb, lo + 1, hi - 1)) + tail);
        }
    }
}

