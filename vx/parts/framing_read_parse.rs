// (shared part of units framing / framing_sec: included verbatim by both)
// one parsed submessage, as far as the wire determines it
pub struct PSub { pub header: SubmessageHeader, pub body: SubmessageBody, pub bytes: Seq<u8> }
pub open spec fn psub(sm: Submessage) -> PSub {
    PSub { header: sm.header, body: sm.body, bytes: match sm.original_bytes { Some(b) => b@, None => Seq::empty() } }
}
pub open spec fn psubs(s: Seq<Submessage>) -> Seq<PSub> { s.map_values(|sm: Submessage| psub(sm)) }

// the submessage sequence a byte string (everything after the 20-byte RTPS header) denotes; None = malformed
pub open spec fn parse_subs(b: Seq<u8>) -> Option<Seq<PSub>>
    decreases b.len()
{
    if b.len() == 0 { Some(Seq::empty()) }
    else if !framed(b) { None }
    else {
        let rest = b.subrange(sub_total(b), b.len() as int);
        match interp_body(hdr(b), body_of(b)) {
            Interp::Reject => None,
            Interp::Skip => parse_subs(rest),
            Interp::Sub(body) => match parse_subs(rest) {
                None => None,
                Some(s) => Some(seq![PSub { header: hdr(b), body, bytes: b.subrange(0, sub_total(b)) }] + s),
            },
        }
    }
}

// the contract of Message::read_from_buffer as one predicate (clause frame.rt.read of that function)
pub open spec fn msg_read_contract(b: Seq<u8>, r: io::Result<Message>) -> bool {
    &&& r is Err <==> (b.len() < 20 || !Header::decode(b.subrange(0, 20)).valid_spec() || parse_subs(b.subrange(20, b.len() as int)) is None)
    &&& r matches Ok(m) ==> m.header == Header::decode(b.subrange(0, 20)) && parse_subs(b.subrange(20, b.len() as int)) == Some(psubs(m.submessages@))
}
