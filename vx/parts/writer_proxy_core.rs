// RtpsWriterProxy under contract (shared by units writer_proxy and reader_glue)
pub assume_specification<T: Ord + core::marker::Destruct>[ std::cmp::max ](a: T, b: T) -> (r: T)
    ensures r == (if a.cmp_spec(&b) == Ordering::Greater { a } else { b });

// Range::map(closure).collect() — restricted to what missing_seqnums uses (shim, assumed)
impl<'a, K, V> BRange<'a, K, V> {
    #[verifier::external_body]
    pub fn map<T, F: Fn((&'a K, &'a V)) -> T>(self, f: F) -> (r: MappedRange<T>)
        requires forall|k: &'a K, v: &'a V| f.requires(((k, v),)),
        ensures r.items().len() == self.rem().len(),
                forall|i: int| 0 <= i < self.rem().len() ==> f.ensures(((&self.rem()[i].0, &self.rem()[i].1),), #[trigger] r.items()[i]),
    { unimplemented!() }
}
#[verifier::external_body]
#[verifier::reject_recursive_types(T)]
pub struct MappedRange<T> { v: Vec<T> }
impl<T> MappedRange<T> {
    pub uninterp spec fn items(&self) -> Seq<T>;
    #[verifier::external_body]
    pub fn collect(self) -> (r: Vec<T>) ensures r@ == self.items() { unimplemented!() }
}

@@extract struct src/structure/time.rs Timestamp derive=Clone,Copy

@@extract struct src/rtps/rtps_writer_proxy.rs RtpsWriterProxy keep=changes,ack_base,sent_ack_nack_count,received_heartbeat_count,last_received_sequence_number,last_received_timestamp

impl RtpsWriterProxy {
  // covered(k): k is below the acknowledgment frontier or recorded as received / not available
  pub open spec fn covered(&self, k: i64) -> bool {
      k < self.ack_base.0 || self.changes@.contains_key(SequenceNumber(k))
  }
  // data-structure invariant: the frontier is maximal
  pub open spec fn wf(&self) -> bool { !self.changes@.contains_key(self.ack_base) }
  // arithmetic validity (C06 establishment): no key at i64::MAX
  pub open spec fn valid(&self) -> bool {
      forall|k: SequenceNumber| self.changes@.contains_key(k) ==> k.0 < i64::MAX
  }

@@extract fn src/rtps/rtps_writer_proxy.rs RtpsWriterProxy::next_ack_nack_sequence_number
@@ret r
@@requires valid.count
    old(self).sent_ack_nack_count < i32::MAX
@@ensures acknack.count
    r == old(self).sent_ack_nack_count,
    final(self).sent_ack_nack_count == old(self).sent_ack_nack_count + 1,
    final(self).changes == old(self).changes, final(self).ack_base == old(self).ack_base,
@@end

@@extract fn src/rtps/rtps_writer_proxy.rs RtpsWriterProxy::all_ackable_before
@@ret r
@@ensures wp.ackable
    r == self.ack_base
@@end

@@extract fn src/rtps/rtps_writer_proxy.rs RtpsWriterProxy::should_ignore_change
@@ret r
@@ensures wp.ignore
    r == self.covered(seqnum.0)
@@end

@@extract fn src/rtps/rtps_writer_proxy.rs RtpsWriterProxy::advance_ack_base
@@requires valid.wp
    old(self).valid()
@@ensures wp.frontier.same
    final(self).changes@ == old(self).changes@,
    final(self).sent_ack_nack_count == old(self).sent_ack_nack_count,
    final(self).last_received_sequence_number == old(self).last_received_sequence_number,
@@ensures wp.mono
    final(self).ack_base.0 >= old(self).ack_base.0
@@ensures wp.frontier.run
    forall|k: i64| old(self).ack_base.0 <= k < final(self).ack_base.0 ==> old(self).changes@.contains_key(SequenceNumber(k))
@@ensures wp.frontier.max
    final(self).wf()
@@ensures valid.wp.keep
    final(self).valid()
@@desugar_for 1
@@before_loop 1
    let ghost all = it_1.rem();
    let ghost base0 = self.ack_base.0;
    let ghost mut idx: int = 0;
@@loop 1
        invariant_except_break
            it_1.rem() == all.skip(idx),
        invariant
            self.changes@ == old(self).changes@,
            self.sent_ack_nack_count == old(self).sent_ack_nack_count,
            self.last_received_sequence_number == old(self).last_received_sequence_number,
            old(self).valid(),
            is_range_of(all, self.changes@, Bound::Included(SequenceNumber(base0)), Bound::Unbounded),
            0 <= idx <= all.len(),
            test_sn.0 == base0 + idx,
            self.ack_base.0 == test_sn.0,
            base0 == old(self).ack_base.0,
            forall|i: int| 0 <= i < idx ==> (#[trigger] all[i]).0.0 == base0 + i,
        ensures
            idx == all.len() || all[idx].0.0 != base0 + idx,
        decreases all.len() - idx,
@@loop_body_start 1
    proof { assert(self.changes@.contains_key(all[idx].0)); }
@@loop_body_end 1
    proof { idx = idx + 1; }
@@after_loop 1
    proof {
        lemma_frontier(all, idx, base0, self.changes@, self.ack_base);
    }
@@end

@@extract fn src/rtps/rtps_writer_proxy.rs RtpsWriterProxy::received_changes_add
@@requires valid.wp
    old(self).valid(), seq_num.0 < i64::MAX
@@requires wf.wp
    old(self).wf()
@@ensures wf.wp
    final(self).wf(), final(self).valid()
@@ensures wp.add
    forall|k: i64| #[trigger] final(self).covered(k) <==> (old(self).covered(k) || k == seq_num.0),
    final(self).changes@.contains_key(seq_num) ==> final(self).changes@[seq_num] == Some(receive_timestamp),
@@ensures wp.mono
    final(self).ack_base.0 >= old(self).ack_base.0
@@ensures wp.add.frontier
    forall|k: i64| old(self).ack_base.0 <= k < final(self).ack_base.0 ==> k == seq_num.0 || old(self).changes@.contains_key(SequenceNumber(k))
@@body_end
    proof {
        assert forall|k: i64| #[trigger] self.covered(k) <==> (old(self).covered(k) || k == seq_num.0) by {
            assert(SequenceNumber(k) == seq_num <==> k == seq_num.0);
            if old(self).ack_base.0 <= k < self.ack_base.0 { assert(self.changes@.contains_key(SequenceNumber(k))); }
        }
        assert forall|k: i64| old(self).ack_base.0 <= k < self.ack_base.0 implies k == seq_num.0 || old(self).changes@.contains_key(SequenceNumber(k)) by {
            assert(self.changes@.contains_key(SequenceNumber(k)));
            assert(SequenceNumber(k) == seq_num <==> k == seq_num.0);
        }
    }
@@end

@@extract fn src/rtps/rtps_writer_proxy.rs RtpsWriterProxy::set_irrelevant_change
@@requires valid.wp
    old(self).valid(), seq_num.0 < i64::MAX
@@requires wf.wp
    old(self).wf()
@@ensures wf.wp
    final(self).wf(), final(self).valid()
@@ensures wp.irr1
    forall|k: i64| #[trigger] final(self).covered(k) <==> (old(self).covered(k) || k == seq_num.0)
@@ensures wp.mono
    final(self).ack_base.0 >= old(self).ack_base.0
@@body_end
    proof {
        assert forall|k: i64| #[trigger] self.covered(k) <==> (old(self).covered(k) || k == seq_num.0) by {
            assert(SequenceNumber(k) == seq_num <==> k == seq_num.0);
            if old(self).ack_base.0 <= k < self.ack_base.0 { assert(self.changes@.contains_key(SequenceNumber(k))); }
        }
    }
@@end

@@extract fn src/rtps/rtps_writer_proxy.rs RtpsWriterProxy::irrelevant_changes_range
@@requires valid.wp
    old(self).valid(), remove_until_before.0 < i64::MAX, remove_until_before.0 > i64::MIN
@@requires wf.wp
    old(self).wf()
@@ensures wf.wp
    final(self).wf(), final(self).valid()
@@ensures wp.mono
    final(self).ack_base.0 >= old(self).ack_base.0
@@ensures wp.irrR
    remove_from.0 <= remove_until_before.0 ==>
      forall|k: i64| #[trigger] final(self).covered(k) <==> (old(self).covered(k) || remove_from.0 <= k < remove_until_before.0),
    remove_from.0 > remove_until_before.0 ==> final(self).changes@ == old(self).changes@ && final(self).ack_base == old(self).ack_base,
@@ensures wp.irrR.frame
    final(self).sent_ack_nack_count == old(self).sent_ack_nack_count
@@after "self.advance_ack_base(); }"
      proof {
        assert forall|k: i64| #[trigger] self.covered(k) <==> (old(self).covered(k) || remove_from.0 <= k < remove_until_before.0) by {
            if self.covered(k) { if k < self.ack_base.0 { if k >= remove_until_before.0 && k >= old(self).ack_base.0 { assert(self.changes@.contains_key(SequenceNumber(k))); } } }
            assert(klt(SequenceNumber(k), remove_from) <==> k < remove_from.0);
            assert(klt(SequenceNumber(k), remove_until_before) <==> k < remove_until_before.0);
        }
      }
@@desugar_for 1
@@loop 1
        invariant_except_break
            it_1.begin.0 <= it_1.end.0 + 1,
        invariant
            it_1.end.0 == remove_until_before.0 - 1,
            remove_from.0 <= it_1.begin.0 <= remove_until_before.0,
            self.ack_base == old(self).ack_base,
            self.sent_ack_nack_count == old(self).sent_ack_nack_count,
            remove_from.0 > self.ack_base.0,
            remove_until_before.0 < i64::MAX,
            forall|k: SequenceNumber| #[trigger] self.changes@.contains_key(k) <==> (old(self).changes@.contains_key(k) || remove_from.0 <= k.0 < it_1.begin.0),
        ensures it_1.begin.0 == remove_until_before.0 || remove_from.0 == remove_until_before.0
        decreases it_1.count()
@@after_loop 1
      proof {
        assert(it_1.begin.0 == remove_until_before.0);
        assert forall|k: i64| #[trigger] self.covered(k) <==> (old(self).covered(k) || remove_from.0 <= k < remove_until_before.0) by { }
      }
@@end

@@extract fn src/rtps/rtps_writer_proxy.rs RtpsWriterProxy::irrelevant_changes_up_to
@@requires valid.wp
    old(self).valid(), smallest_seqnum.0 < i64::MAX, smallest_seqnum.0 > i64::MIN
@@requires wf.wp
    old(self).wf()
@@ensures wf.wp
    final(self).wf(), final(self).valid()
@@ensures wp.mono
    final(self).ack_base.0 >= old(self).ack_base.0
@@ensures wp.irrUpTo
    forall|k: i64| #[trigger] final(self).covered(k) <==> (old(self).covered(k) || 0 <= k < smallest_seqnum.0)
@@end

@@extract fn src/rtps/rtps_writer_proxy.rs RtpsWriterProxy::missing_seqnums
@@ret r
@@requires valid.hb
    hb_last_sn.0 < i64::MAX - 1
@@ensures acknack.missing.empty
    hb_first_sn.0 > hb_last_sn.0 ==> r@.len() == 0
@@ensures acknack.missing.sound
    forall|i: int| 0 <= i < r@.len() ==> hb_first_sn.0 <= (#[trigger] r@[i]).0 <= hb_last_sn.0 && self.ack_base.0 <= r@[i].0 && !self.changes@.contains_key(r@[i])
@@ensures acknack.missing.ascending
    forall|i: int, j: int| 0 <= i < j < r@.len() ==> r@[i].0 < r@[j].0
@@ensures acknack.missing.complete
    // the result is the ascending list of ALL missing sequence numbers of the advertised range,
    // cut after at most 256 entries: every missing SN up to the last listed one is listed, and if
    // fewer than 256 are listed, every missing SN is.  (So its head is the lowest missing SN.)
    forall|m: i64| hb_first_sn.0 <= m <= hb_last_sn.0 && self.ack_base.0 <= m && !self.changes@.contains_key(SequenceNumber(m))
        && (r@.len() < 256 || m <= r@[r@.len() - 1].0)
        ==> exists|i: int| 0 <= i < r@.len() && (#[trigger] r@[i]).0 == m
@@ensures work.missing.len
    // memory in proportion to what one ACKNACK can carry, not to the advertised (wire) range
    r@.len() <= 256
@@type_local missing_seqnums: Vec<SequenceNumber>
@@type_local known: Vec<SequenceNumber>
@@closure 1
    |e: (&SequenceNumber, &Option<Timestamp>)| -> (o: SequenceNumber) ensures o == *e.0
@@before "let mut known_iter"
    let ghost lo: int = relevant_interval.begin.0 as int;
    let ghost last: int = hb_last_sn.0 as int;
    proof { lemma_known(known@, self.changes@, relevant_interval, hb_first_sn, self.ack_base, hb_last_sn); }
@@desugar_for 1
@@before_loop 1
    let ghost mut ki: int = 0;
    let ghost mut done: int = lo;      // every SN in [lo, done) has been classified
    let ghost mut steps: int = 0;      // loop iterations so far
@@loop 1
      invariant_except_break
        it_1.begin.0 == done,
      invariant
        it_1.end.0 == last, lo <= done <= last + 1 || (lo > last && done == lo),
        last < i64::MAX - 1,
        lo == (if hb_first_sn.0 > self.ack_base.0 { hb_first_sn.0 } else { self.ack_base.0 }),
        0 <= ki <= known@.len(),
        ki < known@.len() ==> known_head == Some(&known@[ki]) && IteratorSpec::remaining(&known_iter).len() == known@.len() - ki - 1
             && (forall|t: int| 0 <= t < known@.len() - ki - 1 ==> *IteratorSpec::remaining(&known_iter)[t] == known@[ki + 1 + t]),
        ki == known@.len() ==> known_head.is_none() && IteratorSpec::remaining(&known_iter).len() == 0,
        known_sorted_exact(known@, self.changes@, lo, last),
        forall|a: int| 0 <= a < ki ==> (#[trigger] known@[a]).0 < done,
        ki < known@.len() ==> known@[ki].0 >= done,
        forall|i: int| 0 <= i < missing_seqnums@.len() ==> lo <= (#[trigger] missing_seqnums@[i]).0 < done && !self.changes@.contains_key(missing_seqnums@[i]),
        forall|i: int, j: int| 0 <= i < j < missing_seqnums@.len() ==> missing_seqnums@[i].0 < missing_seqnums@[j].0,
        forall|m: i64| lo <= m < done && m <= last && !self.changes@.contains_key(SequenceNumber(m)) ==> exists|i: int| 0 <= i < missing_seqnums@.len() && (#[trigger] missing_seqnums@[i]).0 == m,
        steps == ki + missing_seqnums@.len(),
        missing_seqnums@.len() <= 256,                                   // [work.missing.len]
      ensures
        done > last || missing_seqnums@.len() >= 256,
      decreases last + 1 - done
@@loop_body_start 1
      let ghost old_missing = missing_seqnums@;
      proof { if ki < known@.len() && known@[ki] == s { assert(self.changes@.contains_key(known@[ki])); } }
@@after "known_head = known_iter.next();" 2
      proof { ki = ki + 1; }
@@loop_body_end 1
      proof {
        if missing_seqnums@.len() != old_missing.len() {
            // s was pushed
            assert(missing_seqnums@ == old_missing.push(s));
            lemma_missing_step(old_missing, missing_seqnums@, s, known@, ki, self.changes@, lo, last);
        }
        done = done + 1;
        steps = steps + 1;
      }
@@after_loop 1
      proof {
        // work bound: iterations <= |known changes in range| + 256, independent of the advertised range
        assert(steps <= known@.len() + 256);                             // [work.missing.steps]
      }
@@end
}

// ---------- lemmas (proof only; no executable code) ----------
pub open spec fn known_sorted_exact(known: Seq<SequenceNumber>, m: Map<SequenceNumber, Option<Timestamp>>, lo: int, last: int) -> bool {
    &&& forall|a: int, b: int| 0 <= a < b < known.len() ==> known[a].0 < known[b].0
    &&& forall|a: int| 0 <= a < known.len() ==> lo <= (#[trigger] known[a]).0 <= last && m.contains_key(known[a])
    &&& forall|k: i64| lo <= k <= last && m.contains_key(SequenceNumber(k)) ==> exists|a: int| 0 <= a < known.len() && (#[trigger] known[a]).0 == k
}

proof fn lemma_frontier(all: Seq<(SequenceNumber, Option<Timestamp>)>, idx: int, base0: i64, m: Map<SequenceNumber, Option<Timestamp>>, ack_base: SequenceNumber)
    requires
        is_range_of(all, m, Bound::Included(SequenceNumber(base0)), Bound::Unbounded),
        0 <= idx <= all.len(),
        ack_base.0 == base0 + idx,
        forall|i: int| 0 <= i < idx ==> (#[trigger] all[i]).0.0 == base0 + i,
        idx == all.len() || all[idx].0.0 != base0 + idx,
    ensures
        forall|k: i64| base0 <= k < ack_base.0 ==> m.contains_key(SequenceNumber(k)),
        !m.contains_key(ack_base),
{
    assert forall|k: i64| base0 <= k < ack_base.0 implies m.contains_key(SequenceNumber(k)) by {
        let i = k - base0;
        assert(all[i].0.0 == k);
        assert(m.contains_key(all[i].0));
        assert(all[i].0 == SequenceNumber(k));
    }
    if m.contains_key(ack_base) {
        assert(in_bounds(ack_base, Bound::Included(SequenceNumber(base0)), Bound::Unbounded::<SequenceNumber>));
        let i = choose|i: int| 0 <= i < all.len() && all[i].0 == ack_base;
        if i < idx { assert(all[i].0.0 == base0 + i); }
        else if i > idx {
            assert(klt(all[idx].0, all[i].0));
            if idx > 0 { assert(klt(all[idx-1].0, all[idx].0)); assert(all[idx-1].0.0 == base0 + idx - 1); }
            else { assert(m.contains_key(all[0].0)); assert(in_bounds(all[0].0, Bound::Included(SequenceNumber(base0)), Bound::Unbounded::<SequenceNumber>)); }
        }
    }
}

proof fn lemma_known(known: Seq<SequenceNumber>, m: Map<SequenceNumber, Option<Timestamp>>, ri: SequenceNumberRange,
                     first: SequenceNumber, ack_base: SequenceNumber, last: SequenceNumber)
    requires
        ri.begin.0 == (if first.0 > ack_base.0 { first.0 } else { ack_base.0 }),
        ri.end == last,
        ri.begin.0 <= ri.end.0 ==> exists|rem: Seq<(SequenceNumber, Option<Timestamp>)>| rem.len() == known.len()
            && is_range_of(rem, m, ri.lo(), ri.hi())
            && (forall|i: int| 0 <= i < rem.len() ==> (#[trigger] known[i]) == rem[i].0),
        ri.begin.0 > ri.end.0 ==> known.len() == 0,
    ensures known_sorted_exact(known, m, ri.begin.0 as int, last.0 as int)
{
    let lo = ri.begin.0;
    if ri.begin.0 <= ri.end.0 {
        let rem = choose|rem: Seq<(SequenceNumber, Option<Timestamp>)>| rem.len() == known.len() && is_range_of(rem, m, ri.lo(), ri.hi())
            && (forall|i: int| 0 <= i < rem.len() ==> (#[trigger] known[i]) == rem[i].0);
        assert forall|a: int, b: int| 0 <= a < b < known.len() implies known[a].0 < known[b].0 by {
            assert(klt(rem[a].0, rem[b].0));
        }
        assert forall|a: int| 0 <= a < known.len() implies lo <= (#[trigger] known[a]).0 <= last.0 && m.contains_key(known[a]) by {
            assert(m.contains_key(rem[a].0));
            assert(in_bounds(rem[a].0, ri.lo(), ri.hi()));
        }
        assert forall|k: i64| lo <= k <= last.0 && m.contains_key(SequenceNumber(k)) implies exists|a: int| 0 <= a < known.len() && (#[trigger] known[a]).0 == k by {
            assert(in_bounds(SequenceNumber(k), ri.lo(), ri.hi()));
            let a = choose|a: int| 0 <= a < rem.len() && rem[a].0 == SequenceNumber(k);
            assert(known[a].0 == k);
        }
    }
}

proof fn lemma_missing_step(old_missing: Seq<SequenceNumber>, missing: Seq<SequenceNumber>, s: SequenceNumber,
                            known: Seq<SequenceNumber>, ki: int, m: Map<SequenceNumber, Option<Timestamp>>, lo: int, last: int)
    requires
        missing == old_missing.push(s),
        known_sorted_exact(known, m, lo, last),
        0 <= ki <= known.len(),
        lo <= s.0 <= last,
        forall|a: int| 0 <= a < ki ==> (#[trigger] known[a]).0 < s.0,
        ki < known.len() ==> known[ki].0 > s.0,
        forall|i: int| 0 <= i < old_missing.len() ==> lo <= (#[trigger] old_missing[i]).0 < s.0 && !m.contains_key(old_missing[i]),
        forall|i: int, j: int| 0 <= i < j < old_missing.len() ==> old_missing[i].0 < old_missing[j].0,
        forall|x: i64| lo <= x < s.0 && x <= last && !m.contains_key(SequenceNumber(x)) ==> exists|i: int| 0 <= i < old_missing.len() && (#[trigger] old_missing[i]).0 == x,
    ensures
        !m.contains_key(s),
        forall|i: int| 0 <= i < missing.len() ==> lo <= (#[trigger] missing[i]).0 < s.0 + 1 && !m.contains_key(missing[i]),
        forall|i: int, j: int| 0 <= i < j < missing.len() ==> missing[i].0 < missing[j].0,
        forall|x: i64| lo <= x < s.0 + 1 && x <= last && !m.contains_key(SequenceNumber(x)) ==> exists|i: int| 0 <= i < missing.len() && (#[trigger] missing[i]).0 == x,
{
    if m.contains_key(s) {
        assert(s == SequenceNumber(s.0));
        let a = choose|a: int| 0 <= a < known.len() && (#[trigger] known[a]).0 == s.0;
        if a < ki { assert(known[a].0 < s.0); } else if a > ki { assert(known[ki].0 < known[a].0); }
    }
    assert(missing[missing.len() - 1] == s);
    assert forall|i: int| 0 <= i < missing.len() implies lo <= (#[trigger] missing[i]).0 < s.0 + 1 && !m.contains_key(missing[i]) by {
        if i < old_missing.len() { assert(missing[i] == old_missing[i]); }
    }
    assert forall|i: int, j: int| 0 <= i < j < missing.len() implies missing[i].0 < missing[j].0 by {
        assert(missing[i] == old_missing[i]);
        if j < old_missing.len() { assert(missing[j] == old_missing[j]); }
    }
    assert forall|x: i64| lo <= x < s.0 + 1 && x <= last && !m.contains_key(SequenceNumber(x)) implies exists|i: int| 0 <= i < missing.len() && (#[trigger] missing[i]).0 == x by {
        if x == s.0 { assert(missing[missing.len() - 1].0 == x); }
        else { let i = choose|i: int| 0 <= i < old_missing.len() && (#[trigger] old_missing[i]).0 == x; assert(missing[i] == old_missing[i]); }
    }
}

