// (shared part of units framing / framing_sec: included verbatim by both)
// ---------------------------------------------------------------------------------------------
// Specification vocabulary (RTPS 9.4.5.1 "Submessage header", 8.3.3.2 / 9.4.5.1.3 octetsToNextHeader)
// ---------------------------------------------------------------------------------------------
// 9.4.5.1.2: flag bit 0 (E) set = little endian
pub open spec fn flag_endianness(flags: u8) -> Endianness {
    if flags & 0x01 == 0 { Endianness::BigEndian } else { Endianness::LittleEndian }
}
// 9.4.5.1: the 4-byte submessage header: submessageId, flags, octetsToNextHeader (ushort in the byte order of the E flag)
pub open spec fn hdr_decode(b: Seq<u8>) -> SubmessageHeader {
    SubmessageHeader {
        kind: SubmessageKind { value: b[0] },
        flags: b[1],
        content_length: (match flag_endianness(b[1]) {
            Endianness::LittleEndian => b[2] as int + 256 * (b[3] as int),
            Endianness::BigEndian => 256 * (b[2] as int) + b[3] as int,
        }) as u16,
    }
}
// the submessage header at the head of b (b has at least 4 bytes)
pub open spec fn hdr(b: Seq<u8>) -> SubmessageHeader { SubmessageHeader::decode(b.subrange(0, 4)) }
// 9.4.5.1.3: number of content bytes of a submessage with header h when `avail` bytes (header included)
// are left in the message: octetsToNextHeader, except that 0 means "up to the end of the message"
// unless the kind is PAD or INFO_TS (then the content is empty)
pub open spec fn content_len(h: SubmessageHeader, avail: int) -> int {
    if h.content_length != 0 { h.content_length as int }
    else if h.kind == SubmessageKind::PAD || h.kind == SubmessageKind::INFO_TS { 0 }
    else { avail - 4 }
}
// bytes the submessage at the head of b occupies (header + content)
pub open spec fn sub_total(b: Seq<u8>) -> int { 4 + content_len(hdr(b), b.len() as int) }
// b starts with a complete submessage: a whole header, and the announced content is there
pub open spec fn framed(b: Seq<u8>) -> bool { b.len() >= 4 && sub_total(b) <= b.len() }
// exactly the content bytes: [4, 4 + content length)
pub open spec fn body_of(b: Seq<u8>) -> Seq<u8> { b.subrange(4, sub_total(b)) }

// what the interpreter makes of one well-framed submessage (8.3.4.1: unknown submessage kinds,
// vendor-specific ones and PAD are skipped and processing continues with the next submessage)
pub enum Interp { Reject, Skip, Sub(SubmessageBody) }

pub open spec fn lift<X>(o: Option<X>, f: spec_fn(X) -> SubmessageBody) -> Interp {
    match o { Some(x) => Interp::Sub(f(x)), None => Interp::Reject }
}
