// ---------------------------------------------------------------------------------------------
// Lemmas of unit announce (proved): a loop that visits every key of a map once and replaces the entry
// by one RELATED to it (the relational sibling of `mapped` in unit fanout).
// ---------------------------------------------------------------------------------------------
// every entry of `post` is related by `rel` to the same entry of `pre`; the key set is unchanged
pub open spec fn mapped_rel<K, V>(pre: Map<K, V>, post: Map<K, V>, rel: spec_fn(V, V) -> bool) -> bool {
    &&& post.dom() == pre.dom()
    &&& forall|k: K| #[trigger] pre.contains_key(k) ==> rel(pre[k], post[k])
}
// loop state: the first n keys of ks have been processed
pub open spec fn mapped_rel_upto<K, V>(pre: Map<K, V>, cur: Map<K, V>, ks: Seq<K>, n: int, rel: spec_fn(V, V) -> bool) -> bool {
    &&& cur.dom() == pre.dom()
    &&& forall|j: int| 0 <= j < n ==> rel(pre[#[trigger] ks[j]], cur[ks[j]])
    &&& forall|j: int| n <= j < ks.len() ==> cur[#[trigger] ks[j]] == pre[ks[j]]
}
pub proof fn lemma_mapped_rel_done<K, V>(pre: Map<K, V>, cur: Map<K, V>, ks: Seq<K>, rel: spec_fn(V, V) -> bool)
    requires mapped_rel_upto(pre, cur, ks, ks.len() as int, rel), forall|k: K| ks.contains(k) <==> pre.contains_key(k),
    ensures mapped_rel(pre, cur, rel)
{
    assert forall|k: K| #[trigger] pre.contains_key(k) implies rel(pre[k], cur[k]) by {
        assert(ks.contains(k));
        let j = choose|j: int| 0 <= j < ks.len() && ks[j] == k;
        assert(rel(pre[ks[j]], cur[ks[j]]));
    }
}
pub proof fn lemma_mapped_rel_step<K, V>(pre: Map<K, V>, cur: Map<K, V>, nxt: Map<K, V>, ks: Seq<K>, n: int, rel: spec_fn(V, V) -> bool)
    requires
        mapped_rel_upto(pre, cur, ks, n, rel), 0 <= n < ks.len(), ks.no_duplicates(), pre.contains_key(ks[n]),
        nxt == cur.insert(ks[n], nxt[ks[n]]), rel(cur[ks[n]], nxt[ks[n]]),
    ensures mapped_rel_upto(pre, nxt, ks, n + 1, rel)
{
    assert(cur[ks[n]] == pre[ks[n]]);
    assert(nxt.dom() =~= pre.dom());
    assert forall|j: int| 0 <= j < n + 1 implies rel(pre[#[trigger] ks[j]], nxt[ks[j]]) by {
        if j < n { assert(ks[j] != ks[n]); }
    }
    assert forall|j: int| n + 1 <= j < ks.len() implies nxt[#[trigger] ks[j]] == pre[ks[j]] by {
        assert(ks[j] != ks[n]);
    }
}
