// ---------------------------------------------------------------------------------------------
// Lemmas of unit disc_plcdr
// ---------------------------------------------------------------------------------------------
// what get_all_from_pl_map looks up in the map is what the list carries under the PID, in list order
pub proof fn lemma_vals_in_map(m: Map<ParameterId, Vec<&Parameter>>, s: Seq<Parameter>)
    requires map_groups(m, s)
    ensures forall|p: ParameterId| #[trigger] vals_in_map(m, p) == vals_of(s, p)
{
    assert forall|p: ParameterId| #[trigger] vals_in_map(m, p) == vals_of(s, p) by {
        assert(vals_in_map(m, p) =~= vals_of(s, p));
    }
}

// ---- locator lists ------------------------------------------------------------------------------
// a list of representable locators, written one parameter per locator, reads back as itself (axiom_rt_locator per element)
pub proof fn lemma_locs_roundtrip(l: Seq<Locator>, ctx: Endianness)
    requires forall|i: int| 0 <= i < l.len() ==> locator_representable(#[trigger] l[i])
    ensures all_rd::<Locator>(locs_wire(l, ctx), ctx) == Some(l)
{
    axiom_rt_locator();
    let w = locs_wire(l, ctx);
    assert forall|i: int| 0 <= i < w.len() implies unwire::<Locator>(#[trigger] w[i], ctx) == Some(l[i]) by {
        assert(locator_representable(l[i]));
    }
    assert(all_rd::<Locator>(w, ctx).unwrap() =~= l);
}
pub open spec fn all_representable(l: Seq<Locator>) -> bool { forall|i: int| 0 <= i < l.len() ==> locator_representable(#[trigger] l[i]) }

// ---- "parameters the implementation does not know are skipped": the PIDs the three decoders look at ------
pub open spec fn sedp_pid(p: ParameterId) -> bool {
    known_pid(p) || p.value == 0x0043 || p.value == 0x005A || p.value == 0x002F || p.value == 0x0030 || p.value == 0x0050
    || p.value == 0x0005 || p.value == 0x0007 || p.value == 0x0035 || p.value == 0x0060 || p.value == 0x0080 || p.value == 0x0081 || p.value == 0x0082
}
// s2 carries under every PID of the set what s carries (anything under the other PIDs, anywhere in between)
pub open spec fn agree_sedp(s: Seq<Parameter>, s2: Seq<Parameter>) -> bool {
    forall|p: ParameterId| sedp_pid(p) ==> #[trigger] vals_of(s2, p) == vals_of(s, p)
}
// "arbitrary extra parameters interleaved": a parameter with any other PID inserted at ANY position changes nothing under these PIDs
pub proof fn lemma_sedp_insert_unknown(s: Seq<Parameter>, i: int, np: Parameter)
    requires 0 <= i <= s.len(), !sedp_pid(np.parameter_id)
    ensures agree_sedp(s, s.insert(i, np))   // [plcdr.reader.unknown]
{
    assert forall|p: ParameterId| sedp_pid(p) implies #[trigger] vals_of(s.insert(i, np), p) == vals_of(s, p) by {
        lemma_vals_insert_other(s, i, np, p);
    }
}
pub proof fn lemma_agree_known_view(s: Seq<Parameter>, s2: Seq<Parameter>)
    requires forall|p: ParameterId| known_pid(p) ==> #[trigger] vals_of(s2, p) == vals_of(s, p)
    ensures known_view_of(s2) == known_view_of(s)
{
    assert(vals_of(s2, pid_of(0x001D)) == vals_of(s, pid_of(0x001D))); assert(vals_of(s2, pid_of(0x0021)) == vals_of(s, pid_of(0x0021)));
    assert(vals_of(s2, pid_of(0x0023)) == vals_of(s, pid_of(0x0023))); assert(vals_of(s2, pid_of(0x0027)) == vals_of(s, pid_of(0x0027)));
    assert(vals_of(s2, pid_of(0x001F)) == vals_of(s, pid_of(0x001F))); assert(vals_of(s2, pid_of(0x0006)) == vals_of(s, pid_of(0x0006)));
    assert(vals_of(s2, pid_of(0x001B)) == vals_of(s, pid_of(0x001B))); assert(vals_of(s2, pid_of(0x0004)) == vals_of(s, pid_of(0x0004)));
    assert(vals_of(s2, pid_of(0x001A)) == vals_of(s, pid_of(0x001A))); assert(vals_of(s2, pid_of(0x0025)) == vals_of(s, pid_of(0x0025)));
    assert(vals_of(s2, pid_of(0x0040)) == vals_of(s, pid_of(0x0040))); assert(vals_of(s2, pid_of(0x0041)) == vals_of(s, pid_of(0x0041)));
    assert(vals_of(s2, pid_of(0x002B)) == vals_of(s, pid_of(0x002B)));
}
// the outcome the reader decoder's contract prescribes is a function of what the list carries under these PIDs only
pub proof fn lemma_reader_unknown(s: Seq<Parameter>, s2: Seq<Parameter>, ctx: Endianness)
    requires agree_sedp(s, s2)
    ensures
        reader_decodable(s2, ctx) == reader_decodable(s, ctx),            // [plcdr.reader.unknown]
        reader_decoded(s2, ctx) == reader_decoded(s, ctx),                // [plcdr.reader.unknown]
        forall|a: ReaderView| reader_read_ok(a, s2, ctx) == reader_read_ok(a, s, ctx),   // [plcdr.reader.unknown]
{
    lemma_agree_known_view(s, s2);
    assert(vals_of(s2, pid_of(0x0043)) == vals_of(s, pid_of(0x0043))); assert(vals_of(s2, pid_of(0x005A)) == vals_of(s, pid_of(0x005A)));
    assert(vals_of(s2, pid_of(0x002F)) == vals_of(s, pid_of(0x002F))); assert(vals_of(s2, pid_of(0x0030)) == vals_of(s, pid_of(0x0030)));
    assert(vals_of(s2, pid_of(0x0050)) == vals_of(s, pid_of(0x0050))); assert(vals_of(s2, pid_of(0x0005)) == vals_of(s, pid_of(0x0005)));
    assert(vals_of(s2, pid_of(0x0007)) == vals_of(s, pid_of(0x0007))); assert(vals_of(s2, pid_of(0x0035)) == vals_of(s, pid_of(0x0035)));
    assert(vals_of(s2, pid_of(0x0080)) == vals_of(s, pid_of(0x0080))); assert(vals_of(s2, pid_of(0x0081)) == vals_of(s, pid_of(0x0081)));
    assert(vals_of(s2, pid_of(0x0082)) == vals_of(s, pid_of(0x0082)));
}

// ---- ROUND TRIP of the reader discovery data ------------------------------------------------------
// the values the round trip is claimed for: ONE endpoint GUID (remoteReaderGuid == key, figure 8.30), locators that
// Locator_t can represent (domain of harness c15_rt_locator), and no DDS-RPC fields (open finding F20: they are written
// but never read - the clause that would demand them is plcdr.reader.rpc_fields)
pub open spec fn reader_rt_domain(d: ReaderView) -> bool {
    &&& d.remote_reader_guid == d.key
    &&& all_representable(d.unicast) && all_representable(d.multicast)
    &&& d.service_instance_name is None && d.related_key is None && d.topic_aliases is None
}
// over the contracts plcdr.reader.emit / plcdr.reader.read, for EVERY DiscoveredReaderData value in that domain (every
// combination of present / absent optional fields, any lists, any strings, every policy set) and both byte orders:
//   s   the parameter list to_parameter_list builds (it carries exactly the reader data)
//   s2  the list from_pl_cdr_bytes parses: the same values in the same order under the PIDs the decoder looks at (i.e.
//       assuming the byte layer - framing, padding, sentinel - hands parameter values over unchanged), anything elsewhere
// then s2 is decodable and ANY result the decoder's contract allows is the original value.
pub proof fn lemma_reader_roundtrip(dd: DiscoveredReaderData, ctx: Endianness, s: Seq<Parameter>, s2: Seq<Parameter>)
    requires encodes_reader(s, reader_view(dd), ctx), agree_sedp(s, s2), reader_rt_domain(reader_view(dd))
    ensures
        reader_decodable(s2, ctx),                                                                   // [plcdr.reader.roundtrip]
        reader_decoded(s2, ctx) == reader_view(dd),                                                  // [plcdr.reader.roundtrip]
        forall|a: ReaderView| reader_read_ok(a, s2, ctx) ==> a == reader_view(dd),                   // [plcdr.reader.roundtrip]
{
    let d = reader_view(dd);
    axiom_rt_guid(); axiom_rt_string_with_nul(); axiom_rt_bool(); axiom_rt_content_filter_property();
    assert forall|p: ParameterId| known_pid(p) implies emits(d.qos, ctx, p, #[trigger] vals_of(s2, p)) by {
        assert(reader_emits(d, ctx, p, vals_of(s, p)));
        assert(vals_of(s2, p) == vals_of(s, p));
    }
    lemma_qos_roundtrip_seq(d.qos, ctx, s2);
    assert(endpoint_qos(d.qos) == d.qos);
    lemma_locs_roundtrip(d.unicast, ctx); lemma_locs_roundtrip(d.multicast, ctx);
    assert(reader_emits(d, ctx, pid_of(0x0043), vals_of(s, pid_of(0x0043))) && vals_of(s2, pid_of(0x0043)) == vals_of(s, pid_of(0x0043)));
    assert(reader_emits(d, ctx, pid_of(0x005A), vals_of(s, pid_of(0x005A))) && vals_of(s2, pid_of(0x005A)) == vals_of(s, pid_of(0x005A)));
    assert(reader_emits(d, ctx, pid_of(0x002F), vals_of(s, pid_of(0x002F))) && vals_of(s2, pid_of(0x002F)) == vals_of(s, pid_of(0x002F)));
    assert(reader_emits(d, ctx, pid_of(0x0030), vals_of(s, pid_of(0x0030))) && vals_of(s2, pid_of(0x0030)) == vals_of(s, pid_of(0x0030)));
    assert(reader_emits(d, ctx, pid_of(0x0050), vals_of(s, pid_of(0x0050))) && vals_of(s2, pid_of(0x0050)) == vals_of(s, pid_of(0x0050)));
    assert(reader_emits(d, ctx, pid_of(0x0005), vals_of(s, pid_of(0x0005))) && vals_of(s2, pid_of(0x0005)) == vals_of(s, pid_of(0x0005)));
    assert(reader_emits(d, ctx, pid_of(0x0007), vals_of(s, pid_of(0x0007))) && vals_of(s2, pid_of(0x0007)) == vals_of(s, pid_of(0x0007)));
    assert(reader_emits(d, ctx, pid_of(0x0035), vals_of(s, pid_of(0x0035))) && vals_of(s2, pid_of(0x0035)) == vals_of(s, pid_of(0x0035)));
    assert(reader_emits(d, ctx, pid_of(0x0080), vals_of(s, pid_of(0x0080))) && vals_of(s2, pid_of(0x0080)) == vals_of(s, pid_of(0x0080)));
    assert(reader_emits(d, ctx, pid_of(0x0081), vals_of(s, pid_of(0x0081))) && vals_of(s2, pid_of(0x0081)) == vals_of(s, pid_of(0x0081)));
    assert(reader_emits(d, ctx, pid_of(0x0082), vals_of(s, pid_of(0x0082))) && vals_of(s2, pid_of(0x0082)) == vals_of(s, pid_of(0x0082)));
    assert(all_rd::<StringWithNul>(vals_of(s2, pid_of(0x0082)), ctx) is Some);
    assert(reader_decodable(s2, ctx));
    assert(reader_decoded(s2, ctx).unicast == d.unicast);
    assert(reader_decoded(s2, ctx).multicast == d.multicast);
    assert(reader_decoded(s2, ctx) == d);
}

// ---- writer discovery data: unknown parameters, round trip (same statements as for the reader) ---------------
pub proof fn lemma_writer_unknown(s: Seq<Parameter>, s2: Seq<Parameter>, ctx: Endianness)
    requires agree_sedp(s, s2)
    ensures
        writer_decodable(s2, ctx) == writer_decodable(s, ctx),            // [plcdr.writer.unknown]
        writer_decoded(s2, ctx) == writer_decoded(s, ctx),                // [plcdr.writer.unknown]
        forall|a: WriterView| writer_read_ok(a, s2, ctx) == writer_read_ok(a, s, ctx),   // [plcdr.writer.unknown]
{
    lemma_agree_known_view(s, s2);
    assert(vals_of(s2, pid_of(0x0060)) == vals_of(s, pid_of(0x0060))); assert(vals_of(s2, pid_of(0x005A)) == vals_of(s, pid_of(0x005A)));
    assert(vals_of(s2, pid_of(0x002F)) == vals_of(s, pid_of(0x002F))); assert(vals_of(s2, pid_of(0x0030)) == vals_of(s, pid_of(0x0030)));
    assert(vals_of(s2, pid_of(0x0050)) == vals_of(s, pid_of(0x0050))); assert(vals_of(s2, pid_of(0x0005)) == vals_of(s, pid_of(0x0005)));
    assert(vals_of(s2, pid_of(0x0007)) == vals_of(s, pid_of(0x0007)));
    assert(vals_of(s2, pid_of(0x0080)) == vals_of(s, pid_of(0x0080))); assert(vals_of(s2, pid_of(0x0081)) == vals_of(s, pid_of(0x0081)));
    assert(vals_of(s2, pid_of(0x0082)) == vals_of(s, pid_of(0x0082)));
}
pub open spec fn writer_rt_domain(d: WriterView) -> bool {
    &&& d.remote_writer_guid == d.key
    &&& all_representable(d.unicast) && all_representable(d.multicast)
    &&& d.service_instance_name is None && d.related_key is None && d.topic_aliases is None
}
pub proof fn lemma_writer_roundtrip(dd: DiscoveredWriterData, ctx: Endianness, s: Seq<Parameter>, s2: Seq<Parameter>)
    requires encodes_writer(s, writer_view(dd), ctx), agree_sedp(s, s2), writer_rt_domain(writer_view(dd))
    ensures
        writer_decodable(s2, ctx),                                                                   // [plcdr.writer.roundtrip]
        writer_decoded(s2, ctx) == writer_view(dd),                                                  // [plcdr.writer.roundtrip]
        forall|a: WriterView| writer_read_ok(a, s2, ctx) ==> a == writer_view(dd),                   // [plcdr.writer.roundtrip]
{
    let d = writer_view(dd);
    axiom_rt_guid(); axiom_rt_string_with_nul(); axiom_rt_u32();
    assert forall|p: ParameterId| known_pid(p) implies emits(d.qos, ctx, p, #[trigger] vals_of(s2, p)) by {
        assert(writer_emits(d, ctx, p, vals_of(s, p)));
        assert(vals_of(s2, p) == vals_of(s, p));
    }
    lemma_qos_roundtrip_seq(d.qos, ctx, s2);
    assert(endpoint_qos(d.qos) == d.qos);
    lemma_locs_roundtrip(d.unicast, ctx); lemma_locs_roundtrip(d.multicast, ctx);
    assert(writer_emits(d, ctx, pid_of(0x0060), vals_of(s, pid_of(0x0060))) && vals_of(s2, pid_of(0x0060)) == vals_of(s, pid_of(0x0060)));
    assert(writer_emits(d, ctx, pid_of(0x005A), vals_of(s, pid_of(0x005A))) && vals_of(s2, pid_of(0x005A)) == vals_of(s, pid_of(0x005A)));
    assert(writer_emits(d, ctx, pid_of(0x002F), vals_of(s, pid_of(0x002F))) && vals_of(s2, pid_of(0x002F)) == vals_of(s, pid_of(0x002F)));
    assert(writer_emits(d, ctx, pid_of(0x0030), vals_of(s, pid_of(0x0030))) && vals_of(s2, pid_of(0x0030)) == vals_of(s, pid_of(0x0030)));
    assert(writer_emits(d, ctx, pid_of(0x0050), vals_of(s, pid_of(0x0050))) && vals_of(s2, pid_of(0x0050)) == vals_of(s, pid_of(0x0050)));
    assert(writer_emits(d, ctx, pid_of(0x0005), vals_of(s, pid_of(0x0005))) && vals_of(s2, pid_of(0x0005)) == vals_of(s, pid_of(0x0005)));
    assert(writer_emits(d, ctx, pid_of(0x0007), vals_of(s, pid_of(0x0007))) && vals_of(s2, pid_of(0x0007)) == vals_of(s, pid_of(0x0007)));
    assert(writer_emits(d, ctx, pid_of(0x0080), vals_of(s, pid_of(0x0080))) && vals_of(s2, pid_of(0x0080)) == vals_of(s, pid_of(0x0080)));
    assert(writer_emits(d, ctx, pid_of(0x0081), vals_of(s, pid_of(0x0081))) && vals_of(s2, pid_of(0x0081)) == vals_of(s, pid_of(0x0081)));
    assert(writer_emits(d, ctx, pid_of(0x0082), vals_of(s, pid_of(0x0082))) && vals_of(s2, pid_of(0x0082)) == vals_of(s, pid_of(0x0082)));
    assert(all_rd::<StringWithNul>(vals_of(s2, pid_of(0x0082)), ctx) is Some);
    assert(writer_decodable(s2, ctx));
    assert(writer_decoded(s2, ctx).unicast == d.unicast);
    assert(writer_decoded(s2, ctx).multicast == d.multicast);
    assert(writer_decoded(s2, ctx) == d);
}

// ---- participant discovery data: unknown parameters, round trip ------------------------------------------------
pub open spec fn agree_spdp(s: Seq<Parameter>, s2: Seq<Parameter>) -> bool {
    forall|p: ParameterId| spdp_pid(p) ==> #[trigger] vals_of(s2, p) == vals_of(s, p)
}
pub proof fn lemma_spdp_insert_unknown(s: Seq<Parameter>, i: int, np: Parameter)
    requires 0 <= i <= s.len(), !spdp_pid(np.parameter_id)
    ensures agree_spdp(s, s.insert(i, np))   // [plcdr.spdp.unknown]
{
    assert forall|p: ParameterId| spdp_pid(p) implies #[trigger] vals_of(s.insert(i, np), p) == vals_of(s, p) by {
        lemma_vals_insert_other(s, i, np, p);
    }
}
pub proof fn lemma_spdp_agree_pids(s: Seq<Parameter>, s2: Seq<Parameter>)
    requires agree_spdp(s, s2)
    ensures
        vals_of(s2, pid_of(0x0015)) == vals_of(s, pid_of(0x0015)), vals_of(s2, pid_of(0x0016)) == vals_of(s, pid_of(0x0016)),
        vals_of(s2, pid_of(0x0043)) == vals_of(s, pid_of(0x0043)), vals_of(s2, pid_of(0x0050)) == vals_of(s, pid_of(0x0050)),
        vals_of(s2, pid_of(0x0032)) == vals_of(s, pid_of(0x0032)), vals_of(s2, pid_of(0x0033)) == vals_of(s, pid_of(0x0033)),
        vals_of(s2, pid_of(0x0031)) == vals_of(s, pid_of(0x0031)), vals_of(s2, pid_of(0x0048)) == vals_of(s, pid_of(0x0048)),
        vals_of(s2, pid_of(0x0058)) == vals_of(s, pid_of(0x0058)), vals_of(s2, pid_of(0x0002)) == vals_of(s, pid_of(0x0002)),
        vals_of(s2, pid_of(0x0034)) == vals_of(s, pid_of(0x0034)), vals_of(s2, pid_of(0x0077)) == vals_of(s, pid_of(0x0077)),
        vals_of(s2, pid_of(0x0062)) == vals_of(s, pid_of(0x0062)),
{
    assert(spdp_pid(pid_of(0x0015)) && spdp_pid(pid_of(0x0016)) && spdp_pid(pid_of(0x0043)) && spdp_pid(pid_of(0x0050)) && spdp_pid(pid_of(0x0032))
        && spdp_pid(pid_of(0x0033)) && spdp_pid(pid_of(0x0031)) && spdp_pid(pid_of(0x0048)) && spdp_pid(pid_of(0x0058)) && spdp_pid(pid_of(0x0002))
        && spdp_pid(pid_of(0x0034)) && spdp_pid(pid_of(0x0077)) && spdp_pid(pid_of(0x0062)));
}
// the outcome the participant decoder's contract prescribes is a function of what the list carries under its 13 PIDs only
pub proof fn lemma_spdp_unknown(s: Seq<Parameter>, s2: Seq<Parameter>, ctx: Endianness)
    requires agree_spdp(s, s2)
    ensures
        spdp_decodable(s2, ctx) == spdp_decodable(s, ctx),            // [plcdr.spdp.unknown]
        spdp_decoded(s2, ctx) == spdp_decoded(s, ctx),                // [plcdr.spdp.unknown]
{
    lemma_spdp_agree_pids(s, s2);
}
// the values the round trip is claimed for: locators that Locator_t can represent (domain of harness c15_rt_locator)
pub open spec fn spdp_rt_domain(d: SpdpView) -> bool {
    all_representable(d.metatraffic_unicast) && all_representable(d.metatraffic_multicast) && all_representable(d.default_unicast) && all_representable(d.default_multicast)
}
// over the contracts plcdr.spdp.emit / plcdr.spdp.read, for EVERY SpdpDiscoveredParticipantData value in that domain (lease
// duration / builtin endpoint QoS / entity name present or absent, any lists, any name) and both byte orders; s / s2 as for the reader
pub proof fn lemma_spdp_roundtrip(dd: SpdpDiscoveredParticipantData, ctx: Endianness, s: Seq<Parameter>, s2: Seq<Parameter>)
    requires encodes_spdp(s, spdp_view(dd), ctx), agree_spdp(s, s2), spdp_rt_domain(spdp_view(dd))
    ensures
        spdp_decodable(s2, ctx),                                      // [plcdr.spdp.roundtrip]
        spdp_decoded(s2, ctx) == spdp_view(dd),                       // [plcdr.spdp.roundtrip]
{
    let d = spdp_view(dd);
    axiom_rt_guid(); axiom_rt_string_with_nul(); axiom_rt_bool(); axiom_rt_i32(); axiom_rt_protocol_version(); axiom_rt_vendor_id();
    axiom_rt_builtin_endpoint_set(); axiom_rt_builtin_endpoint_qos(); axiom_rt_duration();
    lemma_spdp_agree_pids(s, s2);
    lemma_locs_roundtrip(d.metatraffic_unicast, ctx); lemma_locs_roundtrip(d.metatraffic_multicast, ctx);
    lemma_locs_roundtrip(d.default_unicast, ctx); lemma_locs_roundtrip(d.default_multicast, ctx);
    assert(spdp_emits(d, ctx, pid_of(0x0015), vals_of(s, pid_of(0x0015)))); assert(spdp_emits(d, ctx, pid_of(0x0016), vals_of(s, pid_of(0x0016))));
    assert(spdp_emits(d, ctx, pid_of(0x0043), vals_of(s, pid_of(0x0043)))); assert(spdp_emits(d, ctx, pid_of(0x0050), vals_of(s, pid_of(0x0050))));
    assert(spdp_emits(d, ctx, pid_of(0x0032), vals_of(s, pid_of(0x0032)))); assert(spdp_emits(d, ctx, pid_of(0x0033), vals_of(s, pid_of(0x0033))));
    assert(spdp_emits(d, ctx, pid_of(0x0031), vals_of(s, pid_of(0x0031)))); assert(spdp_emits(d, ctx, pid_of(0x0048), vals_of(s, pid_of(0x0048))));
    assert(spdp_emits(d, ctx, pid_of(0x0058), vals_of(s, pid_of(0x0058)))); assert(spdp_emits(d, ctx, pid_of(0x0002), vals_of(s, pid_of(0x0002))));
    assert(spdp_emits(d, ctx, pid_of(0x0034), vals_of(s, pid_of(0x0034)))); assert(spdp_emits(d, ctx, pid_of(0x0077), vals_of(s, pid_of(0x0077))));
    assert(spdp_emits(d, ctx, pid_of(0x0062), vals_of(s, pid_of(0x0062))));
    assert(spdp_decodable(s2, ctx));
    assert(spdp_decoded(s2, ctx).metatraffic_unicast == d.metatraffic_unicast);
    assert(spdp_decoded(s2, ctx).metatraffic_multicast == d.metatraffic_multicast);
    assert(spdp_decoded(s2, ctx).default_unicast == d.default_unicast);
    assert(spdp_decoded(s2, ctx).default_multicast == d.default_multicast);
    assert(spdp_decoded(s2, ctx) == d);
}
