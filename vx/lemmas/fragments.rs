// ---------------------------------------------------------------------------------------------
// C05 spec-level lemmas over the spec forms used in the contracts of unit `fragments`
// (proof only; no executable code).  Reading guide:
//   writer_frag(df, full, fs, k)  = postcondition of MessageBuilder::data_frag_msg (+ bytes_slice)
//   fresh(size, fs)               = postcondition of AssemblyBuffer::new
//   step(..)                      = postcondition of AssemblyBuffer::insert_frags for such a DATAFRAG
//   all_set(bits)                 = postcondition of AssemblyBuffer::is_complete
// ---------------------------------------------------------------------------------------------

// the DATAFRAG the writer emits for fragment k of a sample whose wire bytes are `full`
pub open spec fn writer_frag(df: &DataFrag, full: Seq<u8>, fs: int, k: int) -> bool {
    &&& df.start() == k
    &&& df.cnt() == 1
    &&& df.data_size == full.len()
    &&& df.fragment_size == fs
    &&& df.serialized_payload@ == frag_payload(full, fs, k)
}
pub open spec fn fresh(size: int, fs: int) -> (Seq<u8>, Seq<bool>) {
    (Seq::new(size as nat, |i: int| 0u8), Seq::new(ceil_div(size, fs) as nat, |j: int| false))
}
pub open spec fn step(st: (Seq<u8>, Seq<bool>), full: Seq<u8>, fs: int, k: int) -> (Seq<u8>, Seq<bool>) {
    (buf_insert(st.0, fs, k, 1, frag_payload(full, fs, k)), bits_insert(st.1, k, 1))
}
// state of one assembly buffer after the fragments numbered ks[0], ks[1], … arrived in that order
pub open spec fn run(st: (Seq<u8>, Seq<bool>), full: Seq<u8>, fs: int, ks: Seq<int>) -> (Seq<u8>, Seq<bool>)
    decreases ks.len()
{
    if ks.len() == 0 { st } else { step(run(st, full, fs, ks.drop_last()), full, fs, ks.last()) }
}
pub open spec fn valid_ks(ks: Seq<int>, n: int) -> bool { forall|i: int| 0 <= i < ks.len() ==> 1 <= #[trigger] ks[i] <= n }

pub proof fn lemma_n_pos(size: int, fs: int)
    requires 1 <= fs <= size,
    ensures ceil_div(size, fs) >= 1,
{
    assert(size == fs * (size / fs) + size % fs && 0 <= size % fs < fs) by (nonlinear_arith) requires fs > 0, size >= 0;
    assert(ceil_div(size, fs) >= 1) by (nonlinear_arith)
        requires fs > 0, size >= fs, size == fs * (size / fs) + size % fs, 0 <= size % fs < fs,
                 ceil_div(size, fs) == (if size % fs == 0 { size / fs } else { size / fs + 1 });
}

pub proof fn lemma_frag_bounds(size: int, fs: int, k: int)
    requires 1 <= fs <= size, 1 <= k <= ceil_div(size, fs),
    ensures
        ceil_div(size, fs) >= 1,
        0 <= frag_lo(fs, k) < size,
        frag_lo(fs, k) < frag_hi(fs, k, size) <= size,
        frag_hi(fs, k, size) - frag_lo(fs, k) <= fs,
        frag_hi(fs, k, size) == (if k == ceil_div(size, fs) { size } else { k * fs }),
{
    let n = ceil_div(size, fs);
    assert(size == fs * (size / fs) + size % fs && 0 <= size % fs < fs) by (nonlinear_arith) requires fs > 0, size >= 0;
    assert((n - 1) * fs < size && n * fs >= size) by (nonlinear_arith)
        requires fs > 0, size >= 1, size == fs * (size / fs) + size % fs, 0 <= size % fs < fs, n == (if size % fs == 0 { size / fs } else { size / fs + 1 });
    assert((k - 1) * fs <= (n - 1) * fs) by (nonlinear_arith) requires k <= n, fs > 0;
    assert((k - 1) * fs >= 0) by (nonlinear_arith) requires k >= 1, fs > 0;
    assert(k * fs == (k - 1) * fs + fs) by (nonlinear_arith);
    if k < n { assert(k * fs <= (n - 1) * fs) by (nonlinear_arith) requires k <= n - 1, fs > 0; }
}

// One honest fragment, placed: it marks exactly bit k-1 and writes exactly bytes [lo, hi) = the
// original bytes, leaving every other byte and bit alone.
pub proof fn lemma_step(st: (Seq<u8>, Seq<bool>), full: Seq<u8>, fs: int, k: int)
    requires 1 <= fs <= full.len(), 1 <= k <= ceil_div(full.len() as int, fs), st.0.len() == full.len(), st.1.len() == ceil_div(full.len() as int, fs),
    ensures ({
        let size = full.len() as int;
        let r = step(st, full, fs, k);
        &&& r.0.len() == size && r.1.len() == st.1.len()
        &&& forall|j: int| 0 <= j < r.1.len() ==> #[trigger] r.1[j] == (st.1[j] || j == k - 1)
        &&& forall|i: int| 0 <= i < size ==> #[trigger] r.0[i] == (if frag_lo(fs, k) <= i < frag_hi(fs, k, size) { full[i] } else { st.0[i] })
    }),
{
    let size = full.len() as int;
    lemma_frag_bounds(size, fs, k);
    let p = frag_payload(full, fs, k);
    assert(p =~= full.subrange(frag_lo(fs, k), frag_hi(fs, k, size)));
    assert(1 * fs == fs) by (nonlinear_arith);
    assert(ins_from(fs, k) == frag_lo(fs, k));
    assert(ins_to(size, fs, k, 1, p.len() as int) == frag_hi(fs, k, size));
}

// C05 core: any arrival order, any duplication.  After the fragments ks arrived, the bitmap marks
// exactly the fragment numbers that occurred, and every marked fragment's byte range equals the
// bytes that were written.
pub proof fn lemma_reassembly(full: Seq<u8>, fs: int, ks: Seq<int>)
    requires 1 <= fs <= full.len(), valid_ks(ks, ceil_div(full.len() as int, fs)),
    ensures ({
        let size = full.len() as int;
        let n = ceil_div(size, fs);
        let r = run(fresh(size, fs), full, fs, ks);
        &&& r.0.len() == size && r.1.len() == n                                                        // [frag.lemma.reassembly]
        &&& forall|j: int| 0 <= j < n ==> (#[trigger] r.1[j] <==> ks.contains(j + 1))                  // [frag.lemma.reassembly]
        &&& forall|j: int, i: int| 0 <= j < n && #[trigger] r.1[j] && frag_lo(fs, j + 1) <= i < frag_hi(fs, j + 1, size) ==> #[trigger] r.0[i] == full[i]   // [frag.lemma.reassembly]
    }),
    decreases ks.len(),
{
    let size = full.len() as int;
    let n = ceil_div(size, fs);
    lemma_n_pos(size, fs);
    if ks.len() == 0 {
    } else {
        let k = ks.last();
        let prev = ks.drop_last();
        lemma_reassembly(full, fs, prev);
        let st = run(fresh(size, fs), full, fs, prev);
        let r = step(st, full, fs, k);
        assert(r == run(fresh(size, fs), full, fs, ks));
        lemma_step(st, full, fs, k);
        lemma_frag_bounds(size, fs, k);
        assert forall|j: int| 0 <= j < n implies (#[trigger] r.1[j] <==> ks.contains(j + 1)) by {
            if j + 1 == k { assert(ks[ks.len() - 1] == k); }
            else {
                if prev.contains(j + 1) { let t = choose|t: int| 0 <= t < prev.len() && prev[t] == j + 1; assert(ks[t] == j + 1); }
                if ks.contains(j + 1) { let t = choose|t: int| 0 <= t < ks.len() && ks[t] == j + 1; assert(t < ks.len() - 1); assert(prev[t] == j + 1); }
            }
        }
        assert forall|j: int, i: int| 0 <= j < n && #[trigger] r.1[j] && frag_lo(fs, j + 1) <= i < frag_hi(fs, j + 1, size) implies #[trigger] r.0[i] == full[i] by {
            lemma_frag_bounds(size, fs, j + 1);
            if j + 1 == k { }
            else {
                // regions of different fragments are disjoint
                if j + 1 < k { assert((j + 1) * fs <= (k - 1) * fs) by (nonlinear_arith) requires j + 1 <= k - 1, fs > 0; }
                else { assert(k * fs <= j * fs) by (nonlinear_arith) requires k <= j, fs > 0; }
                assert(st.1[j]);
            }
        }
    }
}

// "delivers … only after all of its fragments have arrived" / "an incomplete set of fragments never
// produces a sample": is_complete <==> every fragment number 1..=n occurred; and then
// "the reader reassembles exactly the bytes that were written".
pub proof fn lemma_complete(full: Seq<u8>, fs: int, ks: Seq<int>)
    requires 1 <= fs <= full.len(), valid_ks(ks, ceil_div(full.len() as int, fs)),
    ensures ({
        let n = ceil_div(full.len() as int, fs);
        let r = run(fresh(full.len() as int, fs), full, fs, ks);
        &&& all_set(r.1) <==> (forall|k: int| 1 <= k <= n ==> ks.contains(k))           // [frag.lemma.complete]
        &&& all_set(r.1) ==> r.0 =~= full                                               // [frag.lemma.complete]
    }),
{
    let size = full.len() as int;
    let n = ceil_div(size, fs);
    lemma_reassembly(full, fs, ks);
    let r = run(fresh(size, fs), full, fs, ks);
    if all_set(r.1) {
        assert forall|k: int| 1 <= k <= n implies ks.contains(k) by { assert(r.1[k - 1]); }
        assert forall|i: int| 0 <= i < size implies r.0[i] == full[i] by {
            let j = i / fs;
            assert(i == fs * (i / fs) + i % fs && 0 <= i % fs < fs) by (nonlinear_arith) requires fs > 0, i >= 0;
            assert(size == fs * (size / fs) + size % fs && 0 <= size % fs < fs) by (nonlinear_arith) requires fs > 0, size >= 0;
            assert(j < n) by (nonlinear_arith)
                requires i < size, fs > 0, j == i / fs, i == fs * (i / fs) + i % fs, 0 <= i % fs < fs, size == fs * (size / fs) + size % fs, 0 <= size % fs < fs,
                         n == (if size % fs == 0 { size / fs } else { size / fs + 1 });
            assert(j >= 0) by (nonlinear_arith) requires i >= 0, fs > 0, j == i / fs;
            lemma_frag_bounds(size, fs, j + 1);
            assert(r.1[j]);
            assert(frag_lo(fs, j + 1) <= i) by (nonlinear_arith) requires i == fs * j + i % fs, 0 <= i % fs, frag_lo(fs, j + 1) == j * fs;
            assert(i < (j + 1) * fs) by (nonlinear_arith) requires i == fs * j + i % fs, i % fs < fs;
        }
    }
    if forall|k: int| 1 <= k <= n ==> ks.contains(k) {
        assert forall|j: int| 0 <= j < r.1.len() implies r.1[j] by { assert(ks.contains(j + 1)); }
    }
}

// Honest traffic is never ignored: a writer-made DATAFRAG satisfies what the parser checks and fits
// a buffer made for its sample (only hostile or inconsistent input meets the "ignored" branch).
pub proof fn lemma_writer_frag_valid(ab: AssemblyBuffer, df: &DataFrag, full: Seq<u8>, fs: u16, k: int)
    requires
        1 <= fs <= full.len() <= 0xFFFF_FFFF, 1 <= k <= ceil_div(full.len() as int, fs as int),
        writer_frag(df, full, fs as int, k), ab.made_for(full.len() as int, fs as int), df.writer_sn.0 >= 1,
    ensures
        parsed_ok(df), len_ok(df), ab.valid_frag_start(df), ab.consistent(df, fs),     // [frag.lemma.honest_valid]
{
    lemma_frag_bounds(full.len() as int, fs as int, k);
    assert(1 * (fs as int) == fs) by (nonlinear_arith);
}

// Link between the contract of FragmentAssembler::new_datafrag and `step`: processing a writer-made
// DATAFRAG (assembler's fragment size == writer's; the sample's buffer, if any, has the sample's
// dimensions) is one `step` on the sample's own (buffer, bitmap); a sample seen for the first time
// starts from `fresh`.
pub proof fn lemma_after_is_step(fa: FragmentAssembler, df: &DataFrag, full: Seq<u8>, fs: int, k: int)
    requires
        writer_frag(df, full, fs, k), fa.fragment_size == fs, 1 <= fs <= full.len(), 1 <= k <= ceil_div(full.len() as int, fs),
        fa.assembly_buffers@.contains_key(df.writer_sn) ==> fa.before_of(df).0.len() == full.len() && fa.before_of(df).1.len() == ceil_div(full.len() as int, fs),
    ensures
        fa.fits(df),                                                                                     // [frag.lemma.link]
        (fa.after_buf(df), fa.after_bits(df)) == step(fa.before_of(df), full, fs, k),                    // [frag.lemma.link]
        !fa.assembly_buffers@.contains_key(df.writer_sn) ==> fa.before_of(df) == fresh(full.len() as int, fs),   // [frag.lemma.link]
{
    lemma_frag_bounds(full.len() as int, fs, k);
}

// ---------------------------------------------------------------------------------------------
// Trace level: one remote writer, many samples, fragments of different samples interleaved in any
// order with any duplication.  MState.bufs is FragmentAssembler::view_bufs(); m_step is the
// whole-view postcondition [frag.view] + [frag.deliver] of new_datafrag for a writer-made DATAFRAG
// (lemma_view_is_m_step).  `pend` is ghost bookkeeping: the fragment numbers of a sample that have
// arrived since that sample was last delivered.
// ---------------------------------------------------------------------------------------------
pub struct MState {
    pub bufs: Map<SequenceNumber, (Seq<u8>, Seq<bool>)>,
    pub pend: Map<SequenceNumber, Seq<int>>,
}
pub open spec fn covers(ks: Seq<int>, n: int) -> bool { forall|k: int| 1 <= k <= n ==> ks.contains(k) }
pub open spec fn m_before(st: MState, full: Seq<u8>, fs: int, sn: SequenceNumber) -> (Seq<u8>, Seq<bool>) {
    if st.bufs.contains_key(sn) { st.bufs[sn] } else { fresh(full.len() as int, fs) }
}
pub open spec fn m_pend(st: MState, sn: SequenceNumber) -> Seq<int> {
    if st.pend.contains_key(sn) { st.pend[sn] } else { Seq::<int>::empty() }
}
// arrival of the writer's fragment k of sample sn (whose wire bytes are samples[sn]); second
// component: what is delivered to the reader
pub open spec fn m_step(st: MState, samples: Map<SequenceNumber, Seq<u8>>, fs: int, sn: SequenceNumber, k: int) -> (MState, Option<Seq<u8>>) {
    let after = step(m_before(st, samples[sn], fs, sn), samples[sn], fs, k);
    if all_set(after.1) {
        (MState { bufs: st.bufs.remove(sn), pend: st.pend.remove(sn) }, Some(after.0))
    } else {
        (MState { bufs: st.bufs.insert(sn, after), pend: st.pend.insert(sn, m_pend(st, sn).push(k)) }, None::<Seq<u8>>)
    }
}
pub open spec fn m_run(samples: Map<SequenceNumber, Seq<u8>>, fs: int, tr: Seq<(SequenceNumber, int)>) -> MState
    decreases tr.len()
{
    if tr.len() == 0 { MState { bufs: Map::empty(), pend: Map::empty() } }
    else { m_step(m_run(samples, fs, tr.drop_last()), samples, fs, tr.last().0, tr.last().1).0 }
}
pub open spec fn honest_ev(samples: Map<SequenceNumber, Seq<u8>>, fs: int, sn: SequenceNumber, k: int) -> bool {
    samples.contains_key(sn) && 1 <= fs <= samples[sn].len() && 1 <= k <= ceil_div(samples[sn].len() as int, fs)
}
pub open spec fn honest(samples: Map<SequenceNumber, Seq<u8>>, fs: int, tr: Seq<(SequenceNumber, int)>) -> bool {
    forall|i: int| 0 <= i < tr.len() ==> honest_ev(samples, fs, (#[trigger] tr[i]).0, tr[i].1)
}
// every buffer under assembly is exactly the single-sample run over the fragments that arrived for
// that sample since its last delivery, and that set is still incomplete
pub open spec fn m_inv(st: MState, samples: Map<SequenceNumber, Seq<u8>>, fs: int) -> bool {
    &&& forall|sn: SequenceNumber| #[trigger] st.pend.contains_key(sn) <==> st.bufs.contains_key(sn)
    &&& forall|sn: SequenceNumber| #[trigger] st.bufs.contains_key(sn) ==> {
            &&& samples.contains_key(sn) && 1 <= fs <= samples[sn].len()
            &&& valid_ks(st.pend[sn], ceil_div(samples[sn].len() as int, fs))
            &&& !covers(st.pend[sn], ceil_div(samples[sn].len() as int, fs))
            &&& st.bufs[sn] == run(fresh(samples[sn].len() as int, fs), samples[sn], fs, st.pend[sn])
        }
}

pub proof fn lemma_trace_step(st: MState, samples: Map<SequenceNumber, Seq<u8>>, fs: int, sn: SequenceNumber, k: int)
    requires m_inv(st, samples, fs), honest_ev(samples, fs, sn, k),
    ensures ({
        let r = m_step(st, samples, fs, sn, k);
        let n = ceil_div(samples[sn].len() as int, fs);
        &&& m_inv(r.0, samples, fs)                                                           // [frag.lemma.trace]
        // delivered exactly when the fragments that arrived since the last delivery (in any order,
        // with any duplicates, interleaved with other samples) now cover 1..=n — hence once, and
        // never from an incomplete set
        &&& (r.1.is_some() <==> covers(m_pend(st, sn).push(k), n))                            // [frag.lemma.trace]
        // and what is delivered is exactly the bytes that were written
        &&& (r.1.is_some() ==> r.1.unwrap() =~= samples[sn])                                  // [frag.lemma.trace]
        // no other sample under assembly is touched
        &&& (forall|o: SequenceNumber| o != sn ==> (r.0.bufs.contains_key(o) <==> st.bufs.contains_key(o)) && (st.bufs.contains_key(o) ==> r.0.bufs[o] == st.bufs[o]))   // [frag.lemma.trace]
    }),
{
    let full = samples[sn];
    let size = full.len() as int;
    let n = ceil_div(size, fs);
    let ks = m_pend(st, sn);
    let ks2 = ks.push(k);
    let before = m_before(st, full, fs, sn);
    assert(before == run(fresh(size, fs), full, fs, ks)) by {
        if !st.bufs.contains_key(sn) { assert(!st.pend.contains_key(sn)); assert(ks.len() == 0); }
    }
    assert(valid_ks(ks, n)) by { if !st.bufs.contains_key(sn) { assert(!st.pend.contains_key(sn)); } }
    assert(ks2.drop_last() == ks);
    assert(ks2.last() == k);
    let after = step(before, full, fs, k);
    assert(after == run(fresh(size, fs), full, fs, ks2));
    assert(valid_ks(ks2, n)) by {
        assert forall|i: int| 0 <= i < ks2.len() implies 1 <= #[trigger] ks2[i] <= n by { if i < ks.len() { assert(ks2[i] == ks[i]); } }
    }
    lemma_complete(full, fs, ks2);
    let r = m_step(st, samples, fs, sn, k);
    assert forall|o: SequenceNumber| #[trigger] r.0.bufs.contains_key(o) implies {
            &&& samples.contains_key(o) && 1 <= fs <= samples[o].len()
            &&& valid_ks(r.0.pend[o], ceil_div(samples[o].len() as int, fs))
            &&& !covers(r.0.pend[o], ceil_div(samples[o].len() as int, fs))
            &&& r.0.bufs[o] == run(fresh(samples[o].len() as int, fs), samples[o], fs, r.0.pend[o])
        } by {
        if o != sn { assert(st.bufs.contains_key(o)); }
    }
    assert forall|o: SequenceNumber| #[trigger] r.0.pend.contains_key(o) <==> r.0.bufs.contains_key(o) by {
        if o != sn { assert(st.pend.contains_key(o) <==> st.bufs.contains_key(o)); }
    }
}

pub proof fn lemma_trace(samples: Map<SequenceNumber, Seq<u8>>, fs: int, tr: Seq<(SequenceNumber, int)>)
    requires honest(samples, fs, tr),
    ensures m_inv(m_run(samples, fs, tr), samples, fs),                                       // [frag.lemma.trace]
    decreases tr.len(),
{
    if tr.len() > 0 {
        assert(honest(samples, fs, tr.drop_last())) by {
            assert forall|i: int| 0 <= i < tr.drop_last().len() implies honest_ev(samples, fs, (#[trigger] tr.drop_last()[i]).0, tr.drop_last()[i].1) by { assert(tr.drop_last()[i] == tr[i]); }
        }
        lemma_trace(samples, fs, tr.drop_last());
        assert(honest_ev(samples, fs, tr[tr.len() - 1].0, tr[tr.len() - 1].1));
        lemma_trace_step(m_run(samples, fs, tr.drop_last()), samples, fs, tr.last().0, tr.last().1);
    }
}

// the model step *is* the whole-view postcondition of the real new_datafrag for a writer-made DATAFRAG
pub proof fn lemma_view_is_m_step(fa: FragmentAssembler, df: &DataFrag, samples: Map<SequenceNumber, Seq<u8>>, fs: int, k: int, pend: Map<SequenceNumber, Seq<int>>)
    requires
        writer_frag(df, samples[df.writer_sn], fs, k), fa.fragment_size == fs, honest_ev(samples, fs, df.writer_sn, k),
        m_inv(MState { bufs: fa.view_bufs(), pend }, samples, fs),
    ensures ({
        let st = MState { bufs: fa.view_bufs(), pend };
        let r = m_step(st, samples, fs, df.writer_sn, k);
        &&& fa.fits(df)                                                                       // [frag.lemma.link]
        &&& r.0.bufs =~= (if all_set(fa.after_bits(df)) { fa.view_bufs().remove(df.writer_sn) }
                          else { fa.view_bufs().insert(df.writer_sn, (fa.after_buf(df), fa.after_bits(df))) })   // [frag.lemma.link]
        &&& (r.1.is_some() <==> all_set(fa.after_bits(df)))                                   // [frag.lemma.link]
        &&& (r.1.is_some() ==> r.1.unwrap() == fa.after_buf(df))                              // [frag.lemma.link]
    }),
{
    let sn = df.writer_sn;
    let full = samples[sn];
    let st = MState { bufs: fa.view_bufs(), pend };
    assert(m_before(st, full, fs, sn) == fa.before_of(df));
    if fa.assembly_buffers@.contains_key(sn) {
        assert(st.bufs.contains_key(sn));
        lemma_reassembly(full, fs, st.pend[sn]);
    }
    lemma_after_is_step(fa, df, full, fs, k);
}
