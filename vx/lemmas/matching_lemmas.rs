// ---------------------------------------------------------------------------------------------
// C11 spec-level lemmas (proof only).  A *run* is a sequence of discovery events applied to one
// local endpoint, each step related to the next state by exactly the abstract clauses that the
// extracted functions are proved to satisfy (announce_* = update_writer_proxy /
// update_reader_proxy, remove_* = remove_writer_proxy / reader_lost, lost_* = participant_lost).
// Hypothesis of the statement ("a remote endpoint keeps the QoS it was announced with"): the RxO
// verdict is a function `compat` of the remote GUID alone.
// ---------------------------------------------------------------------------------------------
pub enum DEv {
    Announce { g: GUID },            // announced or re-announced (also: its participant found again)
    Dispose { g: GUID },             // endpoint disposed / lost
    ParticipantLost { p: GuidPrefix },
}

// the set of currently announced endpoints after a history of discovery events
pub open spec fn announced(evs: Seq<DEv>) -> Set<GUID>
    decreases evs.len()
{
    if evs.len() == 0 { Set::empty() } else {
        let a = announced(evs.drop_last());
        match evs.last() {
            DEv::Announce { g } => a.insert(g),
            DEv::Dispose { g } => a.remove(g),
            DEv::ParticipantLost { p } => a.filter(|g: GUID| g.prefix != p),
        }
    }
}

pub open spec fn step(pre: MView, e: DEv, compat: spec_fn(GUID) -> bool, post: MView) -> bool {
    match e {
        DEv::Announce { g } => announce_add(pre, g, compat(g), post) && announce_readd(pre, g, compat(g), post) && announce_incompat(pre, g, compat(g), post),
        DEv::Dispose { g } => remove_known(pre, g, post) && remove_unknown(pre, g, post),
        DEv::ParticipantLost { p } => lost_set(pre, p, post) && lost_evs(pre, p, post),
    }
}

pub open spec fn is_run(states: Seq<MView>, evs: Seq<DEv>, compat: spec_fn(GUID) -> bool) -> bool {
    &&& states.len() == evs.len() + 1
    &&& states[0].matched =~= Set::<GUID>::empty()      // Reader::new / Writer::new start with an empty map
    &&& forall|i: int| 0 <= i < evs.len() ==> step(states[i], #[trigger] evs[i], compat, states[i + 1])
}

// matched set == announced && compatible; it stays finite; the total counter never decreases
pub proof fn match_set_tracks(states: Seq<MView>, evs: Seq<DEv>, compat: spec_fn(GUID) -> bool, n: int)
    requires
        is_run(states, evs, compat),
        0 <= n <= evs.len(),
    ensures
        states[n].matched =~= announced(evs.take(n)).filter(compat),             // [match.lemma.set]
        states[n].matched.finite(),                                              // [match.lemma.set]
        forall|i: int| 0 <= i <= n ==> (#[trigger] states[i]).total <= states[n].total,     // [match.lemma.total]
    decreases n
{
    if n == 0 {
        assert(evs.take(0).len() == 0);
        assert(announced(evs.take(0)) =~= Set::<GUID>::empty());
    } else {
        match_set_tracks(states, evs, compat, n - 1);
        let pre = states[n - 1];
        let post = states[n];
        let e = evs[n - 1];
        assert(step(pre, e, compat, post));
        assert(evs.take(n).drop_last() =~= evs.take(n - 1));
        assert(evs.take(n).last() == e);
        let a = announced(evs.take(n - 1));
        assert(pre.matched =~= a.filter(compat));
        match e {
            DEv::Announce { g } => {
                assert(announced(evs.take(n)) == a.insert(g));
                // the hypothesis at work: an incompatible g cannot be in the matched set
                if !compat(g) { assert(!pre.matched.contains(g)); }
                assert(post.matched =~= a.insert(g).filter(compat));
            },
            DEv::Dispose { g } => {
                assert(announced(evs.take(n)) == a.remove(g));
                assert(post.matched =~= a.remove(g).filter(compat));
            },
            DEv::ParticipantLost { p } => {
                assert(announced(evs.take(n)) == a.filter(|g: GUID| g.prefix != p));
                assert(post.matched =~= a.filter(|g: GUID| g.prefix != p).filter(compat));
                assert(post.matched.subset_of(pre.matched));
                vstd::set_lib::lemma_len_subset(post.matched, pre.matched);
            },
        }
        assert forall|i: int| 0 <= i <= n implies (#[trigger] states[i]).total <= states[n].total by {
            if i < n { assert(states[i].total <= pre.total); }
        }
    }
}

// removing n distinct members of a finite set one at a time (mirror of the participant_lost loop)
pub proof fn lemma_remove_seq(s: Set<GUID>, lost: Seq<GUID>, n: int) -> (r: Set<GUID>)
    requires
        s.finite(), 0 <= n <= lost.len(),
        forall|i: int, j: int| 0 <= i < j < lost.len() ==> lost[i] != lost[j],
        forall|i: int| 0 <= i < lost.len() ==> s.contains(#[trigger] lost[i]),
    ensures
        r.finite(), r.len() == s.len() - n,
        forall|g: GUID| #[trigger] r.contains(g) <==> (s.contains(g) && !(exists|j: int| 0 <= j < n && lost[j] == g)),
    decreases n
{
    if n == 0 { s } else {
        let r0 = lemma_remove_seq(s, lost, n - 1);
        assert(r0.contains(lost[n - 1]));
        r0.remove(lost[n - 1])
    }
}

pub open spec fn is_matched_ev(e: MEv) -> bool { e is Matched }

// Every change of the matched set produces one matched-status event; the last one carries the
// size of the new set and the state's total; a step that leaves the set unchanged appends no
// matched-status event.
pub proof fn match_events_track(pre: MView, e: DEv, compat: spec_fn(GUID) -> bool, post: MView)
    requires
        step(pre, e, compat, post),
        pre.matched.finite(),
        forall|g: GUID| pre.matched.contains(g) ==> compat(g),       // (from match_set_tracks)
    ensures
        exists|added: Seq<MEv>| #[trigger] match_events_witness(pre, post, added),                // [match.lemma.events]
        post.total >= pre.total,                                                               // [match.lemma.total]
{
    match e {
        DEv::Announce { g } => {
            if compat(g) && !pre.matched.contains(g) {
                let added = seq![ev_add(pre, g)];
                assert(post.events =~= pre.events + added);
                assert(pre.matched.difference(post.matched) =~= Set::<GUID>::empty());
                assert(post.matched.difference(pre.matched) =~= set![g]);
                assert(added.last() == ev_add(pre, g));
                assert(!(post.matched =~= pre.matched)) by { assert(post.matched.contains(g)); }
                assert(match_events_witness(pre, post, added));
            } else if compat(g) {
                let added = Seq::<MEv>::empty();
                assert(post.events =~= pre.events + added);
                assert(match_events_witness(pre, post, added));
            } else {
                let added = seq![MEv::Incompat { g }];
                assert(post.events =~= pre.events + added);
                assert(match_events_witness(pre, post, added));
            }
        },
        DEv::Dispose { g } => {
            if pre.matched.contains(g) {
                let added = seq![ev_remove(pre, g)];
                assert(post.events =~= pre.events + added);
                assert(post.matched.difference(pre.matched) =~= Set::<GUID>::empty());
                assert(pre.matched.difference(post.matched) =~= set![g]);
                assert(added.last() == ev_remove(pre, g));
                assert(!(post.matched =~= pre.matched)) by { assert(!post.matched.contains(g)); }
                assert(match_events_witness(pre, post, added));
            } else {
                let added = Seq::<MEv>::empty();
                assert(post.events =~= pre.events + added);
                assert(match_events_witness(pre, post, added));
            }
        },
        DEv::ParticipantLost { p } => {
            let lost = choose|lost: Seq<GUID>| #[trigger] enumerates_lost(lost, pre.matched, p) && post.events =~= pre.events + lost_events(pre, lost);
            let added = lost_events(pre, lost);
            let r = lemma_remove_seq(pre.matched, lost, lost.len() as int);
            assert(r =~= post.matched) by {
                assert forall|g: GUID| r.contains(g) <==> post.matched.contains(g) by {
                    if pre.matched.contains(g) && g.prefix == p { let i = choose|i: int| 0 <= i < lost.len() && lost[i] == g; }
                }
            }
            assert(post.matched.difference(pre.matched) =~= Set::<GUID>::empty());
            assert(post.matched.subset_of(pre.matched));
            vstd::set_lib::lemma_len_subset(post.matched, pre.matched);
            // |pre \ post| = |pre| - |post| = lost.len()
            assert(pre.matched.difference(post.matched).len() == lost.len()) by {
                vstd::set_lib::lemma_set_disjoint_lens(post.matched, pre.matched.difference(post.matched));
                assert(post.matched + pre.matched.difference(post.matched) =~= pre.matched);
            }
            if lost.len() == 0 { assert(post.matched =~= pre.matched); }
            else {
                assert(!(post.matched =~= pre.matched)) by { assert(pre.matched.contains(lost[0]) && !post.matched.contains(lost[0])); }
                assert(added.last() == added[lost.len() - 1]);
            }
            assert(match_events_witness(pre, post, added));
        },
    }
}

// the body of the existential of match_events_track (named so that the witness can be asserted)
pub open spec fn match_events_witness(pre: MView, post: MView, added: Seq<MEv>) -> bool {
    &&& post.events =~= pre.events + added
    &&& post.matched =~= pre.matched ==> forall|k: int| 0 <= k < added.len() ==> !is_matched_ev(#[trigger] added[k])
    &&& !(post.matched =~= pre.matched) ==> {
        &&& added.len() == pre.matched.difference(post.matched).len() + post.matched.difference(pre.matched).len()
        &&& forall|k: int| 0 <= k < added.len() ==> is_matched_ev(#[trigger] added[k])
        &&& added.len() > 0
        &&& status_count_ok(post, added.last())      // current == |new set|, total == the total counter, change = +1/-1
    }
}
