// ---------------------------------------------------------------------------------------------
// Lemmas of unit qos_plcdr
// ---------------------------------------------------------------------------------------------
// pushing a parameter appends its value under its own PID and changes nothing under any other PID
pub broadcast proof fn lemma_vals_push(s: Seq<Parameter>, p: Parameter, pid: ParameterId)
    ensures #[trigger] vals_of(s.push(p), pid) == (if p.parameter_id == pid { vals_of(s, pid).push(p.value@) } else { vals_of(s, pid) })
{
    reveal_with_fuel(vals_of, 2);
    assert(s.push(p).drop_last() =~= s);
}
pub broadcast proof fn lemma_vals_empty(pid: ParameterId)
    ensures #[trigger] vals_of(Seq::<Parameter>::empty(), pid) == Seq::<Seq<u8>>::empty()
{
    reveal_with_fuel(vals_of, 1);
}

// loop steps of ParameterList::to_map
pub proof fn lemma_map_groups_empty(m: Map<ParameterId, Vec<&Parameter>>, s: Seq<Parameter>)
    requires m == Map::<ParameterId, Vec<&Parameter>>::empty()
    ensures map_groups(m, s.take(0))
{
    assert(s.take(0) =~= Seq::<Parameter>::empty());
    assert forall|pid: ParameterId| #[trigger] vals_in_map(m, pid) =~= vals_of(s.take(0), pid) by { lemma_vals_empty(pid); }
}
pub proof fn lemma_map_groups_step(m0: Map<ParameterId, Vec<&Parameter>>, m1: Map<ParameterId, Vec<&Parameter>>, s: Seq<Parameter>, i: int)
    requires
        0 <= i < s.len(), map_groups(m0, s.take(i)),
        m1.dom() == m0.dom().insert(s[i].parameter_id),
        forall|k: ParameterId| k != s[i].parameter_id && m0.contains_key(k) ==> m1[k] == m0[k],
        m1[s[i].parameter_id]@.len() == (if m0.contains_key(s[i].parameter_id) { m0[s[i].parameter_id]@.len() + 1 } else { 1 }),
        forall|j: int| 0 <= j < m1[s[i].parameter_id]@.len() - 1 ==> m1[s[i].parameter_id]@[j] == m0[s[i].parameter_id]@[j],
        *m1[s[i].parameter_id]@.last() == s[i],
    ensures map_groups(m1, s.take(i + 1))
{
    let k = s[i].parameter_id;
    assert(s.take(i + 1) =~= s.take(i).push(s[i]));
    assert forall|pid: ParameterId| #[trigger] vals_in_map(m1, pid) =~= vals_of(s.take(i + 1), pid) by {
        lemma_vals_push(s.take(i), s[i], pid);
        assert(vals_in_map(m0, pid) =~= vals_of(s.take(i), pid));
        if pid == k {
            assert(vals_in_map(m1, pid) =~= vals_in_map(m0, pid).push(s[i].value@));
        } else {
            assert(m1.contains_key(pid) == m0.contains_key(pid));
        }
    }
    assert forall|pid: ParameterId| #[trigger] m1.contains_key(pid) implies m1[pid]@.len() > 0 by {
        if pid != k { assert(m0.contains_key(pid)); }
    }
}

// composition of the 12 per-statement effects (proof hint of to_parameter_list)
pub proof fn lemma_emit_compose(q: QosPolicies, ctx: Endianness, tr: EmitTrace, fin: Seq<Parameter>)
    requires tr.linked(fin), tr.steps(q, ctx)
    ensures encodes_qos(fin, q, ctx)
{
    reveal(stmt_plain); reveal(stmt_ownership); reveal(stmt_reliability); reveal(stmt_history);
    assert forall|p: ParameterId| emits(q, ctx, p, #[trigger] vals_of(fin, p)) by {
        lemma_vals_empty(p);
        lemma_vals_empty(pid_of(0x001A));
        lemma_vals_empty(pid_of(0x0040));
        assert(p.value == 0x001A ==> p == pid_of(0x001A));
        assert(p.value == 0x0040 ==> p == pid_of(0x0040));
    }
}

// "arbitrary extra parameters interleaved": inserting, at any position, a parameter whose PID is not one of
// the 13 QoS PIDs changes nothing under the 13 QoS PIDs
pub proof fn lemma_vals_insert_other(s: Seq<Parameter>, i: int, p: Parameter, pid: ParameterId)
    requires 0 <= i <= s.len(), p.parameter_id != pid
    ensures vals_of(s.insert(i, p), pid) == vals_of(s, pid)
    decreases s.len() - i
{
    if i == s.len() {
        assert(s.insert(i, p) =~= s.push(p));
        lemma_vals_push(s, p, pid);
    } else {
        reveal_with_fuel(vals_of, 1);
        let t = s.insert(i, p);
        assert(t.drop_last() =~= s.drop_last().insert(i, p));
        assert(t.last() == s.last());
        lemma_vals_insert_other(s.drop_last(), i, p, pid);
    }
}
pub proof fn lemma_carries_insert_unknown(s: Seq<Parameter>, i: int, p: Parameter, q: QosPolicies, ctx: Endianness)
    requires 0 <= i <= s.len(), !known_pid(p.parameter_id), carries_qos(s, q, ctx)
    ensures carries_qos(s.insert(i, p), q, ctx)   // [plcdr.qos.unknown.interleave]
{
    assert forall|pid: ParameterId| known_pid(pid) implies emits(q, ctx, pid, #[trigger] vals_of(s.insert(i, p), pid)) by {
        lemma_vals_insert_other(s, i, p, pid);
        assert(emits(q, ctx, pid, vals_of(s, pid)));
    }
}
pub proof fn lemma_encodes_carries(s: Seq<Parameter>, q: QosPolicies, ctx: Endianness)
    requires encodes_qos(s, q, ctx)
    ensures carries_qos(s, q, ctx)
{
    assert forall|pid: ParameterId| known_pid(pid) implies emits(q, ctx, pid, #[trigger] vals_of(s, pid)) by {
        assert(emits(q, ctx, pid, vals_of(s, pid)));
    }
}

// ROUND TRIP over the contracts of to_parameter_list (plcdr.qos.emit), ParameterList::to_map (plcdr.map,
// assumed) and from_parameter_list (plcdr.qos.read), for every QosPolicies value and both byte orders:
//   s  any parameter sequence that carries under the 13 QoS PIDs what to_parameter_list(q, ctx) emits —
//      i.e. its result with arbitrary parameters of other PIDs interleaved (lemma_carries_insert_unknown)
//   m  the map to_map builds from s
// then every one of the 13 parameters decodes, the policy set read back is q itself, and the ownership
// pair is one of the plain combinations (so plcdr.qos.read alone determines the result: Ok(q)).
pub proof fn lemma_qos_roundtrip(q: QosPolicies, ctx: Endianness, s: Seq<Parameter>, m: Map<ParameterId, Vec<&Parameter>>)
    requires carries_qos(s, q, ctx), map_groups(m, s)
    ensures
        decodable(known_view(m), ctx),                 // [plcdr.qos.roundtrip]
        decoded(known_view(m), ctx) == q,              // [plcdr.qos.roundtrip]
        ownership_plain(known_view(m), ctx),           // [plcdr.qos.roundtrip]
        all_writes_ok(ctx),                            // [plcdr.qos.roundtrip]
        forall|r: Result<QosPolicies, PlCdrDeserializeError>| read_ok(known_view(m), ctx, r) ==> r == Ok::<QosPolicies, PlCdrDeserializeError>(q),   // [plcdr.qos.roundtrip]
{
    axiom_rt_durability(); axiom_rt_presentation(); axiom_rt_deadline(); axiom_rt_latency_budget();
    axiom_rt_ownership_kind(); axiom_rt_i32(); axiom_rt_liveliness(); axiom_rt_time_based_filter();
    axiom_rt_reliability_serialization(); axiom_rt_destination_order(); axiom_rt_history_serialization();
    axiom_rt_resource_limits(); axiom_rt_lifespan();
    let k = known_view(m);
    // under each of the 13 PIDs the map lists what s carries, which is what q emits
    assert(emits(q, ctx, pid_of(0x001D), vals_of(s, pid_of(0x001D))) && vals_in_map(m, pid_of(0x001D)) =~= vals_of(s, pid_of(0x001D)));
    assert(emits(q, ctx, pid_of(0x0021), vals_of(s, pid_of(0x0021))) && vals_in_map(m, pid_of(0x0021)) =~= vals_of(s, pid_of(0x0021)));
    assert(emits(q, ctx, pid_of(0x0023), vals_of(s, pid_of(0x0023))) && vals_in_map(m, pid_of(0x0023)) =~= vals_of(s, pid_of(0x0023)));
    assert(emits(q, ctx, pid_of(0x0027), vals_of(s, pid_of(0x0027))) && vals_in_map(m, pid_of(0x0027)) =~= vals_of(s, pid_of(0x0027)));
    assert(emits(q, ctx, pid_of(0x001F), vals_of(s, pid_of(0x001F))) && vals_in_map(m, pid_of(0x001F)) =~= vals_of(s, pid_of(0x001F)));
    assert(emits(q, ctx, pid_of(0x0006), vals_of(s, pid_of(0x0006))) && vals_in_map(m, pid_of(0x0006)) =~= vals_of(s, pid_of(0x0006)));
    assert(emits(q, ctx, pid_of(0x001B), vals_of(s, pid_of(0x001B))) && vals_in_map(m, pid_of(0x001B)) =~= vals_of(s, pid_of(0x001B)));
    assert(emits(q, ctx, pid_of(0x0004), vals_of(s, pid_of(0x0004))) && vals_in_map(m, pid_of(0x0004)) =~= vals_of(s, pid_of(0x0004)));
    assert(emits(q, ctx, pid_of(0x001A), vals_of(s, pid_of(0x001A))) && vals_in_map(m, pid_of(0x001A)) =~= vals_of(s, pid_of(0x001A)));
    assert(emits(q, ctx, pid_of(0x0025), vals_of(s, pid_of(0x0025))) && vals_in_map(m, pid_of(0x0025)) =~= vals_of(s, pid_of(0x0025)));
    assert(emits(q, ctx, pid_of(0x0040), vals_of(s, pid_of(0x0040))) && vals_in_map(m, pid_of(0x0040)) =~= vals_of(s, pid_of(0x0040)));
    assert(emits(q, ctx, pid_of(0x0041), vals_of(s, pid_of(0x0041))) && vals_in_map(m, pid_of(0x0041)) =~= vals_of(s, pid_of(0x0041)));
    assert(emits(q, ctx, pid_of(0x002B), vals_of(s, pid_of(0x002B))) && vals_in_map(m, pid_of(0x002B)) =~= vals_of(s, pid_of(0x002B)));
    // corner cases, explicit
    //  * Ownership: None -> nothing; Shared -> kind only; Exclusive{strength} -> kind + strength; each reads back as itself
    assert(ownership_of_wire(ownership_kind_of(q.ownership), ownership_strength_of(q.ownership)) == q.ownership);
    assert(ownership_pair_plain(ownership_kind_of(q.ownership), ownership_strength_of(q.ownership)));
    //  * Reliability: whatever blocking time was encoded for BestEffort, it reads back as BestEffort; Reliable keeps its blocking time
    assert(forall|rs: ReliabilitySerialization, r: policy::Reliability| encodes_reliability(rs, r) ==> reliability_of_wire(rs) == r);
    //  * History: whatever depth was encoded for KeepAll, it reads back as KeepAll (not KeepLast{0}); KeepLast keeps its depth
    assert(forall|hs: HistorySerialization, h: policy::History| encodes_history(hs, h) ==> history_of_wire(hs) == h);
    assert(decodable(k, ctx));
    assert(decoded(k, ctx) == q);
}

// ---- part 2 (topic discovery data) ---------------------------------------------------------------
pub broadcast proof fn lemma_vals_add(a: Seq<Parameter>, b: Seq<Parameter>, pid: ParameterId)
    ensures #[trigger] vals_of(a + b, pid) == vals_of(a, pid) + vals_of(b, pid)
    decreases b.len()
{
    if b.len() == 0 {
        assert(a + b =~= a);
        lemma_vals_empty(pid);
        assert(vals_of(a, pid) + Seq::<Seq<u8>>::empty() =~= vals_of(a, pid));
        assert(b =~= Seq::<Parameter>::empty());
    } else {
        assert(a + b =~= (a + b.drop_last()).push(b.last()));
        assert(b =~= b.drop_last().push(b.last()));
        lemma_vals_push(a + b.drop_last(), b.last(), pid);
        lemma_vals_push(b.drop_last(), b.last(), pid);
        lemma_vals_add(a, b.drop_last(), pid);
        if b.last().parameter_id == pid {
            assert(vals_of(a, pid) + vals_of(b.drop_last(), pid).push(b.last().value@) =~= (vals_of(a, pid) + vals_of(b.drop_last(), pid)).push(b.last().value@));
        }
    }
}
// what the decoders look up in the map is the first value under the PID in the list the map was built from
pub proof fn lemma_known_view_of(m: Map<ParameterId, Vec<&Parameter>>, s: Seq<Parameter>)
    requires map_groups(m, s)
    ensures known_view(m) == known_view_of(s), forall|p: ParameterId| #[trigger] first_bytes(m, p) == first_in(s, p)
{
    assert forall|p: ParameterId| #[trigger] first_bytes(m, p) == first_in(s, p) by {
        assert(vals_in_map(m, p) =~= vals_of(s, p));
    }
}

// the QoS round trip stated on the received list itself (what the decoders look up = first value under the PID)
pub proof fn lemma_qos_roundtrip_seq(q: QosPolicies, ctx: Endianness, s: Seq<Parameter>)
    requires carries_qos(s, q, ctx)
    ensures decodable(known_view_of(s), ctx), decoded(known_view_of(s), ctx) == q
{
    axiom_rt_durability(); axiom_rt_presentation(); axiom_rt_deadline(); axiom_rt_latency_budget();
    axiom_rt_ownership_kind(); axiom_rt_i32(); axiom_rt_liveliness(); axiom_rt_time_based_filter();
    axiom_rt_reliability_serialization(); axiom_rt_destination_order(); axiom_rt_history_serialization();
    axiom_rt_resource_limits(); axiom_rt_lifespan();
    let k = known_view_of(s);
    assert(emits(q, ctx, pid_of(0x001D), vals_of(s, pid_of(0x001D))));
    assert(emits(q, ctx, pid_of(0x0021), vals_of(s, pid_of(0x0021))));
    assert(emits(q, ctx, pid_of(0x0023), vals_of(s, pid_of(0x0023))));
    assert(emits(q, ctx, pid_of(0x0027), vals_of(s, pid_of(0x0027))));
    assert(emits(q, ctx, pid_of(0x001F), vals_of(s, pid_of(0x001F))));
    assert(emits(q, ctx, pid_of(0x0006), vals_of(s, pid_of(0x0006))));
    assert(emits(q, ctx, pid_of(0x001B), vals_of(s, pid_of(0x001B))));
    assert(emits(q, ctx, pid_of(0x0004), vals_of(s, pid_of(0x0004))));
    assert(emits(q, ctx, pid_of(0x001A), vals_of(s, pid_of(0x001A))));
    assert(emits(q, ctx, pid_of(0x0025), vals_of(s, pid_of(0x0025))));
    assert(emits(q, ctx, pid_of(0x0040), vals_of(s, pid_of(0x0040))));
    assert(emits(q, ctx, pid_of(0x0041), vals_of(s, pid_of(0x0041))));
    assert(emits(q, ctx, pid_of(0x002B), vals_of(s, pid_of(0x002B))));
    assert(ownership_of_wire(ownership_kind_of(q.ownership), ownership_strength_of(q.ownership)) == q.ownership);
    assert(forall|rs: ReliabilitySerialization, r: policy::Reliability| encodes_reliability(rs, r) ==> reliability_of_wire(rs) == r);
    assert(forall|hs: HistorySerialization, h: policy::History| encodes_history(hs, h) ==> history_of_wire(hs) == h);
    assert(decodable(k, ctx));
    assert(decoded(k, ctx) == q);
}
// ROUND TRIP of the topic discovery data over the contracts plcdr.topic.emit / plcdr.topic.read, for every
// TopicBuiltinTopicData value (key present or absent, any strings, every combination of present / absent policies)
// and both byte orders:
//   s   the parameter list to_pl_cdr_bytes serialises (it carries exactly the topic data)
//   s2  the parameter list from_pl_cdr_bytes parses: under the 3 topic PIDs and the 13 QoS PIDs the same values
//       in the same order (i.e. assuming the byte layer - framing, padding, sentinel - hands parameter values over
//       unchanged; it is NOT part of this unit), anything under any other PID
// then s2 is decodable and the topic data read back is t itself.
pub proof fn lemma_topic_roundtrip(t: TopicBuiltinTopicData, ctx: Endianness, s: Seq<Parameter>, s2: Seq<Parameter>)
    requires
        encodes_topic(s, t, ctx),
        forall|p: ParameterId| (known_pid(p) || topic_pid(p)) ==> #[trigger] vals_of(s2, p) == vals_of(s, p),
    ensures
        topic_decodable(s2, ctx),               // [plcdr.topic.roundtrip]
        topic_decoded(s2, ctx) == t,            // [plcdr.topic.roundtrip]
{
    axiom_rt_guid(); axiom_rt_string_with_nul();
    assert forall|p: ParameterId| known_pid(p) implies emits(topic_qos(t), ctx, p, #[trigger] vals_of(s2, p)) by {
        assert(topic_emits(t, ctx, p, vals_of(s, p)));
        assert(vals_of(s2, p) == vals_of(s, p));
    }
    lemma_qos_roundtrip_seq(topic_qos(t), ctx, s2);
    assert(topic_emits(t, ctx, pid_of(0x005A), vals_of(s, pid_of(0x005A))) && vals_of(s2, pid_of(0x005A)) == vals_of(s, pid_of(0x005A)));
    assert(topic_emits(t, ctx, pid_of(0x0005), vals_of(s, pid_of(0x0005))) && vals_of(s2, pid_of(0x0005)) == vals_of(s, pid_of(0x0005)));
    assert(topic_emits(t, ctx, pid_of(0x0007), vals_of(s, pid_of(0x0007))) && vals_of(s2, pid_of(0x0007)) == vals_of(s, pid_of(0x0007)));
    assert(topic_of(t.key, t.name, t.type_name, topic_qos(t)) == t);
}
