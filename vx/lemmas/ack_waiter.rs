// ---------------------------------------------------------------------------------------------
// C20 lemma (proof only; no executable code).  After the WaitForAcknowledgments arm has armed a
// wait (ackw.arm.armed / ackw.arm.pending: pending == the readers that must be waited for, non-empty,
// wait_until == last written SN), every ACKNACK(g, base) and reader_lost(g) reaches the waiter
// through update_ack_waiters, whose contract (ackw.update.once / ackw.update.signal) is exactly
// `model_step`.  For ANY finite sequence of such events:
//   success is signalled  <=>  every reader pending at call time has acknowledged beyond wait_until
//                              or has been lost;   at most once;   and by the very event that makes
//                              the condition true (statement for every prefix).
// ---------------------------------------------------------------------------------------------
pub enum AckEv { AckNack(GUID, SequenceNumber), ReaderLost(GUID) }
pub open spec fn ev_guid(e: AckEv) -> GUID { match e { AckEv::AckNack(g, _) => g, AckEv::ReaderLost(g) => g } }
pub open spec fn ev_acked(e: AckEv) -> Option<SequenceNumber> { match e { AckEv::AckNack(_, b) => Some(b), AckEv::ReaderLost(_) => None } }

// waiter state after the events, each processed by update_ack_waiters (== model_step)
pub open spec fn run(st: Option<WaitSt>, evs: Seq<AckEv>) -> Option<WaitSt>
    decreases evs.len()
{
    if evs.len() == 0 { st } else { model_step(run(st, evs.drop_last()), ev_guid(evs.last()), ev_acked(evs.last())).0 }
}
// number of success signals emitted while processing the events
pub open spec fn nsignals(st: Option<WaitSt>, evs: Seq<AckEv>) -> nat
    decreases evs.len()
{
    if evs.len() == 0 { 0 } else {
        nsignals(st, evs.drop_last()) + (if model_step(run(st, evs.drop_last()), ev_guid(evs.last()), ev_acked(evs.last())).1 { 1nat } else { 0nat })
    }
}
// the statement's condition for one reader / for all readers pending at call time
pub open spec fn reader_done(g: GUID, wait_until: SequenceNumber, evs: Seq<AckEv>) -> bool {
    exists|i: int| 0 <= i < evs.len() && ev_guid(#[trigger] evs[i]) == g && acks_beyond(wait_until, ev_acked(evs[i]))
}
pub open spec fn all_done(p0: Set<GUID>, wait_until: SequenceNumber, evs: Seq<AckEv>) -> bool {
    forall|g: GUID| p0.contains(g) ==> #[trigger] reader_done(g, wait_until, evs)
}

pub open spec fn run_inv(st0: WaitSt, evs: Seq<AckEv>) -> bool {
    let done = all_done(st0.pending, st0.wait_until, evs);
    let r = run(Some(st0), evs);
    &&& done ==> r.is_none() && nsignals(Some(st0), evs) == 1
    &&& !done ==> r.is_some() && r.unwrap().wait_until == st0.wait_until && r.unwrap().chan == st0.chan
                  && nsignals(Some(st0), evs) == 0
                  && (forall|g: GUID| r.unwrap().pending.contains(g) <==> (st0.pending.contains(g) && !reader_done(g, st0.wait_until, evs)))
}

proof fn lemma_done_step(g: GUID, w: SequenceNumber, evs: Seq<AckEv>)
    requires evs.len() > 0
    ensures reader_done(g, w, evs) <==> (reader_done(g, w, evs.drop_last()) || (ev_guid(evs.last()) == g && acks_beyond(w, ev_acked(evs.last()))))
{
    let pre = evs.drop_last();
    if reader_done(g, w, evs) {
        let i = choose|i: int| 0 <= i < evs.len() && ev_guid(#[trigger] evs[i]) == g && acks_beyond(w, ev_acked(evs[i]));
        if i < evs.len() - 1 { assert(pre[i] == evs[i]); }
    }
    if reader_done(g, w, pre) {
        let i = choose|i: int| 0 <= i < pre.len() && ev_guid(#[trigger] pre[i]) == g && acks_beyond(w, ev_acked(pre[i]));
        assert(pre[i] == evs[i]);
    }
    if ev_guid(evs.last()) == g && acks_beyond(w, ev_acked(evs.last())) {
        assert(evs[evs.len() - 1] == evs.last());
    }
}

proof fn lemma_run(st0: WaitSt, evs: Seq<AckEv>)
    requires !set_is_empty(st0.pending)
    ensures run_inv(st0, evs)
    decreases evs.len()
{
    let w = st0.wait_until;
    let p0 = st0.pending;
    if evs.len() == 0 {
        let g0 = choose|g: GUID| p0.contains(g);
        assert(!reader_done(g0, w, evs));
        assert(!all_done(p0, w, evs));
        assert forall|g: GUID| p0.contains(g) <==> (p0.contains(g) && !reader_done(g, w, evs)) by {}
    } else {
        let pre = evs.drop_last();
        let e = evs.last();
        lemma_run(st0, pre);
        assert forall|g: GUID| reader_done(g, w, evs) <==> (reader_done(g, w, pre) || (ev_guid(e) == g && acks_beyond(w, ev_acked(e)))) by {
            lemma_done_step(g, w, evs);
        }
        if all_done(p0, w, pre) {
            assert forall|g: GUID| p0.contains(g) implies #[trigger] reader_done(g, w, evs) by { assert(reader_done(g, w, pre)); }
        } else {
            let s = run(Some(st0), pre).unwrap();
            let p2 = pending_after(s.pending, w, ev_guid(e), ev_acked(e));
            assert forall|g: GUID| p2.contains(g) <==> (p0.contains(g) && !reader_done(g, w, evs)) by {}
            if set_is_empty(p2) {
                assert forall|g: GUID| p0.contains(g) implies #[trigger] reader_done(g, w, evs) by { assert(!p2.contains(g)); }
            } else {
                let g1 = choose|g: GUID| p2.contains(g);
                assert(p0.contains(g1) && !reader_done(g1, w, evs));
            }
        }
    }
}

pub proof fn theorem_wait_for_acknowledgments(st0: WaitSt, evs: Seq<AckEv>)
    requires
        !set_is_empty(st0.pending),
    ensures
        nsignals(Some(st0), evs) <= 1,                                                                       // [ackw.lemma.once]
        nsignals(Some(st0), evs) == 1 <==> all_done(st0.pending, st0.wait_until, evs),                       // [ackw.lemma.iff]
        run(Some(st0), evs).is_none() <==> all_done(st0.pending, st0.wait_until, evs),                       // [ackw.lemma.iff]
        forall|n: int| 0 <= n <= evs.len() ==>                                                               // [ackw.lemma.as_soon_as]
            (nsignals(Some(st0), #[trigger] evs.take(n)) == 1 <==> all_done(st0.pending, st0.wait_until, evs.take(n))),
{
    lemma_run(st0, evs);
    assert forall|n: int| 0 <= n <= evs.len() implies
        (nsignals(Some(st0), #[trigger] evs.take(n)) == 1 <==> all_done(st0.pending, st0.wait_until, evs.take(n))) by {
        lemma_run(st0, evs.take(n));
    }
}
