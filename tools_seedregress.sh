#!/bin/bash
# tools_seedregress.sh [jobs] : run every stored seed (seeded/<id>/patch.diff) against the quick check of its
# property on a scratch worktree of /repo HEAD and print one line per seed:  <id> <property> exit=<n> <labels...>
# (dev helper, regression of the detection table in DESIGN 11.8; nothing is written to evidence/ or replay/)
J=${1:-3}
OUT=${SEEDREG_OUT:-/var/tmp/seedreg}
mkdir -p $OUT
one() {
  sid=$1; prop=$(python3 -c "import json,sys;print(json.load(open('/verif/seeded/$sid/meta.json'))['property'])")
  WT=/var/tmp/swt-$sid
  git -C /repo worktree remove --force $WT 2>/dev/null
  git -C /repo worktree add -q $WT HEAD 2>/dev/null || { echo "$sid $prop exit=worktree-failed"; return; }
  cp /repo/Cargo.lock $WT/ 2>/dev/null
  if ! git -C $WT apply /verif/seeded/$sid/patch.diff 2>/dev/null; then echo "$sid $prop exit=patch-does-not-apply"; git -C /repo worktree remove --force $WT; return; fi
  VERIF_REPO=$WT /verif/check $prop > $OUT/$sid.log 2>&1; rc=$?
  labels=$(grep -E "^VIOLATION" $OUT/$sid.log | sed -E 's/.*replay=[^ ]*\/[A-Z0-9]+-([^ ]*)\.json.*/\1/' | sort -u | head -6 | tr '\n' ' ')
  und=$(grep -c "^UNDECIDED" $OUT/$sid.log)
  echo "$sid $prop exit=$rc undecided=$und $labels"
  git -C /repo worktree remove --force $WT 2>/dev/null
}
export -f one; export OUT
ls /verif/seeded | grep -v README | grep -v REGRESSION | grep -E "${SEEDREG_FILTER:-.}" | xargs -P $J -I{} bash -c 'one {}'
